"""K1/K2 refinement harness: the real handlers of an operator (or methods of a class) refine
a spec machine (specs/*.py) under a coupling invariant.

For every handler H and every path through it:
    inv(cells, s) /\ source live  ==>  after real H:  the downstream trace produced by the real
    code equals the trace produced by the spec step (elements as a sequence equation,
    terminal kind and payload), inv(cells', s') holds again, and no exception escapes.
Holding initially (after `subscribe`) and preserved by every event, the real operator's
output equals the spec machine's output for every input history of any length.
"""
from __future__ import annotations

import ast
import os

import time
import traceback

import z3

from . import natives, smt
from .interp import NOTSET, Ctx, Env, Interp, World, explore, _Break, _Continue
from .loader import Loader
from .values import (
    SV,
    BoolSV,
    BoundMethod,
    ClassRef,
    Closure,
    DictObj,
    SetObj,
    IntSV,
    ListObj,
    Native,
    Obj,
    Opaque,
    OpaqueMethod,
    PathEnd,
    PyExc,
    Sentinel,
    Unsupported,
    ValSV,
)


def modname_of(relpath):
    m = relpath[:-3].replace("/", ".")
    return m[: -len(".__init__")] if m.endswith(".__init__") else m


class Result:
    __slots__ = ("oid", "verdict", "backend", "model", "path", "detail", "seconds", "kind")

    def __init__(self, oid, verdict, backend="", model=None, path=None, detail="", seconds=0.0, kind="post"):
        self.oid = oid
        self.verdict = verdict  # proved | refuted | unknown | unsupported
        self.backend = backend
        self.model = model or {}
        self.path = path or []
        self.detail = detail
        self.seconds = seconds
        self.kind = kind

    def as_dict(self):
        return {
            "id": self.oid, "verdict": self.verdict, "backend": self.backend, "model": self.model,
            "path": [f"{l}={'T' if d else 'F'}" for l, d in self.path][-12:], "detail": self.detail,
            "seconds": round(self.seconds, 4), "kind": self.kind,
        }


def _bt(x):
    return z3.BoolVal(x) if isinstance(x, bool) else x


class Trace:
    """downstream trace: elements (pieces) then optional terminal; truncated at the first terminal"""

    def __init__(self):
        self.pieces = []  # z3 Seq(Val) terms
        self.terminal = None  # None | ('C',) | ('E', val_term)
        self.count_concrete = 0

    def next(self, t):
        if self.terminal is None:
            self.pieces.append(z3.Unit(t))
            self.count_concrete += 1

    def chunk(self, seq_t):
        if self.terminal is None:
            self.pieces.append(seq_t)

    def error(self, t):
        if self.terminal is None:
            self.terminal = ("E", t)

    def completed(self):
        if self.terminal is None:
            self.terminal = ("C",)

    def elems(self):
        if not self.pieces:
            return z3.Empty(smt.SeqVal)
        if len(self.pieces) == 1:
            return self.pieces[0]
        return z3.Concat(*self.pieces)

    def describe(self):
        return {"elems": str(z3.simplify(self.elems()))[:200], "terminal": str(self.terminal)[:120]}


class OpWorld(World):
    def __init__(self):
        super().__init__()
        self.traces = {}
        self.subs = []  # (source opaque, handlers tuple, kwargs)
        self.scheduled = []
        self.disposed = []
        self.specobs = []
        self.struct = {"impl": [], "spec": []}
        self.snaps = {"impl": [], "spec": []}
        self.spec_subs = []
        self.lock_calls = []
        self.cspecs = []  # (spec obj, contract, wrapper state, downstream adapter) of callee stages, in subscription order
        self.harness = None
        #: virtual time (K1-T): the instant of the event being processed; one reading per step (A-time-step)
        self.down_snaps = {"impl": [], "spec": []}
        self.now_term = None
        self.timers = []  # timers the real code scheduled: dict(due, action, state, handle)
        self.spec_timers = []
        #: subjects created by the operator (windows, groups): the k-th one of the real code is the k-th one of the spec
        self.nsubj = {"impl": 0, "spec": 0}
        #: live views of a state collection (id(ListObj) -> name of the cell it is a view of)
        self.live_views = {}
        self.side = "impl"
        self.dsnaps = {"impl": [], "spec": []}
        #: (what, scheduler object) for every clock reading / timer / clock-reading callee stage of the real code: one subscription, one clock
        self.clock_users = []

    def getattr(self, it, o, name):
        if o.kind == "scheduler" and name == "now":
            if self.now_term is None:
                raise Unsupported("scheduler.now outside a timed contract")
            if getattr(self, "side", "impl") == "impl":
                self.clock_users.append(("reads the clock of", o))
            return IntSV(self.now_term)
        return super().getattr(it, o, name)

    def schedule_timer(self, it, method, args, kwargs):
        """scheduler.schedule / schedule_relative / schedule_absolute of the real code"""
        if self.now_term is None:
            if method == "schedule" and args:
                # an untimed contract (take(0) is empty()): the subscribe-time scheduler runs an action scheduled for "now" once -
                # here at once, which is what the current-thread scheduler does for a subscription made outside a running action
                a0 = list(args)
                it.call(a0[0], [self.harness.sub_sched if self.harness is not None and getattr(self.harness, "sub_sched", None) is not None else None,
                                kwargs.get("state", a0[1] if len(a0) > 1 else None)], {})
                return Opaque("disposable", "scheduled-now")
            raise Unsupported("scheduling outside a timed contract")
        a = list(args)
        if method == "schedule":
            due = self.now_term
            action = a[0]
            state = kwargs.get("state", a[1] if len(a) > 1 else None)
        else:
            t = it.to_int(a[0])
            # VirtualTimeScheduler semantics: an item due in the past runs at the current instant
            due = (self.now_term + z3.If(t > 0, t, 0)) if method == "schedule_relative" else z3.If(t > self.now_term, t, self.now_term)
            action = a[1]
            state = kwargs.get("state", a[2] if len(a) > 2 else None)
        h = Opaque("disposable", f"timer:{len(self.timers)}")
        if getattr(self, "side", "impl") == "impl" and getattr(self, "_sched_obj", None) is not None:
            self.clock_users.append(("sets a timer on", self._sched_obj))
        self.timers.append({"due": z3.simplify(due), "action": action, "state": state, "handle": h})
        self.struct["impl"].append(("timer", z3.simplify(due)))
        self.events.append(("timer", due))
        return h

    def trace(self, name):
        if name not in self.traces:
            self.traces[name] = Trace()
        return self.traces[name]

    def deref(self, it, role, t):
        """an object read back from a symbolic list of references"""
        if role == "source":
            return Opaque("source", it.ctx.fresh_name("queued"), term=t,
                          lock=Opaque("lock", "queued.lock", reentrant=True), _isa=("ObservableBase", "Observable"))
        return Opaque(role, it.ctx.fresh_name(role), term=t)

    def truthy(self, it, o):
        if o.kind == "refmap":
            return it.truth(BoolSV(z3.Length(o.attrs["vals"]) > 0), f"{o.name} is not empty")
        return super().truthy(it, o)

    def call_callback(self, it, o, args, kwargs):
        r = super().call_callback(it, o, args, kwargs)
        kind = o.attrs.get("returns")
        if kind == "source":
            h = self.harness
            if h is not None and getattr(self, "side", "impl") == "impl" and hasattr(h, "elements_may_be_futures") and h.elements_may_be_futures(it) \
                    and it.ctx.choose(2, f"{o.name} hands back an observable / a future"):
                # the operator asks `is_future`: what the user's function hands back may be a future, `from_future` of it is the sequence
                it.ctx.assume(r.t != smt.NONE)
                return Opaque("future", it.ctx.fresh_name("future"), term=r.t)
            return self.deref(it, "source", r.t)  # the callback hands back an observable (a duration, a boundary, ...)
        if kind == "subject":
            it.ctx.assume(z3.And(r.t != smt.NONE, r.t != ABSENT, IS_SUBJ(r.t)))
            return self.deref(it, "subject", r.t)
        return r

    # -- subjects the operator creates itself (windows, groups) and collections of them ---------------------------
    def new_subject(self, it):
        """`Subject()` in the real code / `out.new_subject()` in the spec: the k-th creation of either side is the same
        (fresh) object.  Subject is used through its contract (C20): calls on it are events of its own channel."""
        side = getattr(self, "side", "impl")
        k = self.nsubj[side]
        self.nsubj[side] += 1
        t = z3.Const(f"new_subject_{k}", smt.Val)
        it.ctx.assume(z3.And(t != smt.NONE, t != ABSENT, IS_SUBJ(t)))
        for old in getattr(self, "known_refs", []):
            it.ctx.assume(t != old)  # a new object is none of those that exist already
        return Opaque("subject", f"subject#{k}", term=t)

    def known(self, t):
        self.__dict__.setdefault("known_refs", []).append(t)

    def make_valmap(self, it, name):
        o = self.make_refmap(it, name)
        o.attrs["of"] = "val"
        return o

    def make_refmap(self, it, name):
        """an (ordered) dict from user keys to subjects, known abstractly: `m` maps a key to its subject or to ABSENT,
        `vals` is the sequence of the values in iteration order (A-key: dict key equality is the equality of Val)"""
        m = z3.Const(it.ctx.fresh_name(name + "_map"), z3.ArraySort(smt.Val, smt.Val))
        vals = it.ctx.fresh(name + "_values", "seq").t
        return Opaque("refmap", name, m=m, vals=vals)

    def refmap_call(self, it, o, method, args):
        ctx = it.ctx
        m, vals = o.attrs["m"], o.attrs["vals"]
        of_subjects = o.attrs.get("of", "subject") == "subject"

        for _k in args[:1]:
            if isinstance(_k, int) or (isinstance(_k, SV) and _k.kind == "int"):
                # integer keys: distinct ints are distinct keys (ground instance of val2int(int2val(k)) == k)
                ctx.assume(smt.val2int(it.to_val(_k)) == it.to_int(_k))

        def read(key):
            t = z3.Select(m, it.to_val(key))
            if of_subjects:
                ctx.assume(z3.Or(t == ABSENT, IS_SUBJ(t)))  # only subjects are ever stored (checked at every store)
            return t

        def wrap(t):
            return self.deref(it, "subject", t) if of_subjects else ValSV(t)
        if method == "get":
            t = read(args[0])
            if ctx.branch(t == ABSENT, f"{o.name}: key absent"):
                return args[1] if len(args) > 1 else None
            return wrap(t)
        if method == "__getitem__":
            t = read(args[0])
            if ctx.branch(t == ABSENT, f"{o.name}: key absent"):
                raise PyExc(it.make_exc("KeyError", "key"))
            return wrap(t)
        if method == "__contains__":
            return BoolSV(read(args[0]) != ABSENT)
        if method == "__setitem__":
            k, v = it.to_val(args[0]), it.to_val(args[1])
            h = self.harness
            if not of_subjects:
                ctx.assume(v != ABSENT)  # (ABSENT is not a user value)
            elif h is not None and getattr(self, "side", "impl") == "impl":
                h.record(ctx, f"{h.step_uid}/{o.name}/only-subjects-are-stored-in-the-map", z3.And(IS_SUBJ(v), v != ABSENT), kind="frame",
                         detail="the map from keys to live groups holds subjects only (every value is sent the terminal notifications)")
            old = z3.Select(m, k)
            if ctx.branch(old != ABSENT, f"{o.name}: key present (overwrite)"):
                vals2 = SEQ_REPLACE(vals, old, v)
            else:
                vals2 = z3.Concat(vals, z3.Unit(v))
            o.attrs["m"], o.attrs["vals"] = z3.Store(m, k, v), vals2
            return None
        if method == "__delitem__":
            k = it.to_val(args[0])
            old = z3.Select(m, k)
            if ctx.branch(old == ABSENT, f"{o.name}: key absent"):
                raise PyExc(it.make_exc("KeyError", "key"))
            o.attrs["m"], o.attrs["vals"] = z3.Store(m, k, ABSENT), SEQ_WITHOUT(vals, old)
            return None
        if method == "values":
            lst = ListObj(term=vals, elem="ref:subject" if of_subjects else "val")
            self.live_views[lst.oid] = (o.name, lst)
            return lst
        if method == "__len__":
            return IntSV(z3.Length(vals))
        raise Unsupported(f"dict method {method} on the abstract map {o.name}")

    def broadcast(self, it, lst, method, args):
        """`for w in <symbolic list of subjects>: w.m(args)`: one event, every member in order"""
        self.broadcast_multi(it, lst, [(method, args)])

    def broadcast_multi(self, it, lst, calls):
        side = getattr(self, "side", "impl")
        h = self.harness
        if side == "impl" and h is not None and getattr(h, "in_handler", False):
            # call-out discipline: the subscribers of these subjects run inside the loop; whatever of the operator they can
            # re-enter (handlers of its per-group / per-window families) must not change the collection under the loop
            cell = None
            if lst.oid in self.live_views:
                cell = self.live_views[lst.oid][0]
            else:
                for n in h.c.cells:
                    try:
                        get, _set, leaf = resolve_path(it, h.cur_cells_env, n)
                        if get(leaf) is lst:
                            cell = n
                    except (Unsupported, KeyError):
                        pass
            if cell is not None and cell in getattr(h, "family_mutates", set()):
                h.fail(it.ctx, f"{h.step_uid}/loop-over-{cell}/iterates-a-snapshot-while-calling-out",
                       f"the loop walks `{cell}` itself while calling {', '.join(m for m, _ in calls)} on its members: a subscriber of such a "
                       f"member (e.g. a duration derived from the group) re-enters a handler of the operator that changes `{cell}` under the "
                       f"running loop (RuntimeError: mutated during iteration; later members never get the notification)", kind="inv")
        for method, args in calls:
            payload = self.lift(it, args[0]) if args else None
            self.struct[side].append(("each", lst.term, method, payload))
            self.events.append(("each", side, method))
            if h is not None and getattr(h, "in_handler", False) and getattr(h.c, "reentrant", False):
                # the subscribers of these subjects may call back into the operator from here (the body changes no state)
                if side == "impl":
                    self.snaps["impl"].append(h.capture_impl())
                elif h.cur_spec is not None:
                    self.snaps["spec"].append(h.capture_spec(h.cur_spec))

    def to_chunk(self, it, subject, method, seq_term):
        """`for v in <symbolic list of values>: subject.on_next(v)`: the whole sequence goes to that subject, in order"""
        side = getattr(self, "side", "impl")
        self.struct[side].append(("to*", subject.attrs["term"], method, seq_term))
        self.events.append(("to*", side, method))

    def broadcast_general(self, it, st, env, lst):
        """a loop over a symbolic list of subjects whose body is not literally `x.m(args)`: run ONE iteration for an arbitrary
        member; it must do nothing but call that member (no state change, nothing downstream, no break) - then the loop is
        those calls on every member in order"""
        import ast

        side = getattr(self, "side", "impl")
        h = self.harness
        if not isinstance(st.target, ast.Name) or st.orelse:
            raise Unsupported("loop over a symbolic list of objects: target / else")
        e = it.ctx.fresh("member", "val").t
        it.ctx.assume(z3.And(z3.Contains(lst.term, z3.Unit(e)), IS_SUBJ(e), e != ABSENT, e != smt.NONE))
        n0 = len(self.struct[side])
        ev0 = len(self.events)
        before = h.cell_identities(it) if h is not None and h.cur_cells_env is not None else {}
        it.assign(st.target, self.deref(it, lst.elem[4:], e), env)
        try:
            it.exec_block(st.body, env)
        except (_Break, _Continue):
            raise Unsupported("loop over a symbolic list of objects: break / continue")
        after = h.cell_identities(it) if h is not None and h.cur_cells_env is not None else {}
        new = self.struct[side][n0:]
        if any(not _same_identity(before[n], after.get(n)) for n in before):
            raise Unsupported("loop over a symbolic list of objects: the body changes operator state")
        if any(x[0] == "down" for x in self.events[ev0:]) or not new or any(x[0] != "to" or not z3.eq(x[1], e) for x in new):
            raise Unsupported("loop over a symbolic list of objects: the body is not just calls on the loop variable")
        del self.struct[side][n0:]
        self.broadcast_multi(it, lst, [(x[2], [ValSV(x[3])] if x[3] is not None else []) for x in new])

    def new_source(self, it, name):
        return Opaque("source", name, lock=Opaque("lock", f"{name}.lock", reentrant=True), _isa=("ObservableBase", "Observable"))

    def hasattr(self, it, o, name):
        if o.kind == "observer":
            return name in ("on_next", "on_error", "on_completed")
        if o.kind in ("source", "specobs"):
            return name in ("subscribe", "pipe", "lock")
        if o.kind == "disposable":
            return name in ("dispose",)
        return super().hasattr(it, o, name)

    def isinstance(self, it, o, cls):
        n = getattr(cls, "name", None)
        if o.kind == "observer":
            return n in ("ObserverBase",)
        if o.kind in ("source", "specobs"):
            return n in ("ObservableBase", "Observable")
        if o.kind == "disposable":
            return n in ("DisposableBase",)
        if o.kind == "scheduler":
            return n in ("SchedulerBase",)
        return super().isinstance(it, o, cls)

    # -- callee contracts: an operator applied inside another operator is its spec machine -------
    def make_specobs(self, it, c, params, source):
        n = len(self.specobs)
        o = Opaque("specobs", f"{c.name}#{n}", contract=c, params=params, source=source,
                   lock=Opaque("lock", f"{c.name}#{n}.lock", reentrant=True))
        self.specobs.append(o)
        return o

    def subscribe_specobs(self, it, o, hs, kwargs):
        """subscribing to a callee = running its spec machine between its source and the subscriber (wrapped, C01)"""
        h = self.harness
        c = o.attrs["contract"]
        modname, clsname = c.spec.split(":")
        s = Obj(it.module_get(modname, clsname))
        for n, v in o.attrs["params"].items():
            s.fields[n] = v
        for sname in c.sources:
            s.fields[sname] = o.attrs["source"]
        if getattr(self, "side", "impl") == "impl":
            # a callee stage that reads the clock (timestamp(), time_interval() without a scheduler of their own) reads the clock of the scheduler
            # THIS subscription is made with
            st_o = o
            while isinstance(st_o, Opaque) and st_o.kind == "specobs":
                cc = st_o.attrs["contract"]
                if getattr(cc, "timed", False) and st_o.attrs["params"].get("scheduler") is None:
                    self.clock_users.append((f"subscribes the clock-reading stage {cc.name} with", kwargs.get("scheduler")))
                st_o = st_o.attrs.get("source")
        idx = len(self.cspecs)
        state = {"stopped": False, "in_stopped": False}
        out = Opaque("observer", f"stage{idx}", handlers=tuple(hs), state=state, side=getattr(self, "side", "impl"))
        self.cspecs.append((s, c, state, out))
        h.spec_call(it, s, "init", [])
        h.spec_call(it, s, "on_subscribe", [out])

        def h_next(it_, a, k):
            if state["in_stopped"]:
                return None
            r = h.spec_call(it, s, "on_next", [out, a[0]])
            if r is NOTSET:
                raise Unsupported(f"spec {c.spec} lacks on_next")
            return None

        def h_error(it_, a, k):
            if state["in_stopped"]:
                return None
            state["in_stopped"] = True
            if h.spec_call(it, s, "on_error", [out, a[0]]) is NOTSET:
                it.call(OpaqueMethod(out, "on_error"), [a[0]], {})
            return None

        def h_completed(it_, a, k):
            if state["in_stopped"]:
                return None
            state["in_stopped"] = True
            if h.spec_call(it, s, "on_completed", [out]) is NOTSET:
                it.call(OpaqueMethod(out, "on_completed"), [], {})
            return None

        up = it.call(it.get_attr(o.attrs["source"], "subscribe"),
                     [Native(f"stage{idx}.on_next", h_next), Native(f"stage{idx}.on_error", h_error),
                      Native(f"stage{idx}.on_completed", h_completed)], {"scheduler": kwargs.get("scheduler")})
        return up

    def norm_handlers(self, it, args, kwargs):
        hs = list(args) + [None] * (3 - len(args))
        hs[0] = kwargs.get("on_next", hs[0])
        hs[1] = kwargs.get("on_error", hs[1])
        hs[2] = kwargs.get("on_completed", hs[2])
        if isinstance(hs[0], Opaque) and hs[0].kind == "observer":
            obs = hs[0]
            hs = [OpaqueMethod(obs, "on_next"), OpaqueMethod(obs, "on_error"), OpaqueMethod(obs, "on_completed")]
        elif isinstance(hs[0], Obj) and it.has_attr(hs[0], "on_next"):
            obs = hs[0]
            hs = [it.get_attr(obs, "on_next"), it.get_attr(obs, "on_error"), it.get_attr(obs, "on_completed")]
        return hs[:3]

    def call(self, it, o, method, args, kwargs):
        k = o.kind
        if k == "observer" and "handlers" in o.attrs:
            # the subscriber of a callee stage, behind the wrapper Observable.subscribe puts around it (C01)
            st = o.attrs["state"]
            hn, he, hc = o.attrs["handlers"]
            if method == "now":
                # spec primitive of a timed callee stage (timestamp, time_interval): the clock reading of this step
                if self.now_term is None:
                    raise Unsupported("out.now() of a callee stage outside a timed contract")
                return IntSV(self.now_term)
            if method not in ("on_next", "on_error", "on_completed"):
                raise Unsupported(f"spec primitive {method} of a callee stage")
            if st["stopped"]:
                return None
            # the consumer of the stage is code of the side that subscribed to it (the stage's spec machine runs as "spec")
            prev_side = getattr(self, "side", "impl")
            self.side = o.attrs.get("side", prev_side)
            try:
                if method == "on_next":
                    if hn is not None:
                        it.call(hn, [args[0]], {})
                    return None
                st["stopped"] = True
                if method == "on_error":
                    if he is None:
                        raise PyExc(args[0])  # default_error re-raises
                    it.call(he, [args[0]], {})
                elif hc is not None:
                    it.call(hc, [], {})
                return None
            finally:
                self.side = prev_side
        if k == "subject" and method in ("on_next", "on_error", "on_completed"):
            side = getattr(self, "side", "impl")
            payload = self.lift(it, args[0]) if args else None
            self.struct[side].append(("to", o.attrs["term"], method, payload))
            self.events.append(("to", side, method))
            h = self.harness
            if h is not None and getattr(h, "in_handler", False) and getattr(h.c, "reentrant", False):
                # a subscriber of the window / group may call back into the operator from here
                if side == "impl":
                    self.snaps["impl"].append(h.capture_impl())
                elif h.cur_spec is not None:
                    self.snaps["spec"].append(h.capture_spec(h.cur_spec))
            return None
        if k == "refmap":
            return self.refmap_call(it, o, method, args)
        if k == "observer" and o.name == "spec_out" and method == "new_subject":
            return self.new_subject(it)
        if k == "observer" and o.name == "spec_out" and method in ("group", "share"):
            # spec primitive: the observable face of a subject handed downstream (key, subject, holds a share of the subscription)
            if method == "share":
                return shared_face(it, None, args[0], True)
            return shared_face(it, args[0], args[1], args[2])
        if k in ("source", "specobs") and method == "pipe":
            cur = o
            for op in args:
                cur = it.call(op, [cur], {})
            return cur
        if k == "specobs" and method == "subscribe":
            return self.subscribe_specobs(it, o, self.norm_handlers(it, args, kwargs), kwargs)
        if k == "observer" and method == "subscribe" and o.name == "spec_out":
            # spec primitive: "the operator subscribes to this inner source now"
            self.spec_subs.append(it.to_val(args[0]))
            self.struct["spec"].append(("sub", it.to_val(args[0])))
            if self.harness is not None and self.harness.cur_spec is not None:
                self.snaps["spec"].append(self.harness.capture_spec(self.harness.cur_spec))
            return None
        if k == "observer" and method == "never" and o.name == "spec_out":
            # spec primitive: "the sequence that never notifies" (what the real code writes as reactivex.never())
            it.ctx.assume(z3.And(NEVER != smt.NONE, NEVER != ABSENT))
            return ValSV(NEVER)
        if k == "observer" and method == "throw" and o.name == "spec_out":
            # spec primitive: "the sequence that fails with this exception" (what the real code writes as reactivex.throw(e))
            t = THROW(self.lift(it, args[0]))
            it.ctx.assume(z3.And(t != smt.NONE, t != ABSENT))
            return ValSV(t)
        if k == "observer" and method == "dispose_source" and o.name == "spec_out":
            # spec primitive: "the subscription to source i is released now"
            self.struct["spec"].append(("dispose-src", args[0]))
            return None
        if k == "observer" and method == "subscribe_source" and o.name == "spec_out":
            # spec primitive: "the operator subscribes to its i-th (named) source now"
            # (second argument False: through handlers of the operator's own, not the subscriber itself)
            self.struct["spec"].append(("sub-src", args[0], bool(args[1]) if len(args) > 1 else True))
            return None
        if k == "observer" and method == "dispose_previous" and o.name == "spec_out":
            # spec primitive: "the previous inner subscription is released now"
            self.struct["spec"].append(("dispose-prev",))
            if self.harness is not None and self.harness.cur_spec is not None:
                self.dsnaps["spec"].append(self.harness.capture_spec(self.harness.cur_spec))
            return None
        if k == "observer":
            tr = self.trace(o.name)
            if o.name == "observer" and self.harness is not None and getattr(self.harness, "in_handler", False):
                self.lock_calls.append((method, [l.name for l in it.locks_held], self.harness.guard_now(it)))
            if o.name in ("observer", "spec_out") and method in ("on_next", "on_error", "on_completed") and tr.terminal is None:
                # one order for ALL call-outs of a step: what is handed downstream is also placed among the subscriptions,
                # timers and notifications of windows / groups (a subscriber of the group must be subscribed before the
                # duration derived from that group, ...)
                self.struct["impl" if o.name == "observer" else "spec"].append(("down", method))
            if method == "on_next":
                v = args[0]
                self.events.append(("down", o.name, "on_next", v))
                tr.next(self.lift(it, v))
                h = self.harness
                if h is not None and getattr(h, "in_handler", False) and getattr(h.c, "reentrant", False) and tr.terminal is None:
                    # the subscriber may call back into the operator from inside on_next: state must be consistent here
                    if o.name == "observer":
                        self.down_snaps["impl"].append(h.capture_impl())
                    elif o.name == "spec_out" and h.cur_spec is not None:
                        self.down_snaps["spec"].append(h.capture_spec(h.cur_spec))
                return None
            if method == "on_error":
                self.events.append(("down", o.name, "on_error", args[0]))
                tr.error(self.lift(it, args[0]))
                return None
            if method == "on_completed":
                self.events.append(("down", o.name, "on_completed", None))
                tr.completed()
                return None
        if k == "source" and method == "subscribe":
            hs = self.norm_handlers(it, args, kwargs)
            d = Opaque("disposable", f"sub:{o.name}:{len(self.subs)}")
            self.subs.append((o, hs, kwargs, d))
            if self.harness is not None and getattr(self.harness, "sub_sched", None) is not None and getattr(self, "side", "impl") == "impl":
                given = kwargs.get("scheduler", args[3] if len(args) > 3 else None)
                own = self.harness.env.vars.get("scheduler") if getattr(self.harness, "env", None) is not None else None
                # the subscribe-time scheduler, or the operator's own (`_scheduler = scheduler or scheduler_ or default` is what the
                # timed operators hand on) - never none at all
                if given is not self.harness.sub_sched and not (own is not None and given is own):
                    self.harness.sched_misses.append(f"{o.name} (scheduler={given})")
            self.events.append(("subscribe", o.name, d))
            if ("term" not in o.attrs and self.harness is not None and getattr(self.harness, "in_handler", False)
                    and o.name in self.harness.c.sources
                    and (len(self.harness.c.sources) > 1 or getattr(self.harness.c, "late_subscribe", False))):
                direct = bool(args) and isinstance(args[0], Opaque) and args[0].kind == "observer" and args[0].name == "observer"
                self.struct["impl"].append(("sub-src", list(self.harness.c.sources).index(o.name), direct))
            if ("term" not in o.attrs and self.harness is not None and getattr(self.harness, "phase", "") == "subscribe"
                    and o.name in self.harness.c.sources and (len(self.harness.c.sources) > 1 or getattr(self.harness.c, "timed", False))):
                # the order in which subscribe sets things up: sources that emit on subscription (or in the instant of the
                # subscription) must find the timers set and the other sources subscribed as the spec says
                self.struct["impl"].append(("sub-src", list(self.harness.c.sources).index(o.name), True))
            if "term" in o.attrs:
                self.struct["impl"].append(("sub", o.attrs["term"]))
                h_ = self.harness
                if (h_ is not None and getattr(h_, "in_handler", False) and getattr(self, "side", "impl") == "impl" and not getattr(h_.c, "families", None)
                        and not getattr(h_.c, "timers", None)):
                    # no handler family is declared for sequences this operator subscribes to on the way (catch's continuation, ...): what the
                    # contract says about them is "the subscriber gets them as they are" - so the subscriber itself must be what is handed over;
                    # handlers of the operator's own, or a stage in between, would run unverified
                    direct = all(isinstance(x, OpaqueMethod) and isinstance(x.obj, Opaque) and x.obj.kind == "observer" and x.obj.name == "observer"
                                 and x.name == n_ for x, n_ in zip(hs, ("on_next", "on_error", "on_completed")))
                    if not direct:
                        h_.fail(it.ctx, f"{h_.step_uid}/a-sequence-subscribed-on-the-way-is-handed-the-subscriber-itself",
                                f"{o.name} is subscribed with {hs!r}: not the downstream observer itself, and the contract declares no handler family for it")
                if self.harness is not None and getattr(self.harness, "in_handler", False):
                    self.snaps["impl"].append(self.harness.capture_impl())
                si = getattr(self.harness, "sync_inner", None) if self.harness is not None else None
                if si is not None and hs[si] is not None and not getattr(self.harness, "sync_inner_fired", False):
                    # scenario: this inner source (a member of a family) notifies from INSIDE its subscribe call, before the
                    # operator got the handle; what that notification subscribes / schedules is recorded
                    self.harness.sync_inner_fired = True
                    n0, t0 = len(self.subs), len(self.timers)
                    a = [it.ctx.fresh("x_sync", "val")] if si == 0 else ([fresh_exc(it.ctx, "err_sync")] if si == 1 else [])
                    try:
                        it.call(hs[si], a, {})
                    except PyExc:
                        self.harness.sync_inner_raised = True
                    self.harness.sync_inner_made = [x[3] for x in self.subs[n0:]] + [t["handle"] for t in self.timers[t0:]]
                    self.harness.sync_inner_disposed_before = len(self.disposed)
            elif self.harness is not None and getattr(self.harness, "phase", "") == "subscribe":
                # the source may emit synchronously from inside this call: the operator's cells must be ready
                env = self.harness.pick_cells_env(hs)
                if env is not None:
                    self.harness.cur_cells_env = env
                    self.harness.sub_snaps.append(self.harness.capture_impl(strict=True))
                sf = getattr(self.harness, "sync_fire", None)
                if sf is not None and sf[0] == o.name and hs[sf[1]] is not None and not getattr(self.harness, "sync_fired", False):
                    # scenario: this source notifies from INSIDE its subscribe call (before the caller got the handle)
                    self.harness.sync_fired = True
                    n0 = len(self.subs)
                    a = [self.harness.make_element(it, it.ctx)] if sf[1] == 0 else ([fresh_exc(it.ctx, "err")] if sf[1] == 1 else [])
                    it.call(hs[sf[1]], a, {})
                    self.harness.sync_subs = [x[3] for x in self.subs[n0:]]
            return d
        if k == "scheduler" and method in ("schedule", "schedule_relative", "schedule_absolute"):
            self._sched_obj = o
            try:
                return self.schedule_timer(it, method, args, kwargs)
            finally:
                self._sched_obj = None
        if k == "scheduler" and method in ("to_seconds", "to_timedelta", "to_datetime"):
            return args[0]  # A-time: representations of the same instant / span
        if k == "observer" and o.name == "spec_out" and method in ("schedule_relative", "schedule_absolute", "schedule"):
            # spec primitive: "a timer is set for this instant"
            if method == "schedule":
                due = self.now_term
            else:
                t = it.to_int(args[0])
                due = (self.now_term + z3.If(t > 0, t, 0)) if method == "schedule_relative" else z3.If(t > self.now_term, t, self.now_term)
            self.spec_timers.append(z3.simplify(due))
            self.struct["spec"].append(("timer", z3.simplify(due)))
            return None
        if k == "observer" and o.name == "spec_out" and method == "now":
            return IntSV(self.now_term)
        if k == "observer" and o.name == "spec_out" and method == "cancel_timer":
            self.struct["spec"].append(("cancel-timer",))
            return None
        if k == "disposable" and method == "dispose" and o.name.startswith("timer:"):
            self.events.append(("dispose", o.name))
            self.disposed.append(o)
            if self.harness is not None and getattr(self.harness, "in_handler", False):
                self.struct["impl"].append(("cancel-timer",))
            return None
        if k == "disposable" and method == "dispose":
            self.events.append(("dispose", o.name))
            self.disposed.append(o)
            if o.name.startswith("prev_"):
                self.struct["impl"].append(("dispose-prev",))
                if self.harness is not None and getattr(self.harness, "in_handler", False):
                    # releasing a subscription runs foreign code (dispose actions, finally_action, ...) that may call back into
                    # the operator: its state has to be consistent at this call-out too
                    self.dsnaps["impl"].append(self.harness.capture_impl())
            elif o.name.startswith("sub:") and self.harness is not None and getattr(self.harness, "in_handler", False):
                srcname = o.name.split(":")[1]
                if srcname in self.harness.c.sources and len(self.harness.c.sources) > 1:
                    self.struct["impl"].append(("dispose-src", list(self.harness.c.sources).index(srcname)))
            return None
        if k == "logger":
            return None
        return super().call(it, o, method, args, kwargs)

    def lift(self, it, v):
        """payload -> Val term; record-like repo objects are lifted structurally"""
        if isinstance(v, Obj) and v.cls.name in ("OnNext", "OnError", "OnCompleted", "Timestamp", "TimeInterval"):
            f = z3.Function(f"rec_{v.cls.name}", smt.Val, smt.Val)
            inner = v.fields.get("value", v.fields.get("exception", None))
            if v.cls.name in ("Timestamp", "TimeInterval"):
                g = z3.Function(f"rec2_{v.cls.name}", smt.Val, smt.Val, smt.Val)
                second = v.fields.get("timestamp", v.fields.get("interval"))
                return g(self.lift(it, v.fields.get("value")), it.to_val(second))
            return f(self.lift(it, inner))
        if isinstance(v, tuple):
            return it.to_val(tuple(ValSV(self.lift(it, x)) for x in v))
        if isinstance(v, Obj) and any(getattr(k, "is_exc", False) for k in it.mro(v.cls)):
            f = z3.Function(f"exc_{v.cls.name}", smt.Val, smt.Val)
            return f(it.to_val(tuple(ValSV(self.lift(it, x)) for x in v.fields.get("args", ()))))
        return it.to_val(v)

    def current_thread(self, it):
        return Opaque("thread", "T0")

    def iterate(self, it, o):
        raise Unsupported(f"iterate opaque {o}")


# ---------------------------------------------------------------------------


from .contract import OpContract  # noqa: E402,F401


SPEC_HELPERS = {}

#: abstract maps from keys to subjects (group_by_until's writers): the value of a key that is not in the map
ABSENT = z3.Const("ABSENT", smt.Val)
IS_SUBJ = z3.Function("is_subject", smt.Val, z3.BoolSort())
SEQ_WITHOUT = z3.Function("seq_without", smt.SeqVal, smt.Val, smt.SeqVal)
SEQ_REPLACE = z3.Function("seq_replace", smt.SeqVal, smt.Val, smt.Val, smt.SeqVal)
SHARED = z3.Function("shared_face", smt.Val, smt.Val, z3.BoolSort(), smt.Val)
#: `reactivex.never()` through its contract (srcfac.py: subscribing to it calls nothing, ever): the sequence that never notifies
NEVER = z3.Const("never_observable", smt.Val)
#: `reactivex.throw(e)` through its contract (srcfac.py: one on_error(e), scheduled): the sequence that fails with e
THROW = z3.Function("throw_observable", smt.Val, smt.Val)


def shared_face(it, key, subject, shares):
    """the observable handed downstream for a window / group: (key, underlying subject, whether subscribing to it takes a
    share of the operator's ref-counted subscription).  add_ref and GroupedObservable are used through this contract; their
    own bodies are verified against it in the grouping unit."""
    sh = shares if isinstance(shares, bool) else it.truth(shares, "shares the subscription")
    t = SHARED(it.to_val(key), it.to_val(subject), z3.BoolVal(bool(sh)))
    return Opaque("shared", "face", term=t, key=key, subject=subject)


def _helper(name):
    def deco(f):
        SPEC_HELPERS[name] = Native(name, f)
        return f
    return deco


@_helper("truthy")
def _h_truthy(it, args, kw):
    t = it.truth_term(args[0])
    return t if isinstance(t, bool) else BoolSV(t)


@_helper("implies")
def _h_implies(it, args, kw):
    a, b = it.truth_term(args[0]), it.truth_term(args[1])
    return BoolSV(z3.Implies(z3.BoolVal(a) if isinstance(a, bool) else a, z3.BoolVal(b) if isinstance(b, bool) else b))


@_helper("is_none")
def _h_is_none(it, args, kw):
    v = args[0]
    if v is None:
        return True
    if isinstance(v, SV) and v.kind == "val":
        return BoolSV(v.t == smt.NONE)
    return False


@_helper("contains")
def _h_contains(it, args, kw):
    r = natives.contains(it, args[0], args[1])
    return r if isinstance(r, bool) else BoolSV(r)


@_helper("same")
def _h_same(it, args, kw):
    """identity/equality of terms (not py_eq)"""
    a, b = args
    if isinstance(a, Opaque) and a.kind == "refmap" or isinstance(b, Opaque) and b.kind == "refmap":
        def mv(v):
            if isinstance(v, Opaque) and v.kind == "refmap":
                return v.attrs["m"], v.attrs["vals"]
            if isinstance(v, DictObj) and not v.symbolic and not v.d:
                return z3.K(smt.Val, ABSENT), z3.Empty(smt.SeqVal)
            raise Unsupported("same(): an abstract map against something else")
        (ma, va), (mb, vb) = mv(a), mv(b)
        return BoolSV(z3.And(ma == mb, va == vb))
    if isinstance(a, (SetObj, DictObj)) and type(a) is type(b):
        # sets / dicts are compared by their insertion histories (equal histories: equal contents, and they stay so)
        def hist(v):
            if v.symbolic:
                return v.log
            if v.hist is None:
                raise Unsupported("set/dict with an unknown history in a contract")
            return it.seq_term(ListObj(list(v.hist)))
        return BoolSV(hist(a) == hist(b))
    if isinstance(a, (ListObj,)) or isinstance(b, ListObj) or (isinstance(a, SV) and a.kind == "seq"):
        ta, tb = natives.seq_pair(it, a, b)
        return BoolSV(ta == tb)
    return BoolSV(it.to_val(a) == it.to_val(b))


def _seqfun_helper(name, elem):
    def h(it, args, kw):
        q, now, d = args
        t = natives.seq_of(it, q)
        if t is None:
            t = z3.Empty(smt.SeqVal)
        r = natives.seqfun_apply(it, name, t, it.to_int(now), it.to_int(d))
        return ListObj(term=r, elem=elem)
    return h


def _duefun_helper(name):
    def h(it, args, kw):
        q, now = args
        t = natives.seq_of(it, q)
        if t is None:
            t = z3.Empty(smt.SeqVal)
        r = natives.duefun_apply(it, name, t, it.to_int(now))
        if name == "due_prefix_completes":
            return BoolSV(r)
        return ListObj(term=r, elem="val" if name == "due_prefix_vals" else "tupnotif")
    return h


for _n in ("due_prefix_vals", "due_prefix_completes", "drop_due_prefix"):
    _helper(_n)(_duefun_helper(_n))


def _cmp_or_default(it, cmp):
    return it.module_get("reactivex.internal.basic", "default_comparer") if cmp is None else cmp


@_helper("match_code")
def _h_match_code(it, args, kw):
    """match_code(keys, key, comparer): 0 no stored key matches, 1 one does, 2 the comparer raises first (natives.match_apply)"""
    seq, key, cmp = args
    cmp = _cmp_or_default(it, cmp)
    t = natives.seq_of(it, seq)
    if t is None:
        return 0
    M, _ME = natives.match_apply(it, cmp, t, it.to_val(key))
    return IntSV(M(t, it.to_val(key)))


@_helper("match_exc")
def _h_match_exc(it, args, kw):
    seq, key, cmp = args
    cmp = _cmp_or_default(it, cmp)
    t = natives.seq_of(it, seq)
    if t is None:
        return None
    _M, ME = natives.match_apply(it, cmp, t, it.to_val(key))
    return SV(ME(t, it.to_val(key)), "val", tag="exc")


@_helper("seen_match")
def _h_seen_match(it, args, kw):
    """spec primitive: does the comparer accept one of the stored keys (asked in order; it may raise on the way)?"""
    seq, key, cmp = args
    cmp = _cmp_or_default(it, cmp)
    t = natives.seq_of(it, seq)
    if t is None:
        return False
    k = it.to_val(key)
    M, ME = natives.match_apply(it, cmp, t, k)
    if it.ctx.branch(M(t, k) == 2, "the comparer raises while the stored keys are scanned"):
        raise PyExc(SV(ME(t, k), "val", tag="exc"))
    it.ctx.assume(z3.Or(M(t, k) == 0, M(t, k) == 1))
    return BoolSV(M(t, k) == 1)


def _duepred_helper(name):
    def h(it, args, kw):
        t = natives.seq_of(it, args[0])
        if t is None:
            return True
        return BoolSV(natives.duepred_apply(it, name, t))
    return h


for _n in ("all_elements", "completion_last"):
    _helper(_n)(_duepred_helper(_n))


# functions of a queue of time-stamped records (see natives.SEQFUNS)
_helper("drop_aged_prefix")(_seqfun_helper("drop_aged_prefix", "tup:int,val"))
_helper("aged_prefix_vals")(_seqfun_helper("aged_prefix_vals", "val"))
_helper("young_vals")(_seqfun_helper("young_vals", "val"))


@_helper("maps_to")
def _h_maps_to(it, args, kw):
    """maps_to(map, key, subject): the abstract map holds exactly this subject for the key"""
    mp, key, ref = args
    if isinstance(key, int) or (isinstance(key, SV) and key.kind == "int"):
        it.ctx.assume(smt.val2int(it.to_val(key)) == it.to_int(key))  # distinct ints are distinct keys
    if isinstance(mp, Opaque) and mp.kind == "refmap":
        return BoolSV(z3.Select(mp.attrs["m"], it.to_val(key)) == it.to_val(ref))
    if isinstance(mp, DictObj) and not mp.symbolic and not mp.d:
        return False
    raise Unsupported("maps_to on a concrete map")


@_helper("has_key")
def _h_has_key(it, args, kw):
    mp, key = args
    if isinstance(key, int) or (isinstance(key, SV) and key.kind == "int"):
        it.ctx.assume(smt.val2int(it.to_val(key)) == it.to_int(key))
    if isinstance(mp, Opaque) and mp.kind == "refmap":
        return BoolSV(z3.Select(mp.attrs["m"], it.to_val(key)) != ABSENT)
    if isinstance(mp, DictObj) and not mp.symbolic and not mp.d:
        return False
    raise Unsupported("has_key on a concrete map")


@_helper("field")
def _h_field(it, args, kw):
    """field(o, name, default): o.name when o is a record, else the default (total: usable under a false premise)"""
    o, name, default = args
    if isinstance(o, Obj) and name in o.fields:
        return o.fields[name]
    return default


def fresh_exc(ctx, name):
    """an arbitrary exception object: not None (A-exc); its truth value is arbitrary (a class may define __bool__ / __len__)"""
    t = ctx.fresh(name, "val").t
    ctx.assume(t != smt.NONE)
    return SV(t, "val", tag="exc")


def make_param(it, ctx, name, kind):
    if kind == "int":
        return ctx.fresh(name, "int")
    if kind == "nat":
        v = ctx.fresh(name, "int")
        ctx.assume(v.t >= 0)
        return v
    if kind == "bool":
        return ctx.fresh(name, "bool")
    if kind == "pybool":
        return ctx.choose(2, name) == 0
    if kind == "val":
        return ctx.fresh(name, "val")
    if kind == "datetime":
        v = ctx.fresh(name, "int")
        ctx.assume(v.t >= 0)
        return SV(v.t, "int", tag="datetime")
    if kind == "callback":
        return Opaque("callback", name)
    if kind in ("callback:source", "callback:subject"):
        # a user function that hands back an observable / a subject
        return Opaque("callback", name, returns=kind.split(":")[1])
    if kind == "pred":
        return Opaque("callback", name)
    if kind.startswith("notset:"):
        # an optional argument whose "absent" marker is the NotSet sentinel class
        if ctx.choose(2, f"{name}_given") == 0:
            return make_param(it, ctx, name, kind[7:])
        return it.module_get("reactivex.internal.utils", "NotSet")
    if kind.startswith("opt:"):
        if ctx.choose(2, f"{name}_given") == 0:
            return make_param(it, ctx, name, kind[4:])
        return None
    if kind.startswith("const:"):
        return eval(kind[6:], {})
    raise Unsupported(f"param kind {kind}")


def havoc_cell(it, ctx, env_or_obj, name, kind, get, set_):
    cur = get(name)
    if kind in ("int", "bool", "val"):
        set_(name, ctx.fresh(name, kind))
    elif kind == "nat":
        v = ctx.fresh(name, "int")
        ctx.assume(v.t >= 0)
        set_(name, v)
    elif kind.startswith("seq"):
        elem = kind[4:-1] if kind.startswith("seq[") else "val"
        t = ctx.fresh(name, "seq").t
        if isinstance(cur, ListObj):
            cur.items, cur.term, cur.elem = None, t, elem
        else:
            set_(name, ListObj(term=t, elem=elem))
    elif kind.startswith("cell:"):
        # one-element list idiom  x = [v]
        if not (isinstance(cur, ListObj) and not cur.symbolic and len(cur.items) == 1):
            raise Unsupported(f"cell {name} is not a one-element list")
        sub = kind[5:]
        if sub.startswith("opt"):
            raise Unsupported("opt cell")
        if sub.startswith("choice:"):
            opts = eval(sub[len("choice:"):], {})
            cur.items[0] = opts[ctx.choose(len(opts), f"{name}_choice")]
        else:
            cur.items[0] = ctx.fresh(name, sub)
    elif kind.startswith("optval"):
        # None or a value: Val with NONE allowed is exactly Val
        set_(name, ctx.fresh(name, "val"))
    elif kind.startswith("list:"):
        # a list of fixed (concrete) length whose items are arbitrary: [False] * n, [None] * n, [[] for _ in range(n)]
        if not (isinstance(cur, ListObj) and not cur.symbolic):
            raise Unsupported(f"cell {name} is not a fixed-length list")
        sub = kind[5:]
        for i in range(len(cur.items)):
            if sub == "seq":
                t = ctx.fresh(f"{name}_{i}", "seq").t
                if isinstance(cur.items[i], ListObj):
                    cur.items[i].items, cur.items[i].term, cur.items[i].elem = None, t, "val"
                else:
                    cur.items[i] = ListObj(term=t)
            elif sub == "sentinel-or-val":
                # either still the initial (sentinel) object or a user value
                if ctx.choose(2, f"{name}_{i}_is_sentinel") == 1:
                    cur.items[i] = ctx.fresh(f"{name}_{i}", "val")
            else:
                cur.items[i] = ctx.fresh(f"{name}_{i}", sub)
    elif kind.startswith("cell:choice:"):
        opts = eval(kind[len("cell:choice:"):], {})
        cur.items[0] = opts[ctx.choose(len(opts), f"{name}_choice")]
    elif kind.startswith("obj:"):
        # obj:<module>:<Class>(field=kind,...): an instance of a repo class whose fields are arbitrary (type invariant)
        head, rest = kind[4:].split("(", 1)
        mod, cname = head.split(":")
        cls = it.module_get(mod, cname)
        o = Obj(cls)
        for part in rest.rstrip(")").split(","):
            fname, fkind = part.strip().split("=")
            v = ctx.fresh(f"{name}_{fname}", "int" if fkind == "nat" else fkind)
            if fkind == "nat":
                ctx.assume(v.t >= 0)
            o.fields[fname] = v
        set_(name, o)
    elif kind in ("setlog", "dictlog"):
        # a set / dict known by its insertion history (its content is a function of that history); in place:
        # bound methods of the object (s.add handed out as a handler) must keep seeing it
        if isinstance(cur, (SetObj, DictObj)):
            cur.log, cur.symbolic, cur.hist = ctx.fresh(name, "seq").t, True, None
        else:
            set_(name, (SetObj if kind == "setlog" else DictObj)(None, log=ctx.fresh(name, "seq").t))
    elif kind == "opttime":
        # None, or an instant (A-time: instants are positive tick counts, so they are truthy like a datetime)
        if ctx.choose(2, f"{name}_is_none") == 0:
            set_(name, None)
        else:
            v = ctx.fresh(name, "int")
            ctx.assume(v.t >= 1)
            set_(name, v)
    elif kind == "ref:subject":
        # a variable holding the current window: some subject
        t = ctx.fresh(name, "val").t
        ctx.assume(z3.And(t != smt.NONE, t != ABSENT, IS_SUBJ(t)))
        it.world.known(t)
        set_(name, Opaque("subject", it.ctx.fresh_name(name), term=t))
    elif kind == "refmap":
        o = it.world.make_refmap(it, name)
        set_(name, o)
    elif kind == "valmap":
        set_(name, it.world.make_valmap(it, name))
    elif kind == "optdisp":
        # nothing yet, or the disposable of an earlier (previous) inner subscription
        if ctx.choose(2, f"{name}_is_none") == 0:
            set_(name, None)
        else:
            set_(name, Opaque("disposable", f"prev_{name}"))
    else:
        raise Unsupported(f"cell kind {kind}")


def resolve_path(it, env, dotted):
    """'hashset.set' -> (getter, setter) relative to env"""
    parts = dotted.split(".")
    if len(parts) == 1:
        e = env.lookup_env(parts[0])
        if e is None:
            raise Unsupported(f"cell {dotted} not found in subscribe scope (drift)")
        return (lambda n: e.vars[n]), (lambda n, v: e.vars.__setitem__(n, v)), parts[0]
    e = env.lookup_env(parts[0])
    if e is None:
        raise Unsupported(f"cell {dotted} not found (drift)")
    o = e.vars[parts[0]]
    for p in parts[1:-1]:
        o = it.get_attr(o, p)
    if not isinstance(o, Obj):
        raise Unsupported(f"cell {dotted}: not an object")
    return (lambda n: o.fields[n]), (lambda n, v: o.fields.__setitem__(n, v)), parts[-1]


def _same_identity(a, b):
    if b is None or a[0] != b[0]:
        return False
    for x, y in zip(a[1:], b[1:]):
        if isinstance(x, z3.ExprRef) and isinstance(y, z3.ExprRef):
            if not z3.eq(x, y):
                return False
        elif isinstance(x, tuple) or isinstance(y, tuple):
            if x != y:
                return False
        elif isinstance(x, SV) and isinstance(y, SV):
            if not z3.eq(x.t, y.t):
                return False
        elif x is not y and not (isinstance(x, (int, bool, str, type(None))) and x == y):
            return False
    return True


class OpHarness:
    def __init__(self, contract: OpContract, loader: Loader | None = None, callees=()):
        self.c = contract
        self.loader = loader or Loader()
        self.results: list[Result] = []
        self.unsupported = None
        self.functions = {}
        #: contracts of other operators: inside this operator they are used by contract, not by body
        self.callees = {}
        for x in callees:
            self.callees.setdefault((modname_of(x.file), x.func), x)
        self.used_callees = set()
        #: K7 (C43): also emit lock-set obligations for every downstream call
        self.lockset = False
        self.lock_sets = []
        self.cur_source = None

    def guard_now(self, it):
        """value of the exclusive guard of the source whose handler is running (contracts with `exclusive`)"""
        g = getattr(self.c, "exclusive", None)
        if not (self.lockset and g and self.cur_source in g and self.cur_cells_env is not None):
            return None
        it.ctx.spec += 1
        try:
            t = it.truth_term(self.eval_src(it, g[self.cur_source], self.inv_env(it, self.cur_cells_env, self.cur_spec)))
        finally:
            it.ctx.spec -= 1
        return t

    def pick_cells_env(self, hs):
        """the closure scope that holds the operator's cells: a handler's defining scope, or - for a handler
        wrapped by a decorator (synchronized) - the wrapped function's scope"""
        cands = []
        hs = list(hs)
        # handlers that reach the operator through callee stages (source.pipe(materialize(), ...).subscribe(on_next)):
        # the operator's own closures are the consumers of the last stage
        for (_cs, _cc, _st, out) in getattr(self.w, "cspecs", []):
            hs.extend(h for h in out.attrs.get("handlers", ()) if isinstance(h, Closure))
        for h in hs:
            if isinstance(h, Closure) and h.env is not None:
                cands.append(h.env)
                for v in list(h.env.vars.values()):
                    if isinstance(v, Closure) and v.env is not None:
                        cands.append(v.env)
        roots = [n.split(".")[0].split("[")[0] for n in self.c.cells]
        for e in cands:
            if all(e.lookup_env(r) is not None for r in roots):
                return e
        return cands[0] if cands else None

    def all_guards(self, it):
        """current values of every source's exclusive guard"""
        g = getattr(self.c, "exclusive", None)
        if not (self.lockset and g and self.cur_cells_env is not None):
            return {}
        out = {}
        it.ctx.spec += 1
        try:
            for src, expr in g.items():
                out[src] = it.truth_term(self.eval_src(it, expr, self.inv_env(it, self.cur_cells_env, self.cur_spec)))
        finally:
            it.ctx.spec -= 1
        return out

    def guard_obligations(self, it, ctx, uid, old):
        """K7 exclusive guards: pairwise exclusive in every state, and stable (once a source holds its guard it
        keeps it across every handler step of every source) - so only one source ever passes its guard"""
        new = self.all_guards(it)
        names = sorted(old)
        for i, a in enumerate(names):
            for b in names[i + 1:]:
                self.record(ctx, f"{uid}/lockset/guards-exclusive[{a},{b}]", z3.Not(z3.And(_bt(new[a]), _bt(new[b]))), kind="lockset")
            self.record(ctx, f"{uid}/lockset/guard-stable[{a}]", z3.Implies(_bt(old[a]), _bt(new[a])), kind="lockset")

    def on_cell_write(self, it, lst, op, args):
        """K7: a mutation of a list that is (part of) a state cell of the operator, inside a handler"""
        if it.ctx.spec or not getattr(self, "in_handler", False) or self.cur_cells_env is None:
            return
        for name in self.c.cells:
            e = self.cur_cells_env.lookup_env(name)
            if e is None:
                continue
            v = e.vars[name]
            hit = v is lst or (isinstance(v, ListObj) and not v.symbolic and any(x is lst for x in v.items))
            if hit:
                self.cell_writes.append((name, op, [l.name for l in it.locks_held]))
                return

    def lockset_obligations(self, it, ctx, uid):
        """K7: every call on the downstream observer is made under the operator's lock, or under an exclusive guard"""
        for k, (name, op, locks) in enumerate(getattr(self, "cell_writes", [])):
            if locks:
                self.lock_sets.append(set(locks))
                self.record(ctx, f"{uid}/lockset/{name}.{op}#{k}/state-written-under-the-lock", True, kind="lockset",
                            detail=f"locks held: {locks}")
            else:
                self.fail(ctx, f"{uid}/lockset/{name}.{op}#{k}/state-written-under-the-lock",
                          f"the shared state cell `{name}` is mutated ({op}) while no lock is held: a handler of another source "
                          f"running under the lock can read or write it at the same time", kind="lockset")
        for k, (method, locks, guard) in enumerate(self.w.lock_calls):
            if locks:
                self.lock_sets.append(set(locks))
                self.record(ctx, f"{uid}/lockset/{method}#{k}/called-under-the-lock", True, kind="lockset",
                            detail=f"locks held: {locks}")
            elif guard is not None:
                self.record(ctx, f"{uid}/lockset/{method}#{k}/called-under-its-exclusive-guard", guard, kind="lockset",
                            detail="no lock held: admitted only because this source's exclusive guard holds (at most one source can hold its guard)")
            else:
                self.fail(ctx, f"{uid}/lockset/{method}#{k}/called-under-the-lock",
                          f"observer.{method} is called while no lock is held: two sources emitting from different threads "
                          f"can be inside the downstream observer at the same time", kind="lockset")

    def callee_hook(self, it, f, args, kwargs):
        """a contracted operator applied inside the operator under verification is replaced by its contract"""
        if getattr(self.c, "subjects", False):
            if isinstance(f, ClassRef) and f.name == "Subject" and not args and not kwargs:
                return self.w.new_subject(it)
            if isinstance(f, ClassRef) and f.name == "GroupedObservable":
                a = list(args) + [kwargs.get("merged_disposable")] * (3 - len(args))
                if a[2] is not None:
                    self.share_objs.append(a[2])
                return shared_face(it, a[0], a[1], a[2] is not None)
            if isinstance(f, Closure) and f.qualname == "add_ref" and f.module is not None and f.module.name == "reactivex.internal.utils":
                self.share_objs.append(args[1])
                return shared_face(it, None, args[0], True)
        if not (isinstance(f, Closure) and f.module is not None and hasattr(f.node, "name")):
            return NOTSET
        if f.qualname in ("from_future", "from_future_") and f.module.name in ("reactivex", "reactivex.observable.fromfuture") \
                and len(args) == 1 and not kwargs and isinstance(args[0], Opaque) and args[0].kind == "future" and ("term" in args[0].attrs or "as_source" in args[0].attrs):
            # callee contract (bridge.py): the observable of that future - subscribing to it is subscribing to this inner / this operand
            if "as_source" in args[0].attrs:
                return args[0].attrs["as_source"]
            o = self.w.new_source(it, f"from_future({args[0].name})")
            o.attrs["term"] = args[0].attrs["term"]
            return o
        if f.qualname in ("never", "never_") and f.module.name in ("reactivex", "reactivex.observable.never") and not args and not kwargs:
            # callee contract (srcfac.py): the sequence that never notifies; all of them are the same sequence to a subscriber
            o = self.w.new_source(it, "never()")
            it.ctx.assume(z3.And(NEVER != smt.NONE, NEVER != ABSENT))
            o.attrs["term"] = NEVER
            return o
        if f.qualname in ("throw", "throw_") and f.module.name in ("reactivex", "reactivex.observable.throw") and len(args) == 1 and not kwargs \
                and isinstance(args[0], Obj):
            # callee contract (srcfac.py): the sequence that fails with that exception; which exception it is identifies it
            o = self.w.new_source(it, "throw()")
            t = THROW(self.w.lift(it, args[0]))
            it.ctx.assume(z3.And(t != smt.NONE, t != ABSENT))
            o.attrs["term"] = t
            return o
        c = self.callees.get((f.module.name, f.qualname))
        if c is None:
            return NOTSET
        if (c.file, c.func) == (self.c.file, self.c.func) and not self.entered:
            self.entered = True
            return NOTSET
        env = Env(None, f.module, f)
        it.bind_args(f, args, kwargs, env)
        a = f.node.args
        first = (a.posonlyargs + a.args)[0].arg if (a.posonlyargs + a.args) else None
        self.used_callees.add(c.uid)
        if first in c.sources:
            params = {n: env.vars[n] for n in c.params if n in env.vars}
            return self.w.make_specobs(it, c, params, env.vars[first])
        # two-step factory: f(args) returns the operator, applied to the source later
        params = {n: env.vars[n] for n in c.params if n in env.vars}
        return Native(f"{c.name}-operator", lambda it_, a2, k2: self.w.make_specobs(it, c, params, a2[0]))

    # -- building blocks (each executed inside one path) -----------------------
    def setup(self, ctx):
        c = self.c
        w = OpWorld()
        w.harness = self
        self.entered = False
        self.in_handler = False
        self.share_objs = []
        self.cur_spec = None
        self.cur_cells_env = None
        it = Interp(self.loader, ctx, w)
        it.call_hook = self.callee_hook
        if self.lockset:
            it.list_hook = self.on_cell_write
        it.loop_contracts = dict(c.loops)
        it.on_loop = self.on_loop
        modname = modname_of(c.file)
        env = Env(None, self.loader.load(modname))
        params = {}
        for n, k in c.params.items():
            params[n] = make_param(it, ctx, n, k)
        self.src_objs = {}
        piped = self.piped_source()
        for sname in c.sources:
            o = self.src_objs[sname] = w.new_source(it, sname)
            if sname != piped and self.operand_may_be_a_future(sname) and ctx.choose(2, f"{sname} is an observable / a future"):
                # an operand that is handed over as an ARGUMENT may be a future where the operator asks `is_future`: `from_future` of it (callee
                # contract, bridge.py) is then the operand the property speaks of
                env.vars[sname] = Opaque("future", sname, as_source=o)
            else:
                env.vars[sname] = o
        env.vars.update(params)
        env.vars["observer"] = Opaque("observer", "observer")
        env.vars["scheduler"] = None if c.scheduler is None else Opaque("scheduler", "scheduler")
        for n, f in SPEC_HELPERS.items():
            env.vars[n] = f
        if c.requires:
            ctx.spec += 1
            r = it.truth_term(self.eval_src(it, c.requires, env))
            ctx.spec -= 1
            ctx.assume(r if not isinstance(r, bool) else z3.BoolVal(r))
        self.it, self.w, self.env, self.pvals = it, w, env, params
        return it, w, env, params

    def eval_src(self, it, src, env):
        import ast

        return it.eval(ast.parse(src, mode="eval").body, env)

    def make_spec(self, it, ctx, params):
        modname, clsname = self.c.spec.split(":")
        cls = it.module_get(modname, clsname)
        # the recursive sequence functions a spec module defines natively are the uninterpreted functions with their
        # defining equations on the symbolic side
        menv = it.module_env(modname)
        for n in list(natives.SEQFUNS) + list(natives.DUEFUNS) + ["seen_match"]:
            if n in menv.vars or n in it.loader.load(modname).bindings():
                menv.vars[n] = SPEC_HELPERS[n]
        s = Obj(cls)
        for n, v in params.items():
            s.fields[n] = v
        for sname in self.c.sources:
            s.fields[sname] = self.src_objs[sname]
        return s

    def make_element(self, it, ctx):
        kind = self.c.elem
        if kind == "val":
            return ctx.fresh("x", "val")
        if kind == "source":
            # the elements are themselves observables (merge_all, switch_latest, ...)
            name = ctx.fresh_name("inner")
            t = ctx.fresh(name + "_ref", "val").t
            ctx.assume(t != smt.NONE)
            if self.elements_may_be_futures(it) and ctx.choose(2, "the inner is an observable / a future"):
                # these operators accept futures where they accept observables: `from_future(f)` (under its own contract in bridge.py) is
                # then the inner sequence, and everything the property says about "the inner" holds for it
                return Opaque("future", name, term=t)
            o = self.w.new_source(it, name)
            o.attrs["term"] = t
            return o
        if kind == "notification":
            k = ctx.choose(3, "notification_kind")
            mod = "reactivex.notification"
            if k == 0:
                return it.call(it.module_get(mod, "OnNext"), [ctx.fresh("x", "val")])
            if k == 1:
                return it.call(it.module_get(mod, "OnError"), [fresh_exc(ctx, "nerr")])
            return it.call(it.module_get(mod, "OnCompleted"), [])
        raise Unsupported(f"element kind {kind}")

    def piped_source(self):
        """the operand the operator is APPLIED to (`op(args)(source)`): an observable by construction; None for an n-ary function"""
        try:
            e = ast.parse(self.c.call, mode="eval").body
        except SyntaxError:
            return None
        if isinstance(e, ast.Call) and isinstance(e.func, ast.Call) and len(e.args) == 1 and isinstance(e.args[0], ast.Name):
            return e.args[0].id
        return None

    def operand_may_be_a_future(self, sname):
        """does the text of the operator ask `is_future(<this operand>)` - by its name, or of an element of the `*sources` it was passed in?"""
        node = self.loader.find(self.c.file, self.c.func)
        asked = {n.args[0].id for n in ast.walk(node) if isinstance(n, ast.Call) and isinstance(n.func, ast.Name) and n.func.id == "is_future"
                 and len(n.args) == 1 and isinstance(n.args[0], ast.Name)}
        if sname in asked:
            return True
        va = node.args.vararg.arg if isinstance(node, (ast.FunctionDef, ast.AsyncFunctionDef)) and node.args.vararg else None
        if va is None:
            return False

        def assigns():
            for n in ast.walk(node):
                tgt = n.targets[0] if isinstance(n, ast.Assign) and len(n.targets) == 1 else (n.target if isinstance(n, ast.AnnAssign) else None)
                if isinstance(tgt, ast.Name) and getattr(n, "value", None) is not None:
                    yield tgt.id, n.value
        def is_pack(v):
            if isinstance(v, ast.Call) and isinstance(v.func, ast.Name) and v.func.id in ("list", "tuple") and len(v.args) == 1 and not v.keywords:
                v = v.args[0]
            return isinstance(v, ast.Name) and v.id == va
        packs = {va} | {t for t, v in assigns() if is_pack(v)}  # `sources = args` / `sources = list(args)`
        return any(t in asked and isinstance(v, ast.Subscript) and isinstance(v.value, ast.Name) and v.value.id in packs for t, v in assigns())

    def elements_may_be_futures(self, it):
        """does the text of the operator ask `is_future` anywhere?  (read from the real source on every run)"""
        r = getattr(self, "_futures", None)
        if r is None:
            node = self.loader.find(self.c.file, self.c.func)
            r = self._futures = any(isinstance(n, ast.Name) and n.id == "is_future" for n in ast.walk(node))
        return r

    def spec_call(self, it, s, name, args):
        m = it.class_lookup(s.cls, name)
        if m is None:
            return NOTSET
        prev = getattr(it.world, "side", "impl")
        it.world.side = "spec"  # nullary user functions are counted per side (k-th call of the real code = k-th of the spec)
        try:
            return it.call(BoundMethod(s, m), args, {})
        finally:
            it.world.side = prev

    def spec_done(self, it, ctx, s):
        m = it.class_lookup(s.cls, "done")
        if m is None:
            return False
        ctx.spec += 1
        try:
            r = it.truth_term(it.call(BoundMethod(s, m), [], {}))
        finally:
            ctx.spec -= 1
        return r

    # -- obligations ----------------------------------------------------------------
    def record(self, ctx, oid, goal, kind="post", detail=""):
        t0 = time.time()
        if isinstance(goal, bool):
            goal = z3.BoolVal(goal)
        v, m, b = smt.prove(ctx.pc, goal)
        r = Result(oid, v, b, smt.model_to_dict(m), list(ctx.branch_log), detail, time.time() - t0, kind)
        ctx.results.append(r)
        return v == "proved"

    def fail(self, ctx, oid, detail, kind="post"):
        """a mismatch that holds on the whole (feasible) path: refuted with a model of the path condition"""
        v, m, b = smt.check_sat(ctx.pc)
        if v == "unsat":
            raise PathEnd()
        verdict = "refuted" if v == "sat" else "unknown"
        ctx.results.append(Result(oid, verdict, b, smt.model_to_dict(m), list(ctx.branch_log), detail, 0.0, kind))

    def compare_down_calls(self, it, ctx, oid):
        """re-entrancy discipline: at the k-th element handed to the subscriber the operator's state is already the one
        the spec has at its k-th emission (the subscriber may call back into the operator from inside on_next)"""
        w = self.w
        si, ss = w.down_snaps["impl"], w.down_snaps["spec"]
        for k in range(min(len(si), len(ss))):
            t = self.inv_at(it, ctx, si[k], ss[k])
            self.record(ctx, oid + f"/emission#{k}/inv-holds-when-emitting", t, kind="inv",
                        detail="the subscriber may re-enter the operator synchronously from inside on_next")

    def scheduler_handed_on(self, ctx, oid):
        misses, self.sched_misses = getattr(self, "sched_misses", []), []
        users = list(getattr(self.w, "clock_users", []))
        if users:
            distinct = []
            for what, sch in users:
                if not any(sch is d for _w, d in distinct):
                    distinct.append((what, sch))
            self.record(ctx, oid + "/one-subscription-one-clock (clock readings, timers and clock-reading stages are on the same scheduler)", len(distinct) <= 1, kind="frame",
                        detail="; ".join(f"{what} {getattr(sch, 'name', sch)!s}" for what, sch in distinct))
            own = self.env.vars.get("scheduler") if getattr(self, "env", None) is not None else None
            if isinstance(own, Opaque) and own.kind == "scheduler":
                # the scheduler handed to the OPERATOR is the one it keeps time on (the subscribe-time scheduler is only the fallback)
                others = [(what, sch) for what, sch in distinct if sch is not own]
                self.record(ctx, oid + "/keeps-time-on-the-scheduler-the-operator-was-given", not others, kind="frame",
                            detail="; ".join(f"{what} {getattr(sch, 'name', sch)!s}" for what, sch in others))
        if getattr(self, "sub_sched", None) is None:
            return
        self.record(ctx, oid + "/hands-the-subscribe-time-scheduler-on-to-every-source-it-subscribes", not misses, kind="frame",
                    detail=f"subscribed without `scheduler=<the scheduler this subscription was made with>`: {misses}")

    def compare_subscriptions(self, it, ctx, oid, n_before):
        """the inner sources the real code subscribed to during this step are exactly those the spec subscribes"""
        w = self.w
        self.scheduler_handed_on(ctx, oid)
        if self.share_objs and getattr(self, "disp", None) is not None:
            # every window / group handed downstream shares THE ref-counted disposable this subscription returned
            ok_share = all(x is self.disp and isinstance(x, Obj) and x.cls.name == "RefCountDisposable" for x in self.share_objs)
            self.record(ctx, oid + "/windows-share-the-ref-count-of-the-returned-subscription", ok_share, kind="frame",
                        detail="the observable handed downstream must take its share from the RefCountDisposable that subscribe returned")
            self.share_objs = []
        impl, spec = w.struct["impl"], w.struct["spec"]
        if [e[0] for e in impl] != [e[0] for e in spec]:
            self.fail(ctx, oid + "/inner-subscriptions/order",
                      f"real code: {[e[0] for e in impl]}, spec: {[e[0] for e in spec]} "
                      f"(sub = subscribes an inner source, dispose-prev = unsubscribes the previous inner, timer = sets a timer, "
                      f"cancel-timer = cancels a pending timer, to = notifies one window/group, each = notifies every open one, "
                      f"down = hands a notification to the subscriber)")
            return False
        ok = True
        for a, b in zip(impl, spec):
            if a[0] == "sub":
                ok &= self.record(ctx, oid + "/inner-subscriptions/same-source", a[1] == b[1])
            elif a[0] == "dispose-src":
                ok &= self.record(ctx, oid + "/unsubscribes-the-right-source", a[1] == b[1],
                                  detail=f"real code releases source #{a[1]}, spec #{b[1]}")
            elif a[0] == "sub-src":
                ok &= self.record(ctx, oid + "/subscribes-the-right-source-with-the-subscriber-itself", a[1] == b[1] and a[2] == b[2],
                                  detail=f"real code subscribes source #{a[1]} (subscriber handed over directly: {a[2]}), spec #{b[1]}")
            elif a[0] in ("to", "each"):
                what = "window/group" if a[0] == "to" else "every-open-window/group"
                if a[2] != b[2]:
                    self.fail(ctx, oid + f"/{what}/receives-the-same-notification", f"real code: {a[2]}, spec: {b[2]}")
                    ok = False
                    continue
                ok &= self.record(ctx, oid + f"/{what}/{a[2]}/goes-to-the-right-" + ("one" if a[0] == "to" else "ones-in-order"), a[1] == b[1],
                                  detail=f"real code: {z3.simplify(a[1])}, spec: {z3.simplify(b[1])}")
                if a[3] is not None or b[3] is not None:
                    ok &= self.record(ctx, oid + f"/{what}/{a[2]}/payload", (a[3] == b[3]) if (a[3] is not None and b[3] is not None) else False)
            elif a[0] == "to*":
                ok &= self.record(ctx, oid + "/window/receives-the-retained-elements-in-order", z3.And(a[1] == b[1], a[3] == b[3]) if a[2] == b[2] else False,
                                  detail=f"real code: {z3.simplify(a[3])} to {z3.simplify(a[1])}; spec: {z3.simplify(b[3])} to {z3.simplify(b[1])}")
            elif a[0] == "down":
                if a[1] != b[1]:
                    self.fail(ctx, oid + "/call-outs/order", f"real code hands {a[1]} downstream where the spec hands {b[1]}")
                    ok = False
            elif a[0] == "timer":
                ok &= self.record(ctx, oid + "/timers/set-for-the-same-instant", a[1] == b[1],
                                  detail=f"real code: due {a[1]}, spec: due {b[1]}")
        # call-out discipline: a source may emit synchronously while it is being subscribed, so the coupling
        # invariant has to hold already at every such call-out (k-th of the real code with k-th of the spec)
        si, ss = w.snaps["impl"], w.snaps["spec"]
        for k in range(min(len(si), len(ss))):
            t = self.inv_at(it, ctx, si[k], ss[k])
            ok &= self.record(ctx, oid + f"/call-out#{k}/inv-holds-when-subscribing", t, kind="inv",
                              detail="the source being subscribed may call back synchronously: operator state must be consistent here")
        di, ds = getattr(w, "dsnaps", {"impl": [], "spec": []})["impl"], getattr(w, "dsnaps", {"impl": [], "spec": []})["spec"]
        if not oid.rsplit("/", 1)[-1].endswith("on_next") or not (self.c.families or self.c.elem == "source"):
            # (a terminal handler: the source sends nothing more, by its own grammar; an operator whose serial slots hold only timers:
            # cancelling a timer runs no foreign code)
            di = ds = []
        for k in range(min(len(di), len(ds))):
            t = self.inv_at(it, ctx, di[k], ds[k])
            ok &= self.record(ctx, oid + f"/release#{k}/inv-holds-when-unsubscribing-the-previous-inner", t, kind="inv",
                              detail="releasing a subscription runs foreign code that may push a new element into the operator: its state "
                                     "(counters, flags) must already be the state for the new inner")
        return ok

    def after_termination(self, it, ctx, uid, cells_env, s):
        """contracts with a terminated-state invariant (`inv_done`): a step taken after the operator terminated does
        nothing that is visible outside it - it subscribes nothing, sets no timer - and keeps that invariant"""
        c = self.c
        if not getattr(c, "inv_done", None):
            return
        impl = [e for e in self.w.struct["impl"] if e[0] in ("sub", "sub-src", "timer")]
        if getattr(c, "done_quiet", True):
            self.record(ctx, uid + "/after-termination/nothing-subscribed-or-scheduled", not impl, kind="frame",
                        detail=f"after the sequence terminated the real code still does: {[e[0] for e in impl]} "
                               f"(sub / sub-src = subscribes a source, timer = sets a timer)")
        invd = self.check_inv(it, ctx, uid, cells_env, s, base=c.inv_done)
        self.record(ctx, uid + "/after-termination/terminated-invariant-preserved", invd, kind="inv")

    def ghost_eval(self, it, cells_env, s, src, k):
        env = self.inv_env(it, cells_env, s)
        env.vars["k"] = k
        it.ctx.spec += 1
        try:
            return it.truth_term(self.eval_src(it, src, env))
        finally:
            it.ctx.spec -= 1

    def ghost_pre(self, it, ctx, cells_env, s):
        """timer families with a ghost invariant (`ghost_inv`, over the spec state and the timer's identity k only): it is
        established when the timer is created and preserved by every step, for every timer still pending (arbitrary k)"""
        pre = []
        for name, T in list(getattr(self.c, "timers", {}).items()) + list(getattr(self.c, "families", {}).items()):
            if T.get("ghost_inv"):
                k = ctx.fresh("k_pending", "int")
                pre.append((name, k, self.ghost_eval(it, cells_env, s, T["ghost_inv"], k)))
        return pre

    def member_pre(self, it, ctx, cells_env, s, running=None, own_env=None):
        """rely of the handler families: an ARBITRARY OTHER live member (ghost closure locals of the kinds the family declares in
        `locals`) satisfies its member invariant before the step; `member_post` proves it still does afterwards - so the member
        invariant, proved at creation, may be assumed in any later state.  Distinct members hold distinct `unique` objects."""
        out = []
        for name, F in getattr(self.c, "families", {}).items():
            L = F.get("locals")
            if not L or not F.get("inv"):
                continue
            genv = Env(cells_env, cells_env.module)
            for n, kind in L.items():
                if kind == "int":
                    v = ctx.fresh(f"other_{n}", "int")
                elif kind == "val":
                    v = ctx.fresh(f"other_{n}", "val")
                elif kind.startswith("ref"):
                    t = ctx.fresh(f"other_{n}", "val").t
                    ctx.assume(t != smt.NONE)
                    if kind == "ref:subject":
                        ctx.assume(z3.And(t != ABSENT, IS_SUBJ(t)))
                    self.w.known(t)
                    v = Opaque(kind[4:] if ":" in kind else "symref", f"other_{n}", term=t)
                else:
                    raise Unsupported(f"family local kind {kind}")
                genv.vars[n] = v
            if running is not None and own_env is not None:
                # another member - of this or of another family - holds other objects than the running member
                Frun = self.c.families[running]
                for n in F.get("unique", ()):
                    for n2 in Frun.get("unique", ()):
                        if (running == name and n == n2) or (running != name and L.get(n, "").startswith("ref") and Frun.get("locals", {}).get(n2, "").startswith("ref")):
                            e2 = own_env.lookup_env(n2)
                            if e2 is not None:
                                ctx.assume(it.to_val(genv.vars[n]) != it.to_val(e2.vars[n2]))
            k = it.lookup(genv, F["id_local"]) if F.get("id_local") else (genv.vars[F["id_var"]] if F.get("id_var") else ctx.fresh("other_k", "int"))
            before = self.check_inv(it, ctx, "", genv, s, extra={"k": k}, base=F["inv"])
            ctx.assume(_bt(before))
            out.append((name, genv, k))
        return out

    def member_post(self, it, ctx, uid, s, pre, done2):
        for name, genv, k in pre:
            after = self.check_inv(it, ctx, "", genv, s, extra={"k": k}, base=self.c.families[name]["inv"])
            if not self.record(ctx, uid + f"/family[{name}]/the-invariant-of-every-other-live-member-is-kept", natives.mk_or(done2, after), kind="inv"):
                import ast
                body = ast.parse(self.c.families[name]["inv"], mode="eval").body
                parts = [ast.unparse(v) for v in body.values] if isinstance(body, ast.BoolOp) and isinstance(body.op, ast.And) else []
                bad = []
                for cj in parts:
                    t = self.check_inv(it, ctx, "", genv, s, extra={"k": k}, base=cj)
                    v, _m, _b = smt.prove(ctx.pc, _bt(natives.mk_or(done2, t)))
                    if v != "proved":
                        bad.append(f"{cj} [{v}]")
                ctx.results[-1].detail = "conjuncts not kept for another live member: " + "; ".join(bad)

    def ghost_post(self, it, ctx, uid, cells_env, s, pre):
        for name, k, before in pre:
            after = self.ghost_eval(it, cells_env, s, (self.c.timers.get(name) or self.c.families[name])["ghost_inv"], k)
            goal = natives.mk_or((not before) if isinstance(before, bool) else z3.Not(before), after)
            self.record(ctx, uid + f"/timer[{name}]/ghost-invariant-preserved", goal, kind="inv")

    def done_established(self, it, ctx, uid, cells_env, s, done2):
        c = self.c
        if not getattr(c, "inv_done", None):
            return
        invd = self.check_inv(it, ctx, uid, cells_env, s, base=c.inv_done)
        self.record(ctx, uid + "/terminated-invariant-established", natives.mk_or((not done2) if isinstance(done2, bool) else z3.Not(done2), invd), kind="inv")

    def own_env_of(self, hd, depth=0):
        """the operator's own closure scope behind a handler / action (looking through synchronized(...) wrappers)"""
        modname = modname_of(self.c.file)
        if isinstance(hd, Closure) and depth < 4:
            if hd.module is not None and hd.module.name == modname:
                return hd.env
            e = hd.env
            while e is not None:
                if "fn" in e.vars:
                    r = self.own_env_of(e.vars["fn"], depth + 1)
                    if r is not None:
                        return r
                e = e.parent
        return None

    def cell_identities(self, it):
        """what each state cell currently is (terms of symbolic collections / maps, identities otherwise)"""
        out = {}
        for n in self.c.cells:
            for e in [self.cur_cells_env] + list(getattr(self, "extra_envs", [])):
                try:
                    get, set_, leaf = resolve_path(it, e, n)
                except (Unsupported, KeyError):
                    continue
                v = get(leaf)
                if isinstance(v, ListObj):
                    out[n] = ("list", v.term if v.symbolic else tuple(id(x) for x in v.items))
                elif isinstance(v, Opaque) and v.kind == "refmap":
                    out[n] = ("map", v.attrs["m"], v.attrs["vals"])
                else:
                    out[n] = ("val", v)
                break
        return out

    # -- snapshots of the operator's cells / the spec state at a call-out ---------------------------
    @staticmethod
    def _freeze(v):
        """the content of a mutable container AS IT IS NOW (containers are mutated in place: a snapshot that keeps only the reference shows the
        state at the END of the step - and `del writers[key]` before or after a call-out looks the same)"""
        if isinstance(v, ListObj):
            return ("list", list(v.items) if v.items is not None else None, v.term, v.elem)
        if isinstance(v, Opaque) and v.kind == "refmap":
            return ("refmap", dict(v.attrs))
        if isinstance(v, DictObj):
            return ("dict", dict(v.d), v.ordered, v.log, v.symbolic, list(v.hist) if v.hist is not None else None)
        if isinstance(v, SetObj):
            return ("set", list(v.s), v.log, v.symbolic, list(v.hist) if v.hist is not None else None)
        return None

    @staticmethod
    def _thaw(v, fr):
        if fr is None:
            return
        if fr[0] == "list":
            v.items, v.term, v.elem = (list(fr[1]) if fr[1] is not None else None), fr[2], fr[3]
        elif fr[0] == "refmap":
            v.attrs.clear()
            v.attrs.update(fr[1])
        elif fr[0] == "dict":
            v.d, v.ordered, v.log, v.symbolic, v.hist = dict(fr[1]), fr[2], fr[3], fr[4], (list(fr[5]) if fr[5] is not None else None)
        elif fr[0] == "set":
            v.s, v.log, v.symbolic, v.hist = list(fr[1]), fr[2], fr[3], (list(fr[4]) if fr[4] is not None else None)

    def capture_impl(self, strict=False):
        snap = []
        for n in self.c.cells:
            found = None
            for e in [self.cur_cells_env] + list(getattr(self, "extra_envs", [])):
                try:
                    found = resolve_path(self.it, e, n)
                    break
                except (Unsupported, KeyError):
                    continue
            if found is None:
                if strict:
                    snap.append(("missing", n))
                continue
            get, set_, leaf = found
            v = get(leaf)
            snap.append((get, set_, leaf, v, self._freeze(v)))
        return snap

    def capture_spec(self, s):
        return {k: (v, self._freeze(v)) for k, v in s.fields.items()}, s

    def inv_at(self, it, ctx, isnap, ssnap):
        saved = []
        for get, set_, leaf, v, fr in isnap:
            cur = get(leaf)
            saved.append((set_, leaf, cur, self._freeze(cur), v, self._freeze(v)))
            self._thaw(v, fr)
            set_(leaf, v)
        fields, s = ssnap
        sfields = dict(s.fields)
        ssaved = [(v, self._freeze(v)) for v in list(s.fields.values()) + [v for v, _fr in fields.values()]]
        for k, (v, fr) in fields.items():
            self._thaw(v, fr)
            s.fields[k] = v
        try:
            # effective invariant: once the spec has terminated nothing the operator does is observable
            inv = self.check_inv(it, ctx, "", self.cur_cells_env, s)
            d = self.spec_done(it, ctx, s)
            return natives.mk_or(d, inv)
        finally:
            for k in list(s.fields):
                if k not in sfields:
                    del s.fields[k]
            for k, v in sfields.items():
                s.fields[k] = v
            for v, fr in ssaved:
                self._thaw(v, fr)
            for set_, leaf, cur, curfr, v, vfr in saved:
                self._thaw(v, vfr)
                self._thaw(cur, curfr)
                set_(leaf, cur)

    def compare_traces(self, ctx, oid, impl: Trace, spec: Trace):
        ok = True
        ti, ts = impl.terminal, spec.terminal
        ki = ti[0] if ti else None
        ks = ts[0] if ts else None
        if ki != ks:
            self.fail(ctx, oid + "/terminal", f"terminal kind: real code {ki}, spec {ks}; real={impl.describe()} spec={spec.describe()}")
            return False
        ok &= self.record(ctx, oid + "/elements", impl.elems() == spec.elems(),
                          detail=f"real={impl.describe()['elems']} spec={spec.describe()['elems']}")
        if ki == "E":
            ok &= self.record(ctx, oid + "/error-payload", ti[1] == ts[1])
        return ok

    def explain_inv(self, it, ctx, env, s, done2):
        """which conjuncts of the coupling invariant are not re-established (for the report of a refuted obligation)"""
        import ast
        try:
            body = ast.parse(self.c.inv, mode="eval").body
            parts = [ast.unparse(v) for v in body.values] if isinstance(body, ast.BoolOp) and isinstance(body.op, ast.And) else [self.c.inv]
            bad = []
            for cj in parts:
                t = self.check_inv(it, ctx, "", env, s, base=cj)
                v, _m, _b = smt.prove(ctx.pc, _bt(natives.mk_or(done2, t)))
                if v != "proved":
                    bad.append(cj)
            return "conjuncts not re-established: " + "; ".join(bad)
        except Exception as e:  # noqa: BLE001
            return f"(could not split the invariant: {e})"

    def check_inv(self, it, ctx, oid, env, s, extra=None, more=None, base=None):
        inv_env = self.inv_env(it, env, s)
        if extra:
            inv_env.vars.update(extra)
        base = base or self.c.inv
        src = base if not more else f"({base}) and ({more})"
        ctx.spec += 1
        try:
            t = it.truth_term(self.eval_src(it, src, inv_env))
        finally:
            ctx.spec -= 1
        return t

    def inv_env(self, it, env, s):
        inv_env = Env(env, env.module)
        # cells that live in other closure scopes of the operator (e.g. a projection handed to a callee)
        for e in getattr(self, "extra_envs", []):
            ee = e
            while ee is not None and ee.fn is not None:
                for k, v in ee.vars.items():
                    if env.lookup_env(k) is None:
                        inv_env.vars.setdefault(k, v)
                ee = ee.parent
        # a cell may be called `s` or `c` in the real code: every cell root is also visible as cell_<name>
        for n in self.c.cells:
            root = n.split(".")[0].split("[")[0]
            e = env.lookup_env(root)
            if e is not None:
                inv_env.vars["cell_" + root] = e.vars[root]
        inv_env.vars["s"] = s
        inv_env.vars["c"] = tuple(cs for (cs, cc, st, out) in self.w.cspecs)
        inv_env.vars.update(self.pvals)
        for n, f in SPEC_HELPERS.items():
            inv_env.vars[n] = f
        return inv_env

    # -- loops (cut at invariants) ------------------------------------------------------
    def on_loop(self, it, st, env, key, lc, iterable=None):
        import ast

        ctx = it.ctx
        w = self.w
        if iterable is not None:
            return self.on_for_loop(it, st, env, key, lc, iterable)
        lenv = Env(env, env.module)
        for n, f in SPEC_HELPERS.items():
            lenv.vars[n] = f
        if getattr(self.c, "timed", False) and getattr(w, "now_term", None) is not None:
            lenv.vars["now_"] = IntSV(w.now_term)  # the instant of the step the loop runs in
        # old(x) snapshots
        for n in lc.get("old", []):
            v = it.lookup(env, n)
            lenv.vars["old_" + n] = SV(natives.seq_of(it, v), "seq") if isinstance(v, ListObj) else v
        obsname = lc.get("observer", "observer")
        tr = w.trace(obsname)
        n0 = len(tr.pieces)

        def emitted():
            ps = tr.pieces[n0:]
            if not ps:
                return SV(z3.Empty(smt.SeqVal), "seq")
            return SV(z3.Concat(*ps) if len(ps) > 1 else ps[0], "seq")

        # loops that notify subjects (`while q: q.pop(0).on_error(e)`): `sent` = the subjects notified by the loop so far, in
        # order; the contract names the notification every iteration sends: each=(method, payload expression)
        side = getattr(w, "side", "impl")
        ns0 = len(w.struct[side])
        each = lc.get("each")
        each_payload = None
        if each is not None and each[1] is not None:
            each_payload = w.lift(it, self.eval_src(it, each[1], env))

        def sent():
            ps = []
            for e in w.struct[side][ns0:]:
                if e[0] == "to":
                    ps.append(z3.Unit(e[1]))
                elif e[0] == "each":
                    ps.append(e[1])
            if not ps:
                return ListObj(term=z3.Empty(smt.SeqVal), elem="ref:subject")
            return ListObj(term=z3.Concat(*ps) if len(ps) > 1 else ps[0], elem="ref:subject")

        def inv_term():
            lenv.vars["emitted"] = emitted()
            lenv.vars["terminated"] = tr.terminal is not None  # the loop (or the step before it) already ended the output
            if each is not None:
                lenv.vars["sent"] = sent()
            ctx.spec += 1
            try:
                return it.truth_term(self.eval_src(it, lc["inv"], lenv))
            finally:
                ctx.spec -= 1

        oid = f"{self.c.uid}/loop:{key[0]}#{key[1]}"
        # after the output ended nothing the loop does is observable and the operator's cells are unconstrained: one arbitrary
        # iteration still has to run without an exception, the invariant (a statement about what is emitted) is void
        dead = tr.terminal is not None and tr.terminal == ("X",)
        if not dead:
            self.record(ctx, oid + "/inv-entry", inv_term(), kind="loop")
        # havoc
        for n, kind in lc.get("havoc", {}).items():
            get, set_, leaf = resolve_path(it, env, n)
            havoc_cell(it, ctx, env, leaf, kind, get, set_)
        if tr.terminal is None:
            em = ctx.fresh("emitted", "seq")
            del tr.pieces[n0:]
            tr.pieces.append(em.t)
            if lc.get("may_terminate") and ctx.choose(2, "an earlier iteration already ended the output") == 1:
                # loops that go on after delivering a terminal notification (delay's drain loop): the arbitrary iteration may
                # start after that happened - the invariant says what holds then (`terminated`)
                tr.terminal = (lc["may_terminate"],)
                w.struct[side].append(("down", {"C": "on_completed", "E": "on_error"}[lc["may_terminate"]]))
        if each is not None:
            # the iterations so far notified some sequence of subjects (each with the declared notification)
            sv = ctx.fresh("sent", "seq").t
            del w.struct[side][ns0:]
            w.struct[side].append(("each", sv, each[0], each_payload))
        ns1 = len(w.struct[side])
        if not dead:
            it_ = inv_term()
            ctx.assume(it_ if not isinstance(it_, bool) else z3.BoolVal(it_))
        if it.truth(it.eval(st.test, env), "while " + ast.unparse(st.test)[:60]):
            dec0 = None
            if "decreases" in lc:
                ctx.spec += 1
                dec0 = it.to_int(self.eval_src(it, lc["decreases"], lenv))
                ctx.spec -= 1
            try:
                it.exec_block(st.body, env)
            except _Break:
                return
            except _Continue:
                pass
            if dead:
                raise PathEnd()
            self.record(ctx, oid + "/inv-preserved", inv_term(), kind="loop")
            if each is not None:
                for e in w.struct[side][ns1:]:
                    same_kind = e[0] == "to" and e[2] == each[0]
                    self.record(ctx, oid + f"/every-iteration-sends-{each[0]}-to-one-subject", same_kind, kind="loop",
                                detail=f"the iteration does: {e[0]} {e[2] if len(e) > 2 else ''}")
                    if same_kind and (each_payload is not None or e[3] is not None):
                        self.record(ctx, oid + f"/every-iteration-sends-{each[0]}-with-the-declared-payload",
                                    (e[3] == each_payload) if (e[3] is not None and each_payload is not None) else False, kind="loop")
            if dec0 is not None:
                ctx.spec += 1
                dec1 = it.to_int(self.eval_src(it, lc["decreases"], lenv))
                ctx.spec -= 1
                self.record(ctx, oid + "/decreases", z3.And(dec1 < dec0, dec0 > 0), kind="loop")
            raise PathEnd()
        it.exec_block(st.orelse, env)

    def on_for_loop(self, it, st, env, key, lc, iterable):
        """`for [i,] a in [enumerate(]T[)]` over a symbolic list with a loop contract: the invariant speaks about `rest_`, the
        part of T not visited yet (`done_`: the part visited).  Entry: rest_ = T.  One ARBITRARY iteration: T = done_ ++ [a] ++
        rest', invariant assumed for rest_ = [a] ++ rest'; the body may leave the loop by return / raise (the path goes on in the
        caller, knowing the invariant) or fall through - then the invariant must hold for rest'.  Exit: the invariant for rest_ = []."""
        import ast

        ctx = it.ctx
        if not (isinstance(iterable, ListObj) and iterable.symbolic) or st.orelse:
            raise Unsupported("for-loop contract over something else than a symbolic list")
        enum = iterable.elem.startswith("enum:")
        elem = iterable.elem[5:] if enum else iterable.elem
        T = iterable.term
        lenv = Env(env, env.module)
        for n, f in SPEC_HELPERS.items():
            lenv.vars[n] = f
        oid = f"{self.c.uid}/loop:{key[0]}#{key[1]}"

        def inv_at(rest, done):
            lenv.vars["rest_"] = ListObj(term=rest, elem=elem)
            lenv.vars["done_"] = ListObj(term=done, elem=elem)
            ctx.spec += 1
            try:
                return it.truth_term(self.eval_src(it, lc["inv"], lenv))
            finally:
                ctx.spec -= 1
        E = z3.Empty(smt.SeqVal)
        tr = self.w.trace(lc.get("observer", "observer"))
        dead = tr.terminal is not None and tr.terminal == ("X",)  # after the end: only "no exception escapes" matters
        if not dead:
            self.record(ctx, oid + "/inv-entry", inv_at(T, E), kind="loop")
        which = ctx.choose(2, f"for-loop {key[0]}#{key[1]}: 0 = one arbitrary iteration, 1 = after the last one")
        if which == 1:
            t = inv_at(E, T)
            ctx.assume(_bt(t))
            return
        a = ctx.fresh("visited", "val").t
        pre, post = ctx.fresh("done", "seq").t, ctx.fresh("rest", "seq").t
        ctx.assume(T == z3.Concat(pre, z3.Unit(a), post))
        suffix = z3.Concat(z3.Unit(a), post)
        natives.seqfun_pop_fact(it, suffix, a, post)  # the recursive functions unfold at this decomposition
        ctx.assume(_bt(inv_at(suffix, pre)))
        val = it.elem_from_term(elem, a)
        it.assign(st.target, (IntSV(z3.Length(pre)), val) if enum else val, env)
        try:
            it.exec_block(st.body, env)
        except _Break:
            raise Unsupported("break in a for-loop with a contract")
        except _Continue:
            pass
        if not dead:
            self.record(ctx, oid + "/inv-preserved", inv_at(post, z3.Concat(pre, z3.Unit(a))), kind="loop")
        raise PathEnd()

    # -- the per-path scripts --------------------------------------------------------------
    def build(self, it, env):
        return self.eval_src(it, self.c.call, env)

    def run_subscribe(self, ctx):
        """application + subscribe; returns (it, w, cells_env, s, handlers) or None when the path ended"""
        c = self.c
        it, w, env, params = self.setup(ctx)
        uid = c.uid
        self.step_uid = uid + "/subscribe"
        try:
            obs = self.build(it, env)
        except PyExc as e:
            # exceptional postcondition of the application
            name = e.value.cls.name if isinstance(e.value, Obj) else str(e.value)
            ok = False
            for cond, exname in c.raises:
                if exname == name:
                    ctx.spec += 1
                    t = it.truth_term(self.eval_src(it, cond, env))
                    ctx.spec -= 1
                    ok = True
                    self.record(ctx, f"{uid}/apply/raises-{exname}-only-if", t, kind="raises")
            if not ok:
                self.fail(ctx, f"{uid}/apply/no-exception", f"application raised {name}", kind="raises")
            return None
        # the conditions under which it must raise did not hold
        for cond, exname in c.raises:
            ctx.spec += 1
            t = it.truth_term(self.eval_src(it, cond, env))
            ctx.spec -= 1
            self.record(ctx, f"{uid}/apply/must-raise-{exname}", z3.Not(t) if not isinstance(t, bool) else (not t), kind="raises")
        s = self.make_spec(it, ctx, params)
        self.spec_call(it, s, "init", [])
        observer = env.vars["observer"]
        if isinstance(obs, Opaque) and obs.kind == "specobs":
            # a pure composition: the result is the last callee stage
            def sub(it_, a, k):
                return w.call(it, obs, "subscribe", [a[0]], {"scheduler": a[1]})
            sub = Native("subscribe-composition", sub)
        elif isinstance(obs, Obj) and "_subscribe" in obs.fields:
            sub = obs.fields["_subscribe"]
        else:
            raise Unsupported(f"application result is not Observable(subscribe): {obs!r}")
        self.phase = "subscribe"
        self.sub_snaps = []
        if getattr(c, "timed", False):
            t_sub = ctx.fresh("t_sub", "int").t
            ctx.assume(t_sub >= 1)  # instants are positive tick counts (a datetime is always truthy)
            w.now_term = t_sub
        params_before = {}
        if isinstance(sub, Closure) and sub.env is not None:
            for pn in params:
                e = sub.env.lookup_env(pn)
                if e is not None and e.fn is not None:
                    params_before[pn] = e.vars.get(pn)
        # the scheduler the subscriber subscribes with (distinct from a scheduler given to the operator): it has to be handed on
        # to every source the operator subscribes - a mapper's `timer(d)` without a scheduler of its own runs on it
        self.sub_sched = Opaque("scheduler", "subscribe_scheduler")
        self.sched_misses = []
        try:
            disp = it.call(sub, [observer, self.sub_sched], {})
        except PyExc as e:
            self.fail(ctx, f"{uid}/subscribe/no-exception", f"subscribe raised {e.value!r}")
            return None
        finally:
            self.phase = "handlers"
        self.scheduler_handed_on(ctx, f"{uid}/subscribe")
        # the contract describes ONE subscription in terms of the operator's parameters: a subscription must leave them as they
        # were (a later subscription starts from the same operator: C04 / C44)
        if isinstance(sub, Closure) and sub.env is not None:
            changed = []
            for pn, pv in params_before.items():
                e = sub.env.lookup_env(pn)
                cur = e.vars.get(pn)
                same_v = cur is pv or (isinstance(cur, SV) and isinstance(pv, SV) and z3.eq(cur.t, pv.t)) or (
                    isinstance(cur, (int, bool, str, type(None))) and type(cur) is type(pv) and cur == pv)
                if not same_v:
                    changed.append(pn)
            self.record(ctx, f"{uid}/subscribe/leaves-the-operator's-parameters-unchanged", not changed, kind="frame",
                        detail=f"subscribe assigns to the operator's parameter(s) {changed}: the next subscription sees the changed value")
        self.spec_call(it, s, "on_subscribe", [Opaque("observer", "spec_out")])
        self.compare_traces(ctx, f"{uid}/subscribe/out", w.trace("observer"), w.trace("spec_out"))
        # sources subscribed by subscribe itself: the spec may say where (out.subscribe_source(i) in on_subscribe); a timed
        # single-source spec that does not say subscribes its source LAST (after the timers it sets: a notification of the very
        # instant of a timer comes second); a multi-source spec that does not say leaves the order open
        spec_mentions = [e[1] for e in w.struct["spec"] if e[0] == "sub-src"]
        if not spec_mentions:
            if len(c.sources) == 1 and getattr(c, "timed", False) and not getattr(c, "late_subscribe", False):
                if any(e[0] == "sub-src" for e in w.struct["impl"]):
                    w.struct["spec"].append(("sub-src", 0, True))
            else:
                w.struct["impl"] = [e for e in w.struct["impl"] if e[0] != "sub-src"]
        if getattr(c, "timed", False) or getattr(c, "subjects", False) or len(c.sources) > 1:
            self.cur_spec = s
            self.disp = disp
            self.compare_subscriptions(it, ctx, f"{uid}/subscribe", 0)
            if getattr(c, "timed", False):
                s.fields["clock"] = IntSV(w.now_term)
        for k, snap in enumerate(self.sub_snaps):
            missing = [x[1] for x in snap if x[0] == "missing"]
            if missing:
                self.fail(ctx, f"{uid}/subscribe/call-out#{k}/cells-ready-when-subscribing",
                          f"cells {missing} are only created after the source was subscribed: a source that emits "
                          f"synchronously during subscribe would run the handlers without them")
            elif not self.w.cspecs:
                self.record(ctx, f"{uid}/subscribe/call-out#{k}/inv-holds-when-subscribing",
                            self.inv_at(it, ctx, snap, self.capture_spec(s)), kind="inv")
        handlers = {}
        cells_env = None
        allh = []
        for (src, hs, kw, d) in w.subs:
            if src.name not in c.sources:
                continue  # a subscription to something a user function handed back: a family member, not a source
            handlers[src.name] = hs
            allh.extend(hs)
        cells_env = self.pick_cells_env(allh)
        # closures handed to callee stages (e.g. scan's projection given to map) carry cells too
        self.extra_envs = []
        for (cs, cc, st, out) in w.cspecs:
            for v in cs.fields.values():
                if isinstance(v, Closure) and v.env is not None:
                    self.extra_envs.append(v.env)
        if cells_env is None and self.extra_envs:
            cells_env = self.extra_envs[0]
        sdone = self.spec_done(it, ctx, s)
        impl_term = w.trace("observer").terminal is not None
        if not handlers and getattr(c, "late_subscribe", False):
            inv0 = self.check_inv(it, ctx, f"{uid}/subscribe/inv", Env(None, env.module), s)
            self.record(ctx, f"{uid}/subscribe/inv-established", inv0, kind="inv")
            self.disp = disp
            return it, w, Env(None, env.module), s, handlers
        if not handlers:
            # nothing subscribed upstream: only legitimate when the operator already terminated
            if not impl_term:
                self.fail(ctx, f"{uid}/subscribe/source-subscribed", "no upstream subscription and no terminal")
            return None
        if cells_env is None:
            cells_env = Env(None, env.module)
        inv0 = self.check_inv(it, ctx, f"{uid}/subscribe/inv", cells_env, s)
        self.record(ctx, f"{uid}/subscribe/inv-established", inv0, kind="inv")
        v0 = self.spec_valid(it, ctx, s)
        if v0 is not None:
            self.record(ctx, f"{uid}/subscribe/spec-state-invariant-established", v0, kind="inv")
        self.disp = disp
        return it, w, cells_env, s, handlers

    def audit_cells(self, h, uid):
        """the step is proved from ARBITRARY values of the declared cells; a variable of the enclosing scopes that is mutated there and is not a
        declared cell would stay at its initial value, and the step would be proved for the first notification only (cells.py)"""
        if not isinstance(h, Closure):
            return
        seen = self.__dict__.setdefault("_cells_audited", {})
        key = id(h.node)
        if key not in seen:
            from .cells import shared_cells
            cells = shared_cells(h)
            declared = {n.split(".")[0].split("[")[0] for n in self.c.cells} | set(getattr(self.c, "cells_left_alone", None) or ())
            seen[key] = sorted((n, how) for n, how in cells.items() if n not in declared)
        if seen[key]:
            if os.environ.get("RXVC_CELL_AUDIT") == "list":
                print("CELL-AUDIT", self.c.name, uid, seen[key], flush=True)
                return
            raise Unsupported(f"{uid}: state of the enclosing scopes that the contract does not declare as a cell (it would stay at its initial value in the step proof): "
                              + ", ".join(f"{n} ({how})" for n, how in seen[key]))

    def havoc(self, it, ctx, cells_env, s):
        c = self.c
        for n, kind in c.cells.items():
            found = None
            for e in [cells_env] + list(getattr(self, "extra_envs", [])):
                try:
                    found = resolve_path(it, e, n)
                    break
                except Unsupported:
                    continue
            if found is None:
                raise Unsupported(f"cell {n} not found in any closure scope of the operator (drift)")
            get, set_, leaf = found
            havoc_cell(it, ctx, cells_env, leaf, kind, get, set_)
        self.havoc_spec_fields(it, ctx, s, c, "s_")
        self.assume_valid(it, ctx, s)
        # callee stages: their spec state is arbitrary too; a stage that already terminated downstream is stopped
        for idx, (cs, cc, st, out) in enumerate(self.w.cspecs):
            self.havoc_spec_fields(it, ctx, cs, cc, f"c{idx}_", override=(getattr(c, "stage_args", None) or {}).get(idx))
            self.assume_valid(it, ctx, cs)
            d = self.spec_done(it, ctx, cs)
            st["stopped"] = d if isinstance(d, bool) else ctx.branch(d, f"stage{idx} already terminated")
            st["in_stopped"] = False

    def spec_valid(self, it, ctx, s):
        """`valid(s)`: the spec machine's own state invariant (optional method), proved by its own unit: established by init,
        preserved by every step - and therefore assumed wherever a spec state is arbitrary"""
        m = it.class_lookup(s.cls, "valid")
        if m is None:
            return None
        ctx.spec += 1
        try:
            return it.truth_term(it.call(BoundMethod(s, m), [], {}))
        finally:
            ctx.spec -= 1

    def assume_valid(self, it, ctx, s):
        v = self.spec_valid(it, ctx, s)
        if v is not None:
            ctx.assume(v if not isinstance(v, bool) else z3.BoolVal(v))

    def havoc_spec_fields(self, it, ctx, s, c, prefix, override=None):
        # spec state: havoc every non-parameter field by the kind of its initial value
        for n, v in list(s.fields.items()):
            if n in c.params or n in c.sources:
                continue
            kind = (override or {}).get(n) or (c.spec_args or {}).get(n)
            if kind is None:
                if isinstance(v, bool) or (isinstance(v, SV) and v.kind == "bool"):
                    kind = "bool"
                elif isinstance(v, int) or (isinstance(v, SV) and v.kind == "int"):
                    kind = "int"
                elif isinstance(v, ListObj):
                    kind = "seq"
                elif v is None or (isinstance(v, SV) and v.kind == "val"):
                    kind = "val"
                elif isinstance(v, SetObj):
                    kind = "setlog"
                elif isinstance(v, DictObj):
                    kind = "dictlog"
                else:
                    raise Unsupported(f"spec field {n} kind")
            havoc_cell(it, ctx, None, prefix + n, kind, lambda _n, _k=n: s.fields[_k], lambda _n, val, _k=n: s.fields.__setitem__(_k, val))

    def run_handler(self, ctx, source, slot):
        """one path of one handler obligation"""
        c = self.c
        r = self.run_subscribe(ctx)
        ctx.results.clear()  # subscribe-phase obligations are reported by run 'subscribe'
        if r is None:
            raise PathEnd()
        it, w, cells_env, s, handlers = r
        if source not in handlers:
            raise PathEnd()
        h = handlers[source][slot]
        self.cur_source = source
        hname = ("on_next", "on_error", "on_completed")[slot]
        uid = f"{c.uid}/{source}.{hname}"
        self.step_uid = uid
        if h is None:
            if slot == 1:
                # Observable.subscribe's default on_error raises the error: it escapes into the source that reported it (C09)
                self.fail(ctx, uid + "/subscribes-its-source-with-an-on_error-handler", "the source is subscribed without an on_error handler: its error is raised back into it")
                raise PathEnd()
            from .values import Native as _Native
            h = _Native("no-handler-given", lambda it_, a, k: None)
        self.audit_cells(h, uid)
        self.havoc(it, ctx, cells_env, s)
        # effective invariant: done(s) \/ inv  -- after the operator terminated downstream nothing it
        # does is observable (C01), so its cells are unconstrained there; only "no exception
        # escapes" is still required.
        done = self.spec_done(it, ctx, s)
        is_done = done if isinstance(done, bool) else ctx.branch(done, "already-terminated")
        if is_done and getattr(c, "ends_with_source", False):
            # the output of this operator ends only with its source (checked below: no element ends it), and a source emits
            # nothing after its terminal notification
            raise PathEnd()
        live = getattr(c, "live", None)
        if live:
            # source grammar: the source whose handler runs has not terminated before (it emits nothing after its terminal,
            # nor after its subscription was released)
            env_l = self.inv_env(it, cells_env, s)
            env_l.vars["i"] = list(c.sources).index(source)
            ctx.spec += 1
            try:
                t = it.truth_term(self.eval_src(it, live, env_l))
            finally:
                ctx.spec -= 1
            ctx.assume(t if not isinstance(t, bool) else z3.BoolVal(t))
            if smt.check_sat(ctx.pc)[0] == "unsat":
                raise PathEnd()
        if not is_done:
            inv = self.check_inv(it, ctx, uid, cells_env, s)
            ctx.assume(inv if not isinstance(inv, bool) else z3.BoolVal(inv))
        elif getattr(c, "inv_done", None):
            invd = self.check_inv(it, ctx, uid, cells_env, s, base=c.inv_done)
            ctx.assume(invd if not isinstance(invd, bool) else z3.BoolVal(invd))
        gpre = [] if is_done else self.ghost_pre(it, ctx, cells_env, s)
        mpre = [] if is_done else self.member_pre(it, ctx, cells_env, s)
        # fresh traces
        self.begin_step(w, cells_env, s)
        if is_done:
            w.trace("observer").terminal = ("X",)
            w.trace("spec_out").terminal = ("X",)
        args = []
        if slot == 0:
            args = [self.make_element(it, ctx)]
        elif slot == 1:
            args = [fresh_exc(ctx, "err")]
        if h is None:
            raise PathEnd()
        guards0 = self.all_guards(it)
        try:
            it.call(h, args, {})
        except PyExc as e:
            self.fail(ctx, uid + "/no-exception-escapes", f"exception escapes the handler: {e.value!r}", kind="exc")
            return
        if self.lockset:
            self.lockset_obligations(it, ctx, uid)
            if guards0:
                self.guard_obligations(it, ctx, uid, guards0)
        if is_done:
            self.record(ctx, uid + "/after-termination/no-exception-escapes", True, kind="exc")
            self.after_termination(it, ctx, uid, cells_env, s)
            return
        out = Opaque("observer", "spec_out")
        idx_arg = [list(c.sources).index(source)] if len(c.sources) > 1 else []
        rr = self.spec_call(it, s, hname, [out] + idx_arg + args)
        if rr is NOTSET:
            if slot == 1:
                it.call(OpaqueMethod(out, "on_error"), args, {})
            elif slot == 2:
                it.call(OpaqueMethod(out, "on_completed"), [], {})
            else:
                raise Unsupported("spec lacks on_next")
        self.compare_traces(ctx, uid + "/out", w.trace("observer"), w.trace("spec_out"))
        if getattr(c, "reentrant", False):
            self.compare_down_calls(it, ctx, uid)
        # (every contract: an operator that subscribes, releases or schedules something in a handler must do so exactly where its
        # spec machine does)
        self.compare_subscriptions(it, ctx, uid, self.n_subs_before)
        if getattr(c, "timed", False):
            s.fields["clock"] = IntSV(w.now_term)
        # the invariant is re-established by EVERY handler that leaves the operator running (a terminal notification of one
        # source of several, or one the operator absorbs, does not end the output)
        done2 = self.spec_done(it, ctx, s)
        if slot != 0 and w.trace("spec_out").terminal is not None:
            done2 = True  # the spec machine ended the output in this step
        if slot == 0 and getattr(c, "ends_with_source", False):
            self.record(ctx, uid + "/an-element-never-ends-the-output", natives.mk_not(done2) if hasattr(natives, "mk_not") else
                        ((not done2) if isinstance(done2, bool) else z3.Not(done2)), kind="inv")
        if slot == 0 or done2 is not True:
            inv2 = self.check_inv(it, ctx, uid, cells_env, s)
            if not self.record(ctx, uid + "/inv-preserved", natives.mk_or(done2, inv2), kind="inv"):
                ctx.results[-1].detail = self.explain_inv(it, ctx, cells_env, s, done2)
        self.done_established(it, ctx, uid, cells_env, s, done2)
        self.ghost_post(it, ctx, uid, cells_env, s, gpre)
        self.member_post(it, ctx, uid, s, mpre, done2)
        v = self.spec_valid(it, ctx, s)
        if v is not None:
            self.record(ctx, uid + "/spec-state-invariant-preserved", v, kind="inv")

    def begin_step(self, w, cells_env, s):
        """fresh observation window for one handler step"""
        w.traces.clear()
        w.events.clear()
        w.spec_subs.clear()
        w.struct = {"impl": [], "spec": []}
        w.snaps = {"impl": [], "spec": []}
        w.dsnaps = {"impl": [], "spec": []}
        w.down_snaps = {"impl": [], "spec": []}
        w.lock_calls = []
        self.cell_writes = []
        self.n_subs_before = len(w.subs)
        self.cur_cells_env = cells_env
        self.cur_spec = s
        self.in_handler = True
        if getattr(self.c, "timed", False) and not getattr(self, "fixed_time", False):
            # this step happens at one instant, not before the previous one
            t = self.it.ctx.fresh("t_step", "int").t
            if "clock" in s.fields:
                # the previous step happened at `clock`, at or after the subscription (instants are positive tick counts)
                self.it.ctx.assume(z3.And(t >= self.it.to_int(s.fields["clock"]), self.it.to_int(s.fields["clock"]) >= 1))
                s.fields["clock"] = IntSV(t)  # from here on `clock` is the instant of this step
            w.now_term = t

    def run_family_handler(self, ctx, fam, slot):
        """a handler of a per-element family (inner subscription): created by one outer on_next from an arbitrary
        state, then run from an arbitrary LATER state in which that member is still live"""
        c = self.c
        F = c.families[fam]
        r = self.run_subscribe(ctx)
        ctx.results.clear()
        if r is None:
            raise PathEnd()
        it, w, cells_env, s, handlers = r
        by = F.get("source", c.sources[0])  # the source whose elements create the members
        outer = handlers.get(by)
        if outer is None or outer[0] is None:
            raise PathEnd()
        hname = ("on_next", "on_error", "on_completed")[slot]
        uid = f"{c.uid}/{fam}.{hname}"
        self.step_uid = uid
        at_subscribe = F.get("created_in") == "subscribe"
        inner = None
        if at_subscribe:
            # the member the subscription itself creates (window_when's first closing observable); the members a member
            # creates when it ends run the same handlers
            n0, nc0 = 0, 0
        else:
            # --- creation step from an arbitrary state
            self.havoc(it, ctx, cells_env, s)
            done = self.spec_done(it, ctx, s)
            if done if isinstance(done, bool) else ctx.branch(done, "already-terminated (creation)"):
                raise PathEnd()
            inv = self.check_inv(it, ctx, uid, cells_env, s)
            ctx.assume(inv if not isinstance(inv, bool) else z3.BoolVal(inv))
            inner = self.make_element(it, ctx)
            n0 = len(w.subs)
            nc0 = len(w.cspecs)
            w.spec_subs.clear()
            self.begin_step(w, cells_env, s)
            try:
                it.call(outer[0], [inner], {})
            except PyExc:
                raise PathEnd()
            self.spec_call(it, s, "on_next", [Opaque("observer", "spec_out")] + ([list(c.sources).index(by)] if len(c.sources) > 1 else []) + [inner])
            self.in_handler = False
            ctx.results.clear()  # the creating step is verified as the outer on_next
        member = None
        for (src, hs, kw, d) in w.subs[n0:]:
            if src is inner or (c.elem != "source" and src.name not in c.sources):
                # the subscription this step made to the element itself / to the observable a user function returned for it
                member = hs
                if c.elem != "source":
                    inner = src
        if member is None:
            raise PathEnd()  # not subscribed on this path (e.g. queued)
        # the member reaches the operator's own closures directly or through callee stages (duration.pipe(take(1)))
        member_stages = list(range(nc0, len(w.cspecs)))
        real_handlers = list(member)
        for idx in member_stages:
            real_handlers.extend(x for x in w.cspecs[idx][3].attrs.get("handlers", ()) if x is not None)
        h = member[slot]
        ctx.spec += 1
        k = self.eval_src(it, F["id"], self.inv_env(it, cells_env, s)) if F.get("id") else None
        ctx.spec -= 1
        modname = modname_of(c.file)

        def own_env(hd, depth=0):
            """the operator's own closure scope behind a handler (looking through synchronized(...) wrappers)"""
            if isinstance(hd, Closure) and depth < 4:
                if hd.module is not None and hd.module.name == modname:
                    return hd.env
                e = hd.env
                while e is not None:
                    if "fn" in e.vars:
                        r = own_env(e.vars["fn"], depth + 1)
                        if r is not None:
                            return r
                    e = e.parent
            return None
        cand_envs = [e for e in (own_env(x) for x in real_handlers) if e is not None]
        need = list(F.get("locals", {})) or ([F["id_local"]] if F.get("id_local") else [])
        member_env = next((e for e in cand_envs if all(e.lookup_env(n) is not None for n in need)), None) or (cand_envs[0] if cand_envs else cells_env)
        if F.get("id_local"):
            # the member's identity is what its own closure holds (e.g. the key of its group)
            k = it.lookup(member_env, F["id_local"])
        extra = {"k": k, "inner": inner}
        if F.get("inv"):
            # the member's own invariant holds from its creation on
            invc = self.check_inv(it, ctx, uid, member_env, s, extra=extra, base=F.get("inv"))
            donec = self.spec_done(it, ctx, s)
            self.record(ctx, uid + "/member-inv-established-at-creation", natives.mk_or(donec, invc), kind="inv")
            ctx.results[-1].oid = f"{c.uid}/{fam}/member-inv-established-at-creation"
        if F.get("ghost_inv") and k is not None:
            self.record(ctx, uid + "/ghost-invariant-established", self.ghost_eval(it, cells_env, s, F["ghost_inv"], k), kind="inv")
            ctx.results[-1].oid = f"{c.uid}/{fam}/ghost-invariant-established"
        # --- an arbitrary later state in which this member is live
        self.havoc(it, ctx, cells_env, s)
        if F.get("ghost_inv") and k is not None:
            # proved established at creation and preserved by every step for an arbitrary pending member
            g = self.ghost_eval(it, cells_env, s, F["ghost_inv"], k)
            ctx.assume(g if not isinstance(g, bool) else z3.BoolVal(g))
        for idx in member_stages:
            # live: none of the stages between the member's source and the operator has terminated
            if w.cspecs[idx][2]["stopped"] is True:
                raise PathEnd()
        done = self.spec_done(it, ctx, s)
        is_done = done if isinstance(done, bool) else ctx.branch(done, "already-terminated")
        if not is_done:
            inv = self.check_inv(it, ctx, uid, member_env, s, extra=extra, more=F.get("inv"))
            ctx.assume(inv if not isinstance(inv, bool) else z3.BoolVal(inv))
        elif getattr(c, "inv_done", None):
            invd = self.check_inv(it, ctx, uid, member_env, s, extra=extra, more=F.get("inv_done", F.get("inv")), base=c.inv_done)
            ctx.assume(invd if not isinstance(invd, bool) else z3.BoolVal(invd))
        mpre = [] if is_done else self.member_pre(it, ctx, cells_env, s, running=fam, own_env=member_env)
        self.begin_step(w, cells_env, s)
        before = self.cell_identities(it)
        if is_done:
            w.trace("observer").terminal = ("X",)
            w.trace("spec_out").terminal = ("X",)
        args = []
        if slot == 0:
            args = [ctx.fresh("x", "val")]
        elif slot == 1:
            args = [fresh_exc(ctx, "err")]
        if h is None:
            # the member is subscribed without a handler for this notification: the step is "nothing happens" and must still refine the spec's
            # step; a missing on_error handler raises the error back into the member that reported it
            if slot == 1:
                self.fail(ctx, uid + "/subscribes-the-member-with-an-on_error-handler", "an inner source is subscribed without an on_error handler: its error is raised back into it")
                return
            from .values import Native as _Native
            h = _Native("no-handler-given", lambda it_, a, k: None)
        ns = getattr(self, "nested_sync", None)
        if ns is not None:
            # scenario: a source THIS step subscribes (the next queued inner, the next member) notifies from inside its subscribe call - its
            # handler runs nested in this step; whatever that nested handler subscribed or scheduled must still be live when the step returns
            # (the rest of the step - typically storing the handle of the source that has already fired - must not release it)
            if is_done:
                raise PathEnd()
            self.sync_inner, self.sync_inner_fired, self.sync_inner_made, self.sync_inner_raised = ns, False, [], False
            self.sync_inner_disposed_before = 0
            try:
                it.call(h, args, {})
            except PyExc:
                pass
            finally:
                self.sync_inner = None
                self.in_handler = False
            ctx.results.clear()
            if not self.sync_inner_fired or not self.sync_inner_made:
                raise PathEnd()
            later = w.disposed[self.sync_inner_disposed_before:]
            lost = [d for d in self.sync_inner_made if any(x is d for x in later)]
            nm2 = ("on_next", "on_error", "on_completed")[ns]
            self.record(ctx, f"{uid}/a-source-it-subscribes-sends-{nm2}-from-inside-subscribe/what-that-subscribed-is-still-live-when-the-step-returns",
                        not lost, kind="frame",
                        detail=f"released by the rest of the step that was subscribing the source: {[d.name for d in lost]} "
                               f"(e.g. the handle of the source that has already fired is stored over its successor's)")
            return
        try:
            it.call(h, args, {})
        except PyExc as e:
            self.fail(ctx, uid + "/no-exception-escapes", f"exception escapes the handler: {e.value!r}", kind="exc")
            return
        if self.lockset:
            self.lockset_obligations(it, ctx, uid)
        # which state cells can a handler of this family change? (loops of the operator that call out on subjects whose
        # subscribers may re-enter such a handler must not walk those cells themselves)
        after = self.cell_identities(it)
        for n in before:
            if not _same_identity(before[n], after.get(n)):
                self.__dict__.setdefault("family_mutates_found", set()).add(n)
        if is_done:
            self.record(ctx, uid + "/after-termination/no-exception-escapes", True, kind="exc")
            self.after_termination(it, ctx, uid, cells_env, s)
            return
        out = Opaque("observer", "spec_out")
        sargs = [out] + ([k] if k is not None else []) + args
        if self.spec_call(it, s, F["spec"][slot], sargs) is NOTSET:
            raise Unsupported(f"spec lacks {F['spec'][slot]}")
        self.compare_traces(ctx, uid + "/out", w.trace("observer"), w.trace("spec_out"))
        self.compare_subscriptions(it, ctx, uid, self.n_subs_before)
        # the member stays live only after an element; the global invariant must hold in any case
        inv2 = self.check_inv(it, ctx, uid, cells_env, s)
        done2 = self.spec_done(it, ctx, s)
        self.record(ctx, uid + "/inv-preserved", natives.mk_or(done2, inv2), kind="inv")
        self.member_post(it, ctx, uid, s, mpre, done2)
        if F.get("once") and slot in (0, 2):
            # a member that ends with its first notification must be deaf to whatever its source sends afterwards: a source that
            # emits from inside subscribe cannot be stopped by disposing a subscription that does not exist yet
            for slot2 in (0, 2):
                h2 = member[slot2]
                if h2 is None:
                    continue
                self.begin_step(w, cells_env, s)
                before2 = self.cell_identities(it)
                a2 = [ctx.fresh("x_again", "val")] if slot2 == 0 else []
                nm = ("on_next", "on_error", "on_completed")[slot2]
                try:
                    it.call(h2, a2, {})
                except PyExc as e:
                    self.fail(ctx, uid + f"/then-{nm}-again/no-exception-escapes", f"exception escapes the handler: {e.value!r}", kind="exc")
                    continue
                tr2 = w.trace("observer")
                quiet = not tr2.pieces and tr2.terminal is None and not w.struct["impl"]
                after2 = self.cell_identities(it)
                quiet = quiet and all(_same_identity(before2[n], after2.get(n)) for n in before2)
                self.record(ctx, uid + f"/then-{nm}-again/a-spent-member-is-deaf", quiet, kind="inv",
                            detail=f"after its first notification the member's source sends {nm} (synchronously, before its subscription could be "
                                   f"released): the operator emits {tr2.describe()} / does {[e[0] for e in w.struct['impl']]}")
        if slot == 0 and F.get("inv") and not F.get("once"):
            inv3 = self.check_inv(it, ctx, uid, member_env, s, extra=extra, more=F.get("inv"))
            self.record(ctx, uid + "/member-inv-preserved", natives.mk_or(done2, inv3), kind="inv")

    def run_timer(self, ctx, name):
        """a timer of the operator (K1-T): set by the creating step from an arbitrary state, then fired - at exactly its
        due instant (scheduler contract, C28/C30) - from an arbitrary LATER state in which it is still pending"""
        c = self.c
        T = c.timers[name]
        r = self.run_subscribe(ctx)
        if r is None:
            raise PathEnd()
        it, w, cells_env, s, handlers = r
        uid = f"{c.uid}/timer[{name}]"
        self.step_uid = uid
        created_in = T.get("created_in", "subscribe")
        if created_in != "subscribe":
            ctx.results.clear()
            src, hn = created_in.split(".")
            slot = ("on_next", "on_error", "on_completed").index(hn)
            h = handlers.get(src, [None, None, None])[slot]
            if h is None:
                raise PathEnd()
            self.havoc(it, ctx, cells_env, s)
            done = self.spec_done(it, ctx, s)
            if done if isinstance(done, bool) else ctx.branch(done, "already-terminated (creation)"):
                raise PathEnd()
            inv = self.check_inv(it, ctx, uid, cells_env, s)
            ctx.assume(inv if not isinstance(inv, bool) else z3.BoolVal(inv))
            n0 = len(w.timers)
            self.begin_step(w, cells_env, s)
            args = [self.make_element(it, ctx)] if slot == 0 else ([fresh_exc(ctx, "err")] if slot == 1 else [])
            try:
                it.call(h, args, {})
            except PyExc:
                raise PathEnd()
            idx_arg = [list(c.sources).index(src)] if len(c.sources) > 1 else []
            self.spec_call(it, s, hn, [Opaque("observer", "spec_out")] + idx_arg + args)
            created = w.timers[n0:]
        else:
            ctx.results.clear()
            created = list(w.timers)
        k = T.get("index", 0)
        if len(created) <= k:
            raise PathEnd()  # no such timer on this path
        member = created[k]
        action, due = member["action"], member["due"]
        member_env = action.env if isinstance(action, Closure) and action.env is not None else cells_env
        own = self.own_env_of(action)
        if own is not None:
            member_env = own  # an action wrapped by a decorator (synchronized): the wrapped function's scope
        # the ghost identity of this timer (e.g. the generation it was set for), read off the spec right after its creation
        ident = None
        if T.get("id"):
            ctx.spec += 1
            ident = self.eval_src(it, T["id"], self.inv_env(it, cells_env, s))
            ctx.spec -= 1
        if T.get("ghost_inv") and ident is not None:
            self.record(ctx, uid + "/ghost-invariant-established", self.ghost_eval(it, cells_env, s, T["ghost_inv"], ident), kind="inv")
        if T.get("inv"):
            # the timer's own invariant (over the action's closure scope) holds from the moment it was set
            ex0 = {"due": IntSV(due)}
            if ident is not None:
                ex0["k"] = ident
            inv_c = self.check_inv(it, ctx, uid, member_env, s, extra=ex0, base=T.get("inv"))  # (the operator's own invariant: the creating step)
            self.record(ctx, uid + "/timer-invariant-established-when-set", natives.mk_or(self.spec_done(it, ctx, s), inv_c), kind="inv")
        # --- an arbitrary later state in which this timer is still pending
        self.havoc(it, ctx, cells_env, s)
        done = self.spec_done(it, ctx, s)
        is_done = done if isinstance(done, bool) else ctx.branch(done, "already-terminated")
        extra = {"due": IntSV(due)}
        if ident is not None:
            extra["k"] = ident
        if not is_done:
            inv = self.check_inv(it, ctx, uid, member_env, s, extra=extra, more=T.get("inv"))
            ctx.assume(inv if not isinstance(inv, bool) else z3.BoolVal(inv))
        elif getattr(c, "inv_done", None):
            invd = self.check_inv(it, ctx, uid, member_env, s, extra=extra, more=T.get("inv_done", T.get("inv")), base=c.inv_done)
            ctx.assume(invd if not isinstance(invd, bool) else z3.BoolVal(invd))
        if T.get("ghost_inv") and ident is not None:
            g = self.ghost_eval(it, cells_env, s, T["ghost_inv"], ident)
            ctx.assume(g if not isinstance(g, bool) else z3.BoolVal(g))
        gpre = [] if is_done else self.ghost_pre(it, ctx, cells_env, s)
        mpre = [] if is_done else self.member_pre(it, ctx, cells_env, s)
        self.fixed_time = True
        try:
            self.begin_step(w, cells_env, s)
        finally:
            self.fixed_time = False
        # it fires at its due instant, which is not before the previous event
        w.now_term = due
        if "clock" in s.fields:
            ctx.assume(z3.And(due >= it.to_int(s.fields["clock"]), it.to_int(s.fields["clock"]) >= 1))
        if is_done:
            w.trace("observer").terminal = ("X",)
            w.trace("spec_out").terminal = ("X",)
        try:
            it.call(action, [self.env.vars.get("scheduler"), member["state"]], {})
        except PyExc as e:
            self.fail(ctx, uid + "/no-exception-escapes", f"exception escapes into the scheduler: {e.value!r}", kind="exc")
            return
        if is_done:
            self.record(ctx, uid + "/after-termination/no-exception-escapes", True, kind="exc")
            self.after_termination(it, ctx, uid, cells_env, s)
            return
        out = Opaque("observer", "spec_out")
        m = it.class_lookup(s.cls, T["spec"])
        if m is None:
            raise Unsupported(f"spec lacks {T['spec']}")
        nargs = len(m.node.args.args) if hasattr(m, "node") else 2
        self.spec_call(it, s, T["spec"], [out] + ([ident] if ident is not None else ([IntSV(due)] if nargs >= 3 else [])))
        self.compare_traces(ctx, uid + "/out", w.trace("observer"), w.trace("spec_out"))
        self.compare_subscriptions(it, ctx, uid, self.n_subs_before)
        s.fields["clock"] = IntSV(due)
        inv2 = self.check_inv(it, ctx, uid, cells_env, s)
        done2 = self.spec_done(it, ctx, s)
        if not self.record(ctx, uid + "/inv-preserved", natives.mk_or(done2, inv2), kind="inv"):
            ctx.results[-1].detail = self.explain_inv(it, ctx, cells_env, s, done2)
        self.done_established(it, ctx, uid, cells_env, s, done2)
        self.ghost_post(it, ctx, uid, cells_env, s, gpre)
        self.member_post(it, ctx, uid, s, mpre, done2)

    def run_sync_subscribe(self, ctx, srcname, slot):
        """a source that notifies from inside its subscribe call (cold synchronous sources, subjects that replay, empty() / of()
        on an inline scheduler): whatever that notification made the operator subscribe must still be subscribed when subscribe
        returns - the rest of subscribe (e.g. storing the handle of the source that just notified) must not release it"""
        self.sync_fire, self.sync_fired, self.sync_subs = (srcname, slot), False, []
        try:
            try:
                r = self.run_subscribe(ctx)
            except PyExc:
                r = None
            ctx.results.clear()
            if not self.sync_fired or not self.sync_subs:
                raise PathEnd()
            lost = [d for d in self.sync_subs if any(x is d for x in self.w.disposed)]
            nm = ("on_next", "on_error", "on_completed")[slot]
            self.record(ctx, f"{self.c.uid}/subscribe/{srcname}.{nm}-from-inside-subscribe/what-it-subscribed-is-still-subscribed-when-subscribe-returns",
                        not lost, kind="frame",
                        detail=f"released by the rest of subscribe: {[d.name for d in lost]} (the handle of the source that notified was stored over it)")
            _ = r
        finally:
            self.sync_fire = None

    def run_family_sync(self, ctx, fam, slot):
        """a member of a family that notifies from inside its subscribe call (an already resolved AsyncSubject, a BehaviorSubject
        / ReplaySubject, of() / empty() on an inline scheduler): the notification runs the member's handler NESTED in the step
        that is subscribing it.  Whatever the nested handler subscribed or scheduled (the next member, the next queued inner,
        the fallback) must still be live when the outer step returns - the rest of that step (typically: storing the handle of
        the member that has already fired) must not release it."""
        c = self.c
        F = c.families[fam]
        nm = ("on_next", "on_error", "on_completed")[slot]
        uid = f"{c.uid}/{fam}.{nm}-from-inside-its-subscribe"
        self.sync_inner, self.sync_inner_fired, self.sync_inner_made, self.sync_inner_raised = slot, False, [], False
        self.sync_inner_disposed_before = 0
        try:
            if F.get("created_in") == "subscribe":
                try:
                    r = self.run_subscribe(ctx)
                except PyExc:
                    r = None
                ctx.results.clear()
                w = self.w
            else:
                self.sync_inner = None
                r = self.run_subscribe(ctx)
                ctx.results.clear()
                if r is None:
                    raise PathEnd()
                it, w, cells_env, s, handlers = r
                outer = handlers.get(F.get("source", c.sources[0]))
                if outer is None or outer[0] is None:
                    raise PathEnd()
                self.step_uid = uid
                self.havoc(it, ctx, cells_env, s)
                done = self.spec_done(it, ctx, s)
                if done if isinstance(done, bool) else ctx.branch(done, "already-terminated (creation)"):
                    raise PathEnd()
                inv = self.check_inv(it, ctx, uid, cells_env, s)
                ctx.assume(inv if not isinstance(inv, bool) else z3.BoolVal(inv))
                self.begin_step(w, cells_env, s)
                self.sync_inner = slot
                try:
                    it.call(outer[0], [self.make_element(it, ctx)], {})
                except PyExc:
                    pass
                self.in_handler = False
                ctx.results.clear()
            if not self.sync_inner_fired or not self.sync_inner_made:
                raise PathEnd()
            later = w.disposed[self.sync_inner_disposed_before:]
            lost = [d for d in self.sync_inner_made if any(x is d for x in later)]
            self.record(ctx, uid + "/what-the-nested-notification-subscribed-is-still-live-when-the-step-returns", not lost, kind="frame",
                        detail=f"released by the rest of the step that was subscribing the member: {[d.name for d in lost]} "
                               f"(e.g. the handle of the member that has already fired is stored over its successor's)")
        finally:
            self.sync_inner = None

    # -- driver -------------------------------------------------------------------------
    def run(self):
        c = self.c
        t0 = time.time()
        try:
            self._record_functions()
            self.family_mutates = set()
            if c.families and getattr(c, "subjects", False):
                # phase A: which cells do the family handlers change?  (results discarded; phase B checks everything)
                self.family_mutates_found = set()
                for fam in c.families:
                    for slot in (0, 1, 2):
                        explore(lambda ctx, _f=fam, _k=slot: self.run_family_handler(ctx, _f, _k))
                self.family_mutates = set(self.family_mutates_found)
            paths = explore(lambda ctx: self._subscribe_only(ctx))
            self._collect(paths)
            # which handlers exist?
            slots = set()
            for p in paths:
                for (src, n) in getattr(p, "handler_slots", []):
                    slots.add((src, n))
            for (src, slot) in sorted(slots):
                paths = explore(lambda ctx, _s=src, _k=slot: self.run_handler(ctx, _s, _k))
                self._collect(paths)
            for fam in c.families:
                for slot in (0, 1, 2):
                    paths = explore(lambda ctx, _f=fam, _k=slot: self.run_family_handler(ctx, _f, _k))
                    self._collect(paths)
            for fam in c.families:
                for slot in (0, 2):
                    paths = explore(lambda ctx, _f=fam, _k=slot: self.run_family_sync(ctx, _f, _k))
                    self._collect(paths)
            for fam in c.families:
                # ... and the same when the subscribing step is a handler of a member (a completed inner starts the next queued one)
                for slot in (0, 2):
                    for ns in (0, 2):
                        self.nested_sync = ns
                        try:
                            paths = explore(lambda ctx, _f=fam, _k=slot: self.run_family_handler(ctx, _f, _k))
                        finally:
                            self.nested_sync = None
                        self._collect(paths)
            if len(c.sources) > 1 or getattr(c, "late_subscribe", False) or getattr(c, "sync_subscribe", None):
                for srcname in c.sources:
                    for slot in getattr(c, "sync_subscribe", None) or (0, 2):
                        paths = explore(lambda ctx, _s=srcname, _k=slot: self.run_sync_subscribe(ctx, _s, _k))
                        self._collect(paths)
            for tname in getattr(c, "timers", {}):
                paths = explore(lambda ctx, _t=tname: self.run_timer(ctx, _t))
                self._collect(paths)
            if self.lockset and self.lock_sets:
                common = set.intersection(*self.lock_sets)
                self.results.append(Result(f"{c.uid}/lockset/one-common-lock", "proved" if common else "refuted", "lockset", {}, [],
                                           f"locks protecting downstream calls: {sorted(set.union(*self.lock_sets))}; common: {sorted(common)}",
                                           0.0, "lockset"))
        except Unsupported as e:
            self.unsupported = f"{e}"
        except PyExc as e:
            self.unsupported = f"interpreter-level Python exception outside a handler: {e.value!r} {getattr(e.value, 'fields', '')}"
        except RecursionError:
            self.unsupported = "recursion"
        self.seconds = time.time() - t0
        return self

    def _subscribe_only(self, ctx):
        r = self.run_subscribe(ctx)
        ctx.handler_slots = []
        if r is not None:
            for src, hs in r[4].items():
                for i, h in enumerate(hs):
                    # a source subscribed WITHOUT a handler for one of its notifications still sends it: the step is then "nothing happens" (or, for
                    # a missing on_error, the default handler that raises) - and must refine the spec's step all the same
                    if h is not None or any(x is not None for x in hs):
                        ctx.handler_slots.append((src, i))

    def _collect(self, paths):
        for p in paths:
            self.results.extend(p.results)

    def _record_functions(self):
        import ast

        from .loader import all_functions

        node = self.loader.find(self.c.file, self.c.func)
        self.functions[f"{self.c.file}::{self.c.func}"] = self.loader.sha(self.c.file, self.c.func)
        for q, n in all_functions(node, self.c.func):
            self.functions[f"{self.c.file}::{q}"] = self.loader.sha(self.c.file, q)
