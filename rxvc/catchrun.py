"""Native scenario runner for CatchScheduler (replay of C42 violations; bounded).

Runs under /venv/bin/python against the real class over a virtual-time inner scheduler.  A scenario is a
small tree of recursive scheduling (each node: schedule / schedule_relative / schedule_absolute, raises or
not, children scheduled through the scheduler handed to the action) plus periodic subscriptions (fail at
tick k or never), with a handler verdict per exception.  Oracle, straight from the property: the handler
sees exactly the exceptions of the raising actions, each once, in execution order, up to and including the
first one it does not swallow, which is the exception that escapes the run; the order in which actions run
is the order on the bare inner scheduler; a periodic subscription threads its state, stops at a swallowed
failure and never disturbs another one.  BOUNDED: trees of <= 3 nodes / depth <= 2, <= 2 periodic
subscriptions, <= 4 ticks.

usage: catchrun.py replay - C42 '<json opts>'        (search)
       catchrun.py case '<json scenario>'            (one scenario; exit 1 when it violates the oracle)
"""
from __future__ import annotations

import itertools
import json
import os
import sys

VERIF = os.path.dirname(os.path.dirname(os.path.abspath(__file__)))
REPO = os.environ.get("RXVC_REPO", "/repo")
if REPO not in sys.path:
    sys.path.insert(0, REPO)

KINDS = ("schedule", "schedule_relative", "schedule_absolute")


FALSY_EXCEPTIONS = [False]  # set per scenario ("falsy_exceptions": true): the raised exception objects are falsy (an empty aggregate error)


class Boom(Exception):
    def __init__(self, ident):
        super().__init__(ident)
        self.ident = ident

    def __bool__(self):
        return not FALSY_EXCEPTIONS[0]

    def __len__(self):
        return 0 if FALSY_EXCEPTIONS[0] else 1


def do_schedule(s, kind, delay, action):
    from datetime import timedelta
    if kind == "schedule":
        return s.schedule(action)
    if kind == "schedule_relative":
        return s.schedule_relative(timedelta(seconds=delay) if hasattr(s.now, "tzinfo") else delay, action)
    return s.schedule_absolute(s.now + (timedelta(seconds=delay) if hasattr(s.now, "tzinfo") else delay), action)


def plant(s, node, ident, log, raising):
    """schedule `node` on s; its action logs, schedules its children through the scheduler it is handed, then raises"""
    kind, raises, children = node["kind"], node["raises"], node.get("children", [])

    def action(sched, state=None):
        log.append(("run", ident))
        for k, ch in enumerate(children):
            plant(sched, ch, f"{ident}.{k}", log, raising)
        if raises and raising:
            raise Boom(ident)
        return None
    do_schedule(s, kind, node.get("delay", 1), action)


def run_scenario(sc):
    """-> None or a description of the first disagreement with the oracle"""
    from reactivex.scheduler import CatchScheduler, VirtualTimeScheduler
    FALSY_EXCEPTIONS[0] = bool(sc.get("falsy_exceptions"))
    verdicts = sc.get("verdicts", {})
    default = sc.get("default_verdict", True)
    # -- reference: the bare inner scheduler, nothing raises: the order actions run in
    ref_log = []
    inner0 = VirtualTimeScheduler()
    for k, node in enumerate(sc.get("roots", [])):
        plant(inner0, node, str(k), ref_log, raising=False)
    inner0.start()
    ref_order = [i for (_t, i) in ref_log]
    raisers = set()

    def collect(node, ident):
        if node["raises"]:
            raisers.add(ident)
        for k, ch in enumerate(node.get("children", [])):
            collect(ch, f"{ident}.{k}")
    for k, node in enumerate(sc.get("roots", [])):
        collect(node, str(k))
    exp_handler, exp_escape, exp_order = [], None, []
    for i in ref_order:
        exp_order.append(i)
        if i in raisers:
            exp_handler.append(i)
            if not verdicts.get(i, default):
                exp_escape = i
                break
    # -- the real thing
    log, handled = [], []
    inner = VirtualTimeScheduler()

    def handler(ex):
        handled.append(getattr(ex, "ident", repr(ex)))
        return verdicts.get(getattr(ex, "ident", None), default)
    cs = CatchScheduler(inner, handler)
    for k, node in enumerate(sc.get("roots", [])):
        plant(cs, node, str(k), log, raising=True)
    # periodic subscriptions: (fail_at or None)
    ticks = {}
    subs = []
    for p, spec in enumerate(sc.get("periodic", [])):
        ident = f"p{p}"
        ticks[ident] = []

        def paction(state, _id=ident, _fail=spec.get("fail_at")):
            ticks[_id].append(state)
            if _fail is not None and len(ticks[_id]) == _fail:
                raise Boom(_id)
            return (state or 0) + 1
        subs.append(cs.schedule_periodic(1.0, paction, 0))
    n_ticks = sc.get("ticks", 4)
    escaped = None
    try:
        if sc.get("periodic"):
            inner.advance_to(float(n_ticks) + 0.5)
        else:
            inner.start()
    except Boom as e:
        escaped = e.ident
    except Exception as e:  # noqa: BLE001
        escaped = repr(e)
    order = [i for (_t, i) in log]
    if not sc.get("periodic"):
        if order != exp_order:
            return {"what": "actions ran in a different order than on the bare scheduler", "got": order, "expected": exp_order}
        if handled != exp_handler:
            return {"what": "handler calls differ", "got": handled, "expected": exp_handler}
        if escaped != exp_escape:
            return {"what": "escaping exception differs", "got": escaped, "expected": exp_escape}
        return None
    # periodic oracle
    exp_handled = []
    for p, spec in enumerate(sc["periodic"]):
        ident = f"p{p}"
        fail = spec.get("fail_at")
        # with a falsy verdict the exception escapes advance_to: everything after is unspecified
        if fail is not None and fail <= n_ticks and not verdicts.get(ident, default):
            return None if escaped == ident or escaped is not None else {"what": "unswallowed periodic failure did not propagate", "got": escaped}
    for p, spec in enumerate(sc["periodic"]):
        ident = f"p{p}"
        fail = spec.get("fail_at")
        want = list(range(0, min(n_ticks, fail) if fail is not None else n_ticks))
        if ticks[ident] != want:
            return {"what": f"periodic subscription {ident} ran with states {ticks[ident]}, expected {want} "
                            f"(threads its state, stops at its own swallowed failure, undisturbed by the others)"}
        if fail is not None and fail <= n_ticks:
            exp_handled.append(ident)
    if sorted(handled) != sorted(exp_handled):
        return {"what": "handler calls differ", "got": handled, "expected": exp_handled}
    if escaped is not None:
        return {"what": "an exception escaped although every verdict was true", "got": escaped}
    return None


def trees():
    """root lists: <= 3 nodes in total, depth <= 2"""
    def node(kind, raises, children=()):
        return {"kind": kind, "raises": raises, "children": list(children), "delay": 1}
    leaves = [node(k, r) for k in KINDS for r in (False, True)]
    for a in leaves:
        yield [a]
    for a in leaves:
        for b in leaves:
            yield [a, b]
            yield [node(a["kind"], a["raises"], [b])]
    for a in leaves[:4]:
        for b in leaves:
            for c in leaves[::2] + leaves[1::2][:2]:
                yield [node(a["kind"], a["raises"], [node(b["kind"], b["raises"], [c])])]
                yield [node(a["kind"], a["raises"], [b, c])]


def scenarios():
    for roots in trees():
        for default in (True, False):
            yield {"roots": roots, "default_verdict": default}
    # verdicts are judged by their truth value: None and 0 (a handler that only logs) escalate like False, any other object handles like True
    for roots in itertools.islice(trees(), 80):
        for default in (None, 0, "handled"):
            yield {"roots": roots, "default_verdict": default}
    for fa in (1, 2):
        for default in (None, 0, "handled"):
            yield {"periodic": [{"fail_at": fa}], "ticks": 3, "default_verdict": default}
    # the exception OBJECT may be falsy too (an aggregate error with no sub-errors): it is still handed to the handler, whose verdict decides
    for roots in itertools.islice(trees(), 60):
        for default in (True, False):
            yield {"roots": roots, "default_verdict": default, "falsy_exceptions": True}
    for fa in (1, 2):
        for default in (True, False):
            yield {"periodic": [{"fail_at": fa}], "ticks": 3, "default_verdict": default, "falsy_exceptions": True}
    for fa, fb in itertools.product((None, 1, 2, 3), repeat=2):
        for default in (True, False):
            yield {"periodic": [{"fail_at": fa}, {"fail_at": fb}], "ticks": 4, "default_verdict": default}
    for fa in (None, 1, 2):
        yield {"periodic": [{"fail_at": fa}], "ticks": 3, "default_verdict": True}


REPLAY_TEMPLATE = '''#!/venv/bin/python
"""Replay of a violation of property {prop} (CatchScheduler).
obligation: {oid}
scenario: {scenario}
disagreement with the oracle: {what}
Exit 1 when it reproduces on the tree under RXVC_REPO (default /repo)."""
import subprocess, sys
r = subprocess.run(["/venv/bin/python", "{verif}/rxvc/catchrun.py", "case", {scenario!r}])
sys.exit(r.returncode)
'''


def main(argv):
    if argv[0] == "case":
        r = run_scenario(json.loads(argv[1]))
        print(json.dumps({"violation": r}, default=repr))
        sys.exit(1 if r else 0)
    opts = json.loads(argv[3]) if len(argv) > 3 else {}
    cases, found = 0, None
    for sc in scenarios():
        cases += 1
        r = run_scenario(sc)
        if r:
            found = {"scenario": sc, "disagreement": r}
            break
    res = {"cases": cases, "found": [found] if found else []}
    if found and "replay_path" in opts:
        os.makedirs(os.path.dirname(opts["replay_path"]), exist_ok=True)
        with open(opts["replay_path"], "w") as f:
            f.write(REPLAY_TEMPLATE.format(prop=opts.get("prop", "C42"), oid=opts.get("oid", "?"), verif=VERIF,
                                           scenario=json.dumps(found["scenario"]), what=json.dumps(found["disagreement"], default=repr)))
        res["replay"] = opts["replay_path"]
    print(json.dumps(res, default=repr))


if __name__ == "__main__":
    main(sys.argv[1:])
