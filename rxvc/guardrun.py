"""Native fault-injection runner for C09 (replay of K-guard violations; bounded).

Runs under /venv/bin/python.  For every operator of the table and every callback it takes, the callback raises at
its k-th invocation (k = 1..3) while a hot, non-catching source feeds the pipeline; oracle from the property: nothing
escapes into the emitter (or the virtual-time scheduler), and the subscriber receives on_error with that very
exception.  BOUNDED (table of operators x callbacks x k x a fixed input).

usage: guardrun.py replay - <file::function or 'all'> '<json opts>'
       guardrun.py case '<json case>'        (exit 1 when the exception escapes or is not delivered)
"""
from __future__ import annotations

import json
import os
import sys

VERIF = os.path.dirname(os.path.dirname(os.path.abspath(__file__)))
REPO = os.environ.get("RXVC_REPO", "/repo")
if REPO not in sys.path:
    sys.path.insert(0, REPO)


class Boom(Exception):
    pass


class FalsyBoom(Boom):
    """an exception whose truth value is False (an error type carrying a possibly empty list of failed items): still an exception to deliver"""

    def __bool__(self):
        return False

    def __len__(self):
        return 0


#: operator -> (file, expression over `ops`, `rx`, the callbacks cb0.., `inner` (an observable), callback result kinds)
#: result kinds: v (any value), b (bool), k (key), o (observable), i (int comparer), l (list/iterable)
TABLE = {
    "map": ("_map.py", "ops.map(cb0)", "v"),
    "map_indexed": ("_map.py", "ops.map_indexed(cb0)", "v"),
    "starmap": ("__init__.py", "ops.starmap(cb0)", "v"),
    "filter": ("_filter.py", "ops.filter(cb0)", "b"),
    "filter_indexed": ("_filter.py", "ops.filter_indexed(cb0)", "b"),
    "take_while": ("_takewhile.py", "ops.take_while(cb0)", "b"),
    "skip_while": ("_skipwhile.py", "ops.skip_while(cb0)", "b"),
    "distinct/key": ("_distinct.py", "ops.distinct(cb0)", "k"),
    "distinct/comparer": ("_distinct.py", "ops.distinct(None, cb0)", "b"),
    "distinct_until_changed/key": ("_distinctuntilchanged.py", "ops.distinct_until_changed(cb0)", "k"),
    "distinct_until_changed/comparer": ("_distinctuntilchanged.py", "ops.distinct_until_changed(None, cb0)", "b"),
    "scan": ("_scan.py", "ops.scan(cb0, 0)", "v"),
    "reduce": ("_reduce.py", "ops.reduce(cb0, 0)", "v"),
    "count": ("_count.py", "ops.count(cb0)", "b"),
    "sum": ("_sum.py", "ops.sum(cb0)", "n"),
    "average": ("_average.py", "ops.average(cb0)", "n"),
    "min_by/key": ("_minby.py", "ops.min_by(cb0)", "n"),
    "min_by/comparer": ("_minby.py", "ops.min_by(lambda x: x, cb0)", "i"),
    "max_by/comparer": ("_maxby.py", "ops.max_by(lambda x: x, cb0)", "i"),
    "min/comparer": ("_min.py", "ops.min(cb0)", "i"),
    "max/comparer": ("_max.py", "ops.max(cb0)", "i"),
    "to_dict/key": ("_todict.py", "ops.to_dict(cb0)", "k"),
    "to_dict/element": ("_todict.py", "ops.to_dict(lambda x: x, cb0)", "v"),
    "some": ("_some.py", "ops.some(cb0)", "bf"),
    "all": ("_all.py", "ops.all(cb0)", "b"),
    "contains/comparer": ("_contains.py", "ops.contains(99, cb0)", "bf"),
    "find": ("_find.py", "ops.find(cb0)", "bf"),
    "first": ("_first.py", "ops.first(cb0)", "bf"),
    "last": ("_last.py", "ops.last(cb0)", "b"),
    "single": ("_single.py", "ops.single(cb0)", "bf"),
    "flat_map": ("_flatmap.py", "ops.flat_map(cb0)", "o"),
    "concat_map": ("_concatmap.py", "ops.concat_map(cb0)", "o"),
    "switch_map": ("_switchmap.py", "ops.switch_map(cb0)", "o"),
    "group_by/key": ("_groupby.py", "ops.group_by(cb0)", "k"),
    "group_by/element": ("_groupby.py", "ops.group_by(lambda x: x, cb0)", "v"),
    "group_by_until/duration": ("_groupbyuntil.py", "ops.group_by_until(lambda x: x, None, cb0)", "o"),
    "partition": ("_partition.py", "(lambda s: ops.partition(cb0)(s)[0])", "b"),
    "do_action": ("_do.py", "ops.do_action(cb0)", "v"),
    "sequence_equal/comparer": ("_sequenceequal.py", "ops.sequence_equal(rx.of(1, 2, 3, 4), cb0)", "b"),
    "zip_with_iterable": ("_zip.py", "ops.zip_with_iterable([1, 2, 3, 4])", None),
    "window_when": ("_window.py", "ops.window_when(cb0)", "oc"),
    "buffer_when": ("_buffer.py", "ops.buffer_when(cb0)", "oc"),
    "window_toggle/closing": ("_window.py", "ops.window_toggle(opener, cb0)", "oc"),
    "delay_with_mapper": ("_delaywithmapper.py", "ops.delay_with_mapper(cb0)", "o"),
    "debounce_with_mapper": ("_debounce.py", "ops.throttle_with_mapper(cb0)", "o"),
    "timeout_with_mapper": ("_timeoutwithmapper.py", "ops.timeout_with_mapper(rx.never(), cb0)", "o"),
    "expand": ("_expand.py", "ops.expand(cb0)", "oe"),
    "catch/handler": ("_catch.py", "ops.catch(cb0)", "oh"),
    "retry": ("_retry.py", "ops.retry(2)", None),
}


def raw_source():
    from reactivex import Observable
    from reactivex.disposable import Disposable

    class Raw(Observable):
        def __init__(self):
            self.observers = []
            super().__init__(self._sub)

        def _sub(self, observer, scheduler=None):
            self.observers.append(observer)
            return Disposable(lambda: self.observers.remove(observer) if observer in self.observers else None)

        def send(self, kind, v=None):
            for o in list(self.observers):
                getattr(o, kind)(*([v] if kind != "on_completed" else []))
    return Raw()


def make_cb(kind, k, calls, closers, falsy=False):
    import reactivex as rx

    def cb(*a):
        calls.append(a)
        if len(calls) == k:
            raise (FalsyBoom if falsy else Boom)(f"callback call #{k}")
        if kind in ("b",):
            return True
        if kind == "bf":
            return False
        if kind in ("k", "v", "n"):
            return a[0] if a else None
        if kind == "i":
            return 0
        if kind == "o":
            return rx.of(7)
        if kind == "oe":
            return rx.empty()
        if kind == "oh":
            return rx.of(8)
        if kind == "oc":
            c = raw_source()
            closers.append(c)
            return c
        return None
    return cb


def run_case(name, k, falsy=False):
    """-> None or a description of what went wrong"""
    import reactivex as rx
    from reactivex import operators as ops
    _file, expr, kind = TABLE[name]
    if kind is None:
        return None
    calls, closers = [], []
    cb = make_cb(kind, k, calls, closers, falsy)
    src, opener = raw_source(), raw_source()
    env = {"ops": ops, "rx": rx, "cb0": cb, "opener": opener}
    got = {"next": [], "error": [], "completed": 0}
    escaped = []
    try:
        obs = src.pipe(eval(expr, env))
        obs.subscribe(lambda v: (got["next"].append(v), v.subscribe(lambda _x: None, lambda _e: None) if hasattr(v, "subscribe") and name.startswith(("window", "group")) else None),
                      lambda e: got["error"].append(e), lambda: got.__setitem__("completed", got["completed"] + 1))
    except Boom:
        return None  # raised at build / subscribe time: Observable.subscribe's business (C01), not a notification
    steps = [("on_next", 1), ("on_next", 2), ("on_next", 1), ("on_next", 3)]
    if kind == "oh":
        steps = [("on_next", 1), ("on_error", RuntimeError("src"))]
    for (m, v) in steps:
        try:
            if name.startswith("window_toggle") and m == "on_next":
                opener.send("on_next", 0)
            src.send(m, v)
            for c in list(closers):
                closers.remove(c)
                c.send("on_next", 0)
        except Boom as e:
            escaped.append(str(e))
            break
        except Exception as e:  # noqa: BLE001
            escaped.append(repr(e))
            break
    if not escaped:
        try:
            src.send("on_completed")
        except Boom as e:
            escaped.append(str(e))
        except Exception:  # noqa: BLE001
            pass
    if len(calls) < k:
        return None  # the callback was not invoked k times on this input
    if escaped:
        return {"what": "the callback's exception escaped into the emitter", "escaped": escaped[0], "operator": expr, "k": k, "falsy_exception": falsy}
    if name == "do_action":
        pass
    if not (got["error"] and isinstance(got["error"][0], Boom)):
        return {"what": "the subscriber did not receive the callback's exception as on_error" + (" (the exception object is falsy: bool(e) is False)" if falsy else ""),
                "received": repr(got)[:200], "operator": expr, "k": k, "falsy_exception": falsy}
    return None


REPLAY_TEMPLATE = '''#!/venv/bin/python
"""Replay of a violation of property {prop}: a user callback raises and the exception is not delivered as on_error.
obligation: {oid}
operator: {expr}   (the callback raises at its call #{k}; the source is a hot observable that does not catch)
outcome: {what}
Exit 1 when it reproduces on the tree under RXVC_REPO (default /repo)."""
import subprocess, sys
r = subprocess.run(["/venv/bin/python", "{verif}/rxvc/guardrun.py", "case", {case!r}])
sys.exit(r.returncode)
'''


def main(argv):
    if argv[0] == "case":
        c = json.loads(argv[1])
        r = run_case(c["name"], c["k"], c.get("falsy", False))
        print(json.dumps({"violation": r}, default=repr))
        sys.exit(1 if r else 0)
    target = argv[2]
    opts = json.loads(argv[3]) if len(argv) > 3 else {}
    oid = opts.get("oid", "")
    cases, found = 0, None
    names = list(TABLE)
    # the failing obligation names a file: try its operators first
    names.sort(key=lambda n: 0 if TABLE[n][0] in oid or TABLE[n][0] in target else 1)
    only_file = [n for n in names if TABLE[n][0] in oid or TABLE[n][0] in target]
    for n in (only_file or names):
        for k, falsy in ((1, False), (2, False), (3, False), (1, True), (2, True)):
            cases += 1
            r = run_case(n, k, falsy)
            if r:
                found = {"case": {"name": n, "k": k, "falsy": falsy}, "disagreement": r}
                break
        if found:
            break
    res = {"cases": cases, "found": [found] if found else []}
    if found and "replay_path" in opts:
        os.makedirs(os.path.dirname(opts["replay_path"]), exist_ok=True)
        with open(opts["replay_path"], "w") as f:
            f.write(REPLAY_TEMPLATE.format(prop=opts.get("prop", "C09"), oid=oid, verif=VERIF, expr=found["disagreement"]["operator"],
                                           k=found["case"]["k"], what=found["disagreement"]["what"], case=json.dumps(found["case"])))
        res["replay"] = opts["replay_path"]
    print(json.dumps(res, default=repr))


if __name__ == "__main__":
    main(sys.argv[1:])
