"""C19 / C18 (wiring side): function contracts for the pieces around the grouping / windowing operators, on the real code.

  GroupedObservable(key, U, rc)   .key is the key; subscribing an observer subscribes it to U exactly once (same scheduler);
                                  with a ref-count disposable rc it takes exactly ONE share (rc.disposable read once) and the
                                  result holds the share and the subscription: disposing it releases each exactly once,
                                  disposing it again nothing.  Without rc: the result is U's subscription, no share is taken.
  add_ref(xs, r)                  the same wiring for windows: one share of r plus the subscription to xs.
  group_by_(...)                  is source.pipe(group_by_until_(key_mapper, element_mapper, D, subject_mapper)) with the very
                                  mappers it was given, where D(any group) returns never() - groups that do not expire -
                                  and never raises.
  partition_ / partition_indexed_ return exactly two observables, filter(P) and filter(notP) of ONE shared
                                  publish() | ref_count() of the source, where P is the predicate it was given and notP(x)
                                  calls it exactly once with the same arguments and answers the negation of its truth value
                                  (an exception of the predicate propagates unchanged): with the filter contract (C05: keeps
                                  exactly the elements whose predicate is truthy) every element goes to exactly one output.
  buffer_*                        (C18) are the corresponding window_* operators followed by flat_map(to_list) (+ the
                                  documented filter for the count form): "each buffer equals the contents of its window".
Opaque: sources (subscribe is recorded), the ref-count disposable (each read of .disposable is a fresh share), user
predicates (uninterpreted, may raise).  Observable.subscribe is used through its contract (C01): it hands the subscriber - wrapped -
to _subscribe_core and returns what that returns.
"""
from __future__ import annotations

import time

import z3

from . import smt
from .interp import NOTSET, Interp, World, explore
from .loader import Loader, all_functions
from .refine import Result
from .values import SV, BoundMethod, ClassRef, Closure, ListObj, Native, Obj, Opaque, PyExc, Unsupported, ValSV

GFILE = "reactivex/observable/groupedobservable.py"
UFILE = "reactivex/internal/utils.py"
BFILE = "reactivex/operators/_groupby.py"
PFILE = "reactivex/operators/_partition.py"
WFILE = "reactivex/operators/_buffer.py"


class GWorld(World):
    def __init__(self):
        super().__init__()
        self.log = []
        self.n = 0

    def getattr(self, it, o, name):
        if o.kind == "refcount" and name == "disposable":
            self.n += 1
            d = Opaque("disposable", f"share#{self.n}")
            self.log.append(("share", d))
            return d
        return super().getattr(it, o, name)

    def isinstance(self, it, o, cls):
        n = getattr(cls, "name", None)
        if o.kind == "source":
            return n in ("ObservableBase", "Observable")
        return super().isinstance(it, o, cls)

    def call(self, it, o, method, args, kwargs):
        if o.kind == "source" and method == "subscribe":
            self.n += 1
            d = Opaque("disposable", f"sub:{o.name}#{self.n}")
            self.log.append(("subscribe", o, list(args), dict(kwargs), d))
            return d
        if o.kind in ("source", "applied") and method == "pipe":
            cur = o
            for op in args:
                cur = it.call(op, [cur], {})
            return cur
        if o.kind == "disposable" and method == "dispose":
            self.log.append(("dispose", o))
            return None
        if o.kind in ("lock", "logger"):
            return None
        return super().call(it, o, method, args, kwargs)


def _applied(fn, q, args, kwargs):
    """an operator used by contract: `op_(source, args...)` (curry_flip: the body runs with the source first) gives the
    applied pipeline stage; a plain factory `op_(args...)` gives the operator, applied later"""
    a = list(args)
    params = [x.arg for x in (fn.node.args.posonlyargs + fn.node.args.args)]
    if params and params[0] == "source":
        return Opaque("applied", q, op=q, of=a[0], args=a[1:], kwargs=dict(kwargs))
    return Native(q + "-operator", lambda i, a2, k2, _q=q, _a=a, _k=dict(kwargs): Opaque("applied", _q, op=_q, of=a2[0], args=_a, kwargs=_k))


class GroupingHarness:
    def __init__(self, loader=None):
        self.loader = loader or Loader()
        self.results = []
        self.unsupported = None
        self.functions = {}

    def rec(self, ctx, oid, goal, detail=""):
        t0 = time.time()
        if isinstance(goal, bool):
            goal = z3.BoolVal(goal)
        v, m, b = smt.prove(ctx.pc, goal)
        ctx.results.append(Result(oid, v, b, smt.model_to_dict(m), list(ctx.branch_log), detail, time.time() - t0, "post"))

    def setup(self, ctx, hook=None):
        w = self.w = GWorld()
        it = Interp(self.loader, ctx, w)

        def base_hook(it_, f, args, kwargs):
            # Observable.subscribe by contract (C01): the subscriber reaches _subscribe_core, whose result is returned
            if isinstance(f, BoundMethod) and isinstance(f.func, Closure) and f.func.qualname == "Observable.subscribe" and isinstance(f.self_val, Obj):
                core = it.get_attr(f.self_val, "_subscribe_core")
                a = list(args)
                obs = a[0] if a else kwargs.get("on_next")
                return it.call(core, [obs, kwargs.get("scheduler", a[3] if len(a) > 3 else None)], {})
            if hook is not None:
                return hook(it_, f, args, kwargs)
            return NOTSET
        it.call_hook = base_hook
        self.observer = Opaque("observer", "observer")
        self.sched = Opaque("scheduler", "sched")
        return it

    def ev(self, kind):
        return [e for e in self.w.log if e[0] == kind]

    # -- GroupedObservable / add_ref ----------------------------------------------------------------------------------
    def wiring(self, ctx, which):
        it = self.setup(ctx)
        w = self.w
        U = Opaque("source", "underlying")
        rc = Opaque("refcount", "ref_count_disposable")
        key = ctx.fresh("key", "val")
        if which == "add_ref":
            uid = f"{UFILE}::add_ref"
            g = it.call(it.module_get("reactivex.internal.utils", "add_ref"), [U, rc], {})
            shared = True
        else:
            shared = ctx.choose(2, "with a ref-count disposable") == 0
            uid = f"{GFILE}::GroupedObservable[{'shared' if shared else 'plain'}]"
            cls = it.module_get("reactivex.observable.groupedobservable", "GroupedObservable")
            g = it.call(cls, [key, U] + ([rc] if shared else []), {})
            k = it.get_attr(g, "key")
            self.rec(ctx, uid + "/key-is-the-key-it-was-given", isinstance(k, SV) and k.t.eq(key.t))
        self.rec(ctx, uid + "/nothing-is-subscribed-and-no-share-is-taken-at-construction", not w.log)
        w.log.clear()
        try:
            D = it.call(it.get_attr(g, "subscribe"), [self.observer], {"scheduler": self.sched})
        except PyExc as e:
            self.rec(ctx, uid + "/subscribe/no-exception", False, detail=repr(e.value))
            return
        subs, shares = self.ev("subscribe"), self.ev("share")
        ok = len(subs) == 1 and subs[0][1] is U and subs[0][2][:1] == [self.observer]
        self.rec(ctx, uid + "/subscribe/the-observer-is-subscribed-to-the-underlying-subject-exactly-once", ok)
        if which != "add_ref" and ok:
            # add_ref does not pass the scheduler on (a subject ignores it)
            self.rec(ctx, uid + "/subscribe/with-the-same-scheduler", subs[0][3].get("scheduler") is self.sched)
        self.rec(ctx, uid + "/subscribe/takes-exactly-one-share-of-the-ref-counted-subscription" if shared else
                 uid + "/subscribe/takes-no-share", len(shares) == (1 if shared else 0))
        if not ok:
            return
        want = [subs[0][4]] + [s[1] for s in shares]
        if not shared:
            self.rec(ctx, uid + "/subscribe/returns-the-subscription", D is subs[0][4])
            return
        w.log.clear()
        it.call(it.get_attr(D, "dispose"), [], {})
        got = [e[1] for e in self.ev("dispose")]
        self.rec(ctx, uid + "/dispose/releases-the-share-and-the-subscription-each-exactly-once",
                 len(got) == len(want) and all(any(g_ is x for g_ in got) for x in want), detail=f"disposed {[x.name for x in got]}, held {[x.name for x in want]}")
        w.log.clear()
        it.call(it.get_attr(D, "dispose"), [], {})
        self.rec(ctx, uid + "/dispose/a-second-dispose-does-nothing", not w.log)

    # -- group_by_ ----------------------------------------------------------------------------------------------------
    def run_group_by(self, ctx):
        uid = f"{BFILE}::group_by_"
        captured = []

        def hook(it_, f, args, kwargs):
            fn = f.func if isinstance(f, BoundMethod) else f
            q = getattr(fn, "qualname", None) if isinstance(fn, Closure) else None
            if q == "group_by_until_":
                captured.append((list(args), dict(kwargs)))
                return Native("group_by_until-operator", lambda i, a, k: Opaque("applied", "group_by_until(source)", of=a[0]))
            if q in ("never", "never_"):
                return Opaque("never", "never()")
            return NOTSET
        it = self.setup(ctx, hook)
        src = Opaque("source", "source")
        km = Opaque("callback", "key_mapper")
        em = Opaque("callback", "element_mapper") if ctx.choose(2, "element_mapper given") == 0 else None
        sm = Opaque("callback", "subject_mapper") if ctx.choose(2, "subject_mapper given") == 0 else None
        f = it.module_get("reactivex.operators._groupby", "group_by_")
        res = it.call(it.call(f, [km, em, sm], {}), [src], {})
        ok = len(captured) == 1 and isinstance(res, Opaque) and res.kind == "applied" and res.attrs.get("of") is src
        self.rec(ctx, uid + "/is-group_by_until-applied-to-the-source-once", ok)
        if not ok:
            return
        a, kw = captured[0]
        a = a + [None] * (4 - len(a))
        got = {"key_mapper": kw.get("key_mapper", a[0]), "element_mapper": kw.get("element_mapper", a[1]),
               "duration_mapper": kw.get("duration_mapper", a[2]), "subject_mapper": kw.get("subject_mapper", a[3])}
        self.rec(ctx, uid + "/hands-over-the-key-mapper-it-was-given", got["key_mapper"] is km)
        self.rec(ctx, uid + "/hands-over-the-element-mapper-it-was-given", got["element_mapper"] is em)
        self.rec(ctx, uid + "/hands-over-the-subject-mapper-it-was-given", got["subject_mapper"] is sm)
        try:
            d = it.call(got["duration_mapper"], [Opaque("shared", "some group")], {})
        except PyExc as e:
            self.rec(ctx, uid + "/the-duration-of-every-group-is-never()", False, detail=f"raises {e.value!r}")
            return
        self.rec(ctx, uid + "/the-duration-of-every-group-is-never()", isinstance(d, Opaque) and d.kind == "never",
                 detail=f"duration_mapper returns {d!r}: groups of group_by do not expire")

    # -- partition ------------------------------------------------------------------------------------------------------
    def run_partition(self, ctx, indexed):
        fname = "partition_indexed_" if indexed else "partition_"
        uid = f"{PFILE}::{fname}"

        def hook(it_, f, args, kwargs):
            fn = f.func if isinstance(f, BoundMethod) else f
            q = getattr(fn, "qualname", None) if isinstance(fn, Closure) else None
            if q in ("publish_", "ref_count_", "filter_", "filter_indexed_", "share_"):
                return _applied(fn, q, args, kwargs)
            return NOTSET
        it = self.setup(ctx, hook)
        src = Opaque("source", "source")
        pred = Opaque("callback", "predicate")
        f = it.module_get("reactivex.operators._partition", fname)
        res = it.call(it.call(f, [pred], {}), [src], {})
        ok = isinstance(res, ListObj) and not res.symbolic and len(res.items) == 2 and all(isinstance(x, Opaque) and x.kind == "applied" for x in res.items)
        self.rec(ctx, uid + "/returns-exactly-two-observables", ok)
        if not ok:
            return
        a, b = res.items
        want = "filter_indexed_" if indexed else "filter_"
        self.rec(ctx, uid + "/both-are-filters", a.attrs["op"] == want and b.attrs["op"] == want)
        pub = a.attrs["of"]
        shape = (isinstance(pub, Opaque) and pub.kind == "applied" and pub.attrs["op"] == "ref_count_" and not [x for x in pub.attrs["args"] if x is not None]
                 and isinstance(pub.attrs["of"], Opaque) and pub.attrs["of"].attrs.get("op") == "publish_"
                 and not [x for x in pub.attrs["of"].attrs["args"] if x is not None] and pub.attrs["of"].attrs["of"] is src)
        self.rec(ctx, uid + "/both-filter-ONE-shared-publish|ref_count-of-the-source", shape and b.attrs["of"] is pub)
        self.rec(ctx, uid + "/the-first-output-filters-by-the-predicate-itself", len(a.attrs["args"]) == 1 and a.attrs["args"][0] is pred)
        notp = b.attrs["args"][0] if len(b.attrs["args"]) == 1 else None
        if notp is None or notp is pred:
            self.rec(ctx, uid + "/the-second-output-filters-by-the-negation", False)
            return
        xs = [ctx.fresh("x", "val")] + ([ctx.fresh("i", "int")] if indexed else [])
        n0 = len(it.world.events)
        try:
            r = it.call(notp, xs, {})
        except PyExc as e:
            calls = [e_ for e_ in it.world.events[n0:] if e_[0] == "cb"]
            raised = [e_ for e_ in it.world.events[n0:] if e_[0] == "cb_raised"]
            self.rec(ctx, uid + "/the-negation/an-exception-of-the-predicate-propagates-unchanged", len(calls) == 1 and len(raised) == 1 and isinstance(e.value, SV))
            return
        calls = [e_ for e_ in it.world.events[n0:] if e_[0] == "cb"]
        want_args = tuple(it.to_val(v) for v in xs)
        self.rec(ctx, uid + "/the-negation/calls-the-predicate-exactly-once-with-the-same-arguments",
                 len(calls) == 1 and len(calls[0][2]) == len(want_args) and all(p.eq(q) for p, q in zip(calls[0][2], want_args)))
        t = it.truth_term(r)
        fn = z3.Function(f"predicate/{len(xs)}", *([smt.Val] * len(xs)), smt.Val)
        self.rec(ctx, uid + "/the-negation/is-true-exactly-when-the-predicate-is-falsy",
                 (t if not isinstance(t, bool) else z3.BoolVal(t)) == z3.Not(smt.truthy(fn(*want_args))))

    # -- buffers are the windows collected into lists (C18) -------------------------------------------------------------
    def run_buffer(self, ctx, fname):
        uid = f"{WFILE}::{fname}"

        def hook(it_, f, args, kwargs):
            fn = f.func if isinstance(f, BoundMethod) else f
            q = getattr(fn, "qualname", None) if isinstance(fn, Closure) else None
            if q in ("window_", "window_when_", "window_toggle_", "window_with_count_", "window_with_time_", "window_with_time_or_count_", "flat_map_", "filter_",
                     "to_list_", "to_iterable_"):
                return _applied(fn, q, args, kwargs)
            return NOTSET
        it = self.setup(ctx, hook)
        src = Opaque("source", "source")
        modname = {"buffer_with_time_": "reactivex.operators._bufferwithtime", "buffer_with_time_or_count_": "reactivex.operators._bufferwithtimeorcount"}.get(fname, "reactivex.operators._buffer")
        if modname != "reactivex.operators._buffer":
            uid = f"{modname.replace('.', '/')}.py::{fname}"
        f = it.module_get(modname, fname)
        timed = None
        if fname == "buffer_with_time_":
            span = ctx.fresh("timespan", "int")
            ctx.assume(span.t >= 1)
            shift = ctx.fresh("timeshift", "int") if ctx.choose(2, "timeshift given") == 0 else None
            if shift is not None:
                ctx.assume(shift.t >= 1)
            args, wname = [span, shift, self.sched], "window_with_time_"
            timed = [span, shift if shift is not None else span, self.sched]
        elif fname == "buffer_with_time_or_count_":
            span, cnt = ctx.fresh("timespan", "int"), ctx.fresh("count", "int")
            args, wname = [span, cnt, self.sched], "window_with_time_or_count_"
            timed = [span, cnt, self.sched]
        elif fname == "buffer_":
            args, wname = [Opaque("source", "boundaries")], "window_"
        elif fname == "buffer_when_":
            args, wname = [Opaque("callback", "closing_mapper")], "window_when_"
        elif fname == "buffer_toggle_":
            args, wname = [Opaque("source", "openings"), Opaque("callback", "closing_mapper")], "window_toggle_"
        else:
            count = ctx.fresh("count", "int")
            given = ctx.choose(2, "skip given") == 0
            skip = ctx.fresh("skip", "int") if given else None
            args, wname = [count, skip], "window_with_count_"
        res = it.call(it.call(f, args, {}), [src], {})
        chain = []
        cur = res
        while isinstance(cur, Opaque) and cur.kind == "applied":
            chain.append(cur)
            cur = cur.attrs["of"]
        chain.reverse()
        ops_ = [c.attrs["op"] for c in chain]
        self.rec(ctx, uid + "/starts-from-the-source", cur is src)
        want = [wname, "flat_map_"] + (["filter_"] if fname == "buffer_with_count_" else [])
        self.rec(ctx, uid + f"/is-{wname}-then-flat_map(to_list)" + ("-then-filter" if len(want) == 3 else ""), ops_ == want, detail=f"pipeline: {ops_}")
        if ops_ != want:
            return
        wa = chain[0].attrs["args"]
        if timed is not None:
            def eq(x, y):
                if isinstance(x, SV) and isinstance(y, SV):
                    v, _m, _b = smt.prove(ctx.pc, x.t == y.t)
                    return v == "proved"
                return x is y
            wa2 = list(wa) + [chain[0].attrs["kwargs"].get(n) for n in ("timespan", "timeshift", "count", "scheduler")][len(wa):len(wa)]
            self.rec(ctx, uid + "/the-windows-use-the-same-timespan-shift-or-count-and-scheduler", len(wa2) == 3 and all(eq(x, y) for x, y in zip(wa2, timed)),
                     detail=f"window operator arguments: {wa2}")
        elif fname == "buffer_with_count_":
            # the window operator gets the same count and the same skip (skip None: count)
            ok = len(wa) >= 1 and isinstance(wa[0], SV) and wa[0].t.eq(args[0].t)
            sk = wa[1] if len(wa) > 1 else chain[0].attrs["kwargs"].get("skip")
            if given:
                ok = ok and isinstance(sk, SV) and sk.t.eq(args[1].t)
            else:
                ok = ok and (sk is None or (isinstance(sk, SV) and sk.t.eq(args[0].t)))
            self.rec(ctx, uid + "/the-windows-use-the-same-count-and-skip", ok)
        else:
            self.rec(ctx, uid + "/the-windows-use-the-very-arguments-it-was-given", len(wa) == len(args) and all(x is y for x, y in zip(wa, args)))
        # flat_map's mapper turns a window into the list of its contents
        m = chain[1].attrs["args"][0] if chain[1].attrs["args"] else None
        win = Opaque("source", "a window")
        try:
            r = it.call(m, [win], {})
        except (PyExc, Unsupported) as e:
            self.rec(ctx, uid + "/every-window-is-collected-into-a-list", False, detail=str(e))
            return
        cur, ops2 = r, []
        while isinstance(cur, Opaque) and cur.kind == "applied":
            ops2.append(cur.attrs["op"])
            cur = cur.attrs["of"]
        self.rec(ctx, uid + "/every-window-is-collected-into-a-list", cur is win and ops2 in (["to_list_"], ["to_iterable_"]), detail=f"{ops2}")
        if len(want) == 3:
            # the documented filter of the count form keeps the non-empty lists
            p = chain[2].attrs["args"][0]
            for n in (0, 1, 2):
                lst = ListObj([ctx.fresh(f"e{i}", "val") for i in range(n)])
                t = it.truth_term(it.call(p, [lst], {}))
                self.rec(ctx, uid + f"/the-final-filter-keeps-exactly-the-non-empty-buffers[len={n}]", (t is True or (not isinstance(t, bool) and z3.is_true(z3.simplify(t)))) == (n > 0))

    # -- window_toggle is group_join over the openings (C18) --------------------------------------------------------------
    def run_toggle(self, ctx):
        uid = "reactivex/operators/_window.py::window_toggle_"
        captured = []

        def hook(it_, f, args, kwargs):
            fn = f.func if isinstance(f, BoundMethod) else f
            q = getattr(fn, "qualname", None) if isinstance(fn, Closure) else None
            if q == "group_join_":
                captured.append((list(args), dict(kwargs)))
                return Native("group_join-operator", lambda i, a, k: Opaque("applied", "group_join", op="group_join_", of=a[0], args=list(args)))
            if q == "map_":
                return _applied(fn, q, args, kwargs)
            if q in ("empty", "empty_"):
                return Opaque("empty", "empty()")
            return NOTSET
        it = self.setup(ctx, hook)
        src, opn = Opaque("source", "source"), Opaque("source", "openings")
        cm = Opaque("callback", "closing_mapper")
        f = it.module_get("reactivex.operators._window", "window_toggle_")
        res = it.call(it.call(f, [opn, cm], {}), [src], {})
        ok = (isinstance(res, Opaque) and res.kind == "applied" and res.attrs["op"] == "map_" and isinstance(res.attrs["of"], Opaque)
              and res.attrs["of"].attrs.get("op") == "group_join_" and res.attrs["of"].attrs["of"] is opn and len(captured) == 1)
        self.rec(ctx, uid + "/is-group_join-over-the-openings-then-map", ok)
        if not ok:
            return
        a, kw = captured[0]
        a = a + [None] * (3 - len(a))
        right, ldur, rdur = kw.get("right", a[0]), kw.get("left_duration_mapper", a[1]), kw.get("right_duration_mapper", a[2])
        self.rec(ctx, uid + "/the-source-is-the-joined-side-and-a-window-lives-as-long-as-closing_mapper(opening)", right is src and ldur is cm)
        try:
            d = it.call(rdur, [ctx.fresh("x", "val")], {})
        except PyExc as e:
            d = e
        self.rec(ctx, uid + "/a-source-element-is-only-offered-to-the-windows-open-when-it-arrives (its own duration is empty())",
                 isinstance(d, Opaque) and d.kind == "empty")
        m = res.attrs["args"][0] if res.attrs["args"] else None
        win = Opaque("shared", "a window")
        r = it.call(m, [(ctx.fresh("opening", "val"), win)], {})
        self.rec(ctx, uid + "/what-is-handed-downstream-is-the-window-itself", r is win)

    # -- sample(period / sampler) is sample_observable over the sampler / over interval(period) (C16) ----------------------------
    def run_sample(self, ctx):
        uid = "reactivex/operators/_sample.py::sample_"
        captured = []

        def hook(it_, f, args, kwargs):
            fn = f.func if isinstance(f, BoundMethod) else f
            q = getattr(fn, "qualname", None) if isinstance(fn, Closure) else None
            if q == "sample_observable":
                captured.append((list(args), dict(kwargs)))
                return Opaque("applied", "sample_observable")
            if q in ("interval", "interval_"):
                a = list(args) + [None] * (2 - len(args))
                return Opaque("interval", "interval(...)", period=kwargs.get("period", a[0]), scheduler=kwargs.get("scheduler", a[1]))
            return NOTSET
        it = self.setup(ctx, hook)
        src = Opaque("source", "source")
        by_observable = ctx.choose(2, "the sampler is an observable") == 0
        sampler = Opaque("source", "sampler") if by_observable else ctx.fresh("period", "int")
        f = it.module_get("reactivex.operators._sample", "sample_")
        res = it.call(it.call(f, [sampler, self.sched], {}), [src], {})
        ok = len(captured) == 1 and isinstance(res, Opaque) and res.name == "sample_observable"
        self.rec(ctx, uid + "/is-sample_observable-applied-once", ok)
        if not ok:
            return
        a, kw = captured[0]
        a = a + [None] * (2 - len(a))
        s0, s1 = kw.get("source", a[0]), kw.get("sampler", a[1])
        self.rec(ctx, uid + "/samples-the-source-it-was-given", s0 is src)
        if by_observable:
            self.rec(ctx, uid + "/an-observable-sampler-is-used-as-it-is", s1 is sampler)
        else:
            okp = isinstance(s1, Opaque) and s1.kind == "interval" and isinstance(s1.attrs["period"], SV) and s1.attrs["period"].t.eq(sampler.t) and s1.attrs["scheduler"] is self.sched
            self.rec(ctx, uid + "/a-period-samples-at-interval(period)-on-the-given-scheduler", okp,
                     detail="the ticks of interval(period) are the C35 contract: one tick every period, the first one period after subscription")

    # -- K8 lemma: the closed forms of the window_with_count spec are the property's wording ----------------------------------
    def run_count_lemma(self, ctx):
        """specs/c18.py:window_with_count.valid says: when element n arrives, windows closed(n) .. opened(n)-1 are open, with
        opened(n) = n // skip + 1 and closed(n) = 0 if n < count else (n - count) // skip + 1.  Lemma: window k is among them
        iff k*skip <= n <= k*skip + count - 1 (for all n >= 0, k >= 0, count >= 1, skip >= 1; Python's // on non-negative ints)."""
        n, c, sk, k = z3.Ints("n count skip k")
        pre = [n >= 0, c >= 1, sk >= 1, k >= 0]
        opened = n / sk + 1
        closed = z3.If(n < c, 0, (n - c) / sk + 1)
        among = z3.And(closed <= k, k < opened)
        holds = z3.And(k * sk <= n, n <= k * sk + c - 1)
        uid = "specs/c18.py::window_with_count/lemma"
        for name, goal in (("window-k-is-open-at-element-n-only-if-k*skip<=n<=k*skip+count-1", z3.Implies(among, holds)),
                           ("window-k-is-open-at-element-n-if-k*skip<=n<=k*skip+count-1", z3.Implies(holds, among))):
            t0 = time.time()
            v, m, b = smt.prove(pre, goal)
            ctx.results.append(Result(f"{uid}/{name}", v, b, smt.model_to_dict(m), [], "", time.time() - t0, "lemma"))

    def run(self, which):
        t0 = time.time()
        try:
            todo = []
            if which == "C16":
                self.note("reactivex/operators/_sample.py", "sample_")
                todo = [self.run_sample]
            elif which == "C19":
                for rel, fn in ((GFILE, "GroupedObservable"), (UFILE, "add_ref"), (BFILE, "group_by_"), (PFILE, "partition_"), (PFILE, "partition_indexed_")):
                    self.note(rel, fn)
                todo = [lambda c: self.wiring(c, "grouped"), lambda c: self.wiring(c, "add_ref"), self.run_group_by,
                        lambda c: self.run_partition(c, False), lambda c: self.run_partition(c, True)]
            else:
                for rel, fn in ((UFILE, "add_ref"), (WFILE, "buffer_"), (WFILE, "buffer_when_"), (WFILE, "buffer_toggle_"), (WFILE, "buffer_with_count_"),
                                ("reactivex/operators/_bufferwithtime.py", "buffer_with_time_"), ("reactivex/operators/_bufferwithtimeorcount.py", "buffer_with_time_or_count_"),
                                ("reactivex/operators/_window.py", "window_toggle_")):
                    self.note(rel, fn)
                todo = [lambda c: self.wiring(c, "add_ref"), self.run_toggle, self.run_count_lemma] + [lambda c, _f=fn: self.run_buffer(c, _f) for fn in (
                    "buffer_", "buffer_when_", "buffer_toggle_", "buffer_with_count_", "buffer_with_time_", "buffer_with_time_or_count_")]
            for f in todo:
                for p in explore(f):
                    self.results.extend(p.results)
        except Unsupported as e:
            self.unsupported = str(e)
        except PyExc as e:
            self.unsupported = f"interpreter-level exception: {e.value!r} {getattr(e.value, 'fields', '')}"
        self.seconds = time.time() - t0
        return self

    def note(self, rel, fn):
        node = self.loader.find(rel, fn)
        self.functions[f"{rel}::{fn}"] = self.loader.sha(rel, fn)
        for q, n in all_functions(node, fn):
            self.functions[f"{rel}::{q}"] = self.loader.sha(rel, q)


MUTANTS = {
    GFILE: {
        "no share taken": ("merged_disposable.disposable if merged_disposable else Disposable()", "Disposable()"),
        "share not held": ("            return CompositeDisposable(\n                merged_disposable.disposable if merged_disposable else Disposable(),\n                underlying_observable.subscribe(observer, scheduler=scheduler),\n            )",
                           "            merged_disposable.disposable\n            return underlying_observable.subscribe(observer, scheduler=scheduler)"),
    },
    BFILE: {
        "groups expire at once": ("        return reactivex.never()", "        return reactivex.empty()"),
        "element mapper dropped": ("ops.group_by_until(key_mapper, element_mapper, duration_mapper, subject_mapper)", "ops.group_by_until(key_mapper, None, duration_mapper, subject_mapper)"),
    },
    PFILE: {
        "second output not negated": ("        published.pipe(ops.filter(not_predicate)),", "        published.pipe(ops.filter(predicate)),"),
        "two source subscriptions": ("    return [\n        published.pipe(ops.filter(predicate)),", "    return [\n        source.pipe(ops.filter(predicate)),"),
        "negation by identity": ("        return not predicate(x)\n", "        return predicate(x) is False\n"),
    },
}


def must_fail(which):
    out = {"mutants": 0, "killed": 0, "survivors": []}
    if which == "C16":
        rel = "reactivex/operators/_sample.py"
        src = Loader().load_file(rel).src
        for name, (a, b) in {"the scheduler is dropped": ("reactivex.interval(sampler, scheduler=scheduler)", "reactivex.interval(sampler)"),
                             "source and sampler swapped": ("return sample_observable(source, sampler)", "return sample_observable(sampler, source)")}.items():
            if a not in src:
                continue
            ld = Loader()
            ld.overrides = {rel: src.replace(a, b, 1)}
            h = GroupingHarness(ld).run(which)
            out["mutants"] += 1
            if h.unsupported or any(r.verdict == "refuted" for r in h.results):
                out["killed"] += 1
            else:
                out["survivors"].append(f"{rel}: {name}")
        return out
    if which != "C19":
        return out
    for rel, ms in MUTANTS.items():
        src = Loader().load_file(rel).src
        for name, (a, b) in ms.items():
            if a not in src:
                continue
            ld = Loader()
            ld.overrides = {rel: src.replace(a, b, 1)}
            h = GroupingHarness(ld).run(which)
            out["mutants"] += 1
            if h.unsupported or any(r.verdict == "refuted" for r in h.results):
                out["killed"] += 1
            else:
                out["survivors"].append(f"{rel}: {name}")
    return out


def run_unit(desc):
    which = desc["prop"] if desc["prop"] in ("C16", "C18", "C19") else "C19"
    h = GroupingHarness().run(which)
    res = [r.as_dict() for r in h.results]
    rep = {
        "unit": "grouping-wiring/" + which,
        "kind": "function contracts for the wiring around grouping / windowing operators",
        "functions": h.functions,
        "results": res,
        "unsupported": h.unsupported,
        "spec_validation": [],
        "bounded": [],
        "replayable": {"runner": "winrun.py", "module": "-", "name": which},
    }
    if desc.get("tier") == "thorough" and not h.unsupported:
        mf = must_fail(which)
        rep["must_fail"] = dict(mf, unit=rep["unit"])
        if mf["mutants"] and mf["killed"] < mf["mutants"]:
            rep["crash"] = f"vacuity: must-fail mutants survived: {mf['survivors']}"
    if h.unsupported:
        import json
        import os
        from .report import native, VERIF, REPLAY_DIR
        r, err = native([os.path.join(VERIF, "rxvc", "winrun.py"), "replay", "-", which,
                         json.dumps({"max_len": 2, "replay_path": os.path.join(REPLAY_DIR, f"{which}-standin-wiring.py"), "prop": which,
                                     "oid": rep["unit"] + "/bounded-standin"})], timeout=600)
        st = r if r is not None else {"found": [], "error": err, "cases": 0}
        rep["standin"] = st
        rep["bounded"].append({"function": rep["unit"], "bound": "winrun.py grid (timelines of <= 2 elements x parameter grid)", "cases": st.get("cases", 0),
                               "mismatches": len(st.get("found", [])), "role": "stand-in (out of subset)"})
    return rep
