"""Native metamorphic runner for C08 (replay of K-opacity violations; bounded).

Runs under /venv/bin/python.  Every pipeline of the table is run twice on "the same" input: once over distinct
truthy tokens and once over falsy values (None, 0, '', (), [], {} - pairwise unequal) put in their place.  The
property says elements are opaque, so the second output must be the first one with every token replaced by its
falsy twin (recursively through tuples and lists), with the same terminal.  BOUNDED (table x input sequences of
length <= 4 drawn from the six values, including repetitions).

usage: falsyrun.py replay - <module path or 'all'> '<json opts>'
       falsyrun.py case '<json case>'         (exit 1 when the two runs differ)
"""
from __future__ import annotations

import itertools
import json
import os
import sys

VERIF = os.path.dirname(os.path.dirname(os.path.abspath(__file__)))
REPO = os.environ.get("RXVC_REPO", "/repo")
if REPO not in sys.path:
    sys.path.insert(0, REPO)

FALSY = [None, 0, "", (), [], {}]
HASHABLE = [None, 0, "", ()]
TOKENS = ["t0", "t1", "t2", "t3", "t4", "t5"]

#: name -> (file it mostly exercises, builder source: lambda rx, ops, xs, S -> observable | callable(run) , needs hashable)
TABLE = {
    "take": ("operators/_take.py", "rx.from_iterable(xs).pipe(ops.take(2))", False),
    "skip": ("operators/_skip.py", "rx.from_iterable(xs).pipe(ops.skip(1))", False),
    "take_last": ("operators/_takelast.py", "rx.from_iterable(xs).pipe(ops.take_last(2))", False),
    "skip_last": ("operators/_skiplast.py", "rx.from_iterable(xs).pipe(ops.skip_last(1))", False),
    "take_last_buffer": ("operators/_takelastbuffer.py", "rx.from_iterable(xs).pipe(ops.take_last_buffer(2))", False),
    "pairwise": ("operators/_pairwise.py", "rx.from_iterable(xs).pipe(ops.pairwise())", False),
    "default_if_empty": ("operators/_defaultifempty.py", "rx.from_iterable(xs[:0]).pipe(ops.default_if_empty(xs[0] if xs else None))", False),
    "last": ("operators/_last.py", "rx.from_iterable(xs).pipe(ops.last())", False),
    "first": ("operators/_first.py", "rx.from_iterable(xs).pipe(ops.first())", False),
    "last_or_default": ("operators/_lastordefault.py", "rx.from_iterable(xs).pipe(ops.last_or_default('D'))", False),
    "first_or_default": ("operators/_firstordefault.py", "rx.from_iterable(xs).pipe(ops.first_or_default(None, 'D'))", False),
    "single_or_default": ("operators/_singleordefault.py", "rx.from_iterable(xs[:1]).pipe(ops.single_or_default(None, 'D'))", False),
    "element_at": ("operators/_elementatordefault.py", "rx.from_iterable(xs).pipe(ops.element_at_or_default(1, 'D'))", False),
    "to_list": ("operators/_toiterable.py", "rx.from_iterable(xs).pipe(ops.to_list())", False),
    "buffer_with_count": ("operators/_buffer.py", "rx.from_iterable(xs).pipe(ops.buffer_with_count(2))", False),
    "window_with_count": ("operators/_windowwithcount.py", "rx.from_iterable(xs).pipe(ops.window_with_count(2), ops.flat_map(lambda w: w.pipe(ops.to_list())))", False),
    "distinct_until_changed": ("operators/_distinctuntilchanged.py", "rx.from_iterable(xs).pipe(ops.distinct_until_changed())", False),
    "distinct": ("operators/_distinct.py", "rx.from_iterable(xs).pipe(ops.distinct())", False),
    "start_with": ("operators/_startswith.py", "rx.from_iterable(xs[1:]).pipe(ops.start_with(*xs[:1]))", False),
    "scan": ("operators/_scan.py", "rx.from_iterable(xs).pipe(ops.scan(lambda a, x: x))", False),
    "scan_seed": ("operators/_scan.py", "rx.from_iterable(xs[1:]).pipe(ops.scan(lambda a, x: (a, x), xs[0] if xs else None))", False),
    "reduce": ("operators/_reduce.py", "rx.from_iterable(xs).pipe(ops.reduce(lambda a, x: x))", False),
    "reduce_seed": ("operators/_reduce.py", "rx.from_iterable(xs[1:]).pipe(ops.reduce(lambda a, x: (a, x), xs[0] if xs else None))", False),
    "materialize": ("operators/_materialize.py", "rx.from_iterable(xs).pipe(ops.materialize(), ops.dematerialize())", False),
    "map_identity": ("operators/_map.py", "rx.from_iterable(xs).pipe(ops.map(lambda x: x))", False),
    "filter_true": ("operators/_filter.py", "rx.from_iterable(xs).pipe(ops.filter(lambda x: True))", False),
    "contains": ("operators/_contains.py", "rx.from_iterable(xs[1:]).pipe(ops.contains(xs[0] if xs else None))", False),
    "is_empty": ("operators/_isempty.py", "rx.from_iterable(xs).pipe(ops.is_empty())", False),
    "count": ("operators/_count.py", "rx.from_iterable(xs).pipe(ops.count())", False),
    "min_by": ("operators/_minby.py", "rx.from_iterable(xs).pipe(ops.min_by(lambda x: 0))", False),
    "to_set": ("operators/_toset.py", "rx.from_iterable(xs).pipe(ops.to_set(), ops.map(lambda s: sorted(map(repr, s))))", True),
    "to_dict": ("operators/_todict.py", "rx.from_iterable(xs).pipe(ops.to_dict(lambda x: x), ops.map(lambda d: list(d.items())))", True),
    "group_by": ("operators/_groupby.py", "rx.from_iterable(xs).pipe(ops.group_by(lambda x: x), ops.flat_map(lambda g: g.pipe(ops.to_list())))", True),
    "sequence_equal": ("operators/_sequenceequal.py", "rx.from_iterable(xs).pipe(ops.sequence_equal(list(xs)))", False),
    "zip": ("observable/zip.py", "rx.zip(rx.from_iterable(xs), rx.from_iterable(xs[::-1]))", False),
    "zip_with_iterable": ("operators/_zip.py", "rx.from_iterable(xs).pipe(ops.zip_with_iterable(list(xs[::-1])))", False),
    "combine_latest": ("observable/combinelatest.py", "rx.combine_latest(rx.from_iterable(xs[:2]), rx.from_iterable(xs[2:]))", False),
    "with_latest_from": ("observable/withlatestfrom.py", "rx.from_iterable(xs[1:]).pipe(ops.with_latest_from(rx.from_iterable(xs[:1]).pipe(ops.concat(rx.never()))))", False),
    "fork_join": ("observable/forkjoin.py", "rx.fork_join(rx.from_iterable(xs[:2]), rx.from_iterable(xs[2:]))", False),
    "merge": ("operators/_merge.py", "rx.merge(rx.from_iterable(xs[:2]), rx.from_iterable(xs[2:]))", False),
    "concat": ("observable/concat.py", "rx.concat(rx.from_iterable(xs[:2]), rx.from_iterable(xs[2:]))", False),
    "amb": ("operators/_amb.py", "rx.from_iterable(xs).pipe(ops.amb(rx.never()))", False),
    "switch_latest": ("operators/_switchlatest.py", "rx.from_iterable([rx.from_iterable(xs)]).pipe(ops.switch_latest())", False),
    "catch": ("operators/_catch.py", "rx.from_iterable(xs).pipe(ops.concat(rx.throw(Exception('e'))), ops.catch(rx.from_iterable(xs)))", False),
    "repeat": ("operators/_repeat.py", "rx.from_iterable(xs).pipe(ops.repeat(2))", False),
    "return_value": ("observable/returnvalue.py", "rx.return_value(xs[0] if xs else None)", False),
    "of": ("observable/fromiterable.py", "rx.of(*xs)", False),
    "repeat_value": ("observable/repeat.py", "rx.repeat_value(xs[0] if xs else None, 2)", False),
    "generate": ("observable/generate.py", "rx.generate(0, lambda i: i < len(xs), lambda i: i + 1).pipe(ops.map(lambda i: xs[i]))", False),
    "delay": ("operators/_delay.py", "rx.from_iterable(xs).pipe(ops.delay(1.0))", False),
    "debounce": ("operators/_debounce.py", "rx.from_iterable(xs).pipe(ops.debounce(1.0))", False),
    "sample": ("operators/_sample.py", "rx.from_iterable(xs).pipe(ops.concat(rx.never()), ops.sample(1.0), ops.take(1))", False),
    "timestamp": ("operators/_timestamp.py", "rx.from_iterable(xs).pipe(ops.timestamp(), ops.map(lambda t: t.value))", False),
    "time_interval": ("operators/_timeinterval.py", "rx.from_iterable(xs).pipe(ops.time_interval(), ops.map(lambda t: t.value))", False),
    "take_last_with_time": ("operators/_takelastwithtime.py", "rx.from_iterable(xs).pipe(ops.take_last_with_time(100.0))", False),
    "skip_last_with_time": ("operators/_skiplastwithtime.py", "rx.from_iterable(xs).pipe(ops.skip_last_with_time(0.0))", False),
    "buffer_with_time": ("operators/_bufferwithtime.py", "rx.from_iterable(xs).pipe(ops.buffer_with_time(100.0))", False),
    "delay_subscription": ("operators/_delaysubscription.py", "rx.from_iterable(xs).pipe(ops.delay_subscription(1.0))", False),
    "observe_on": ("operators/_observeon.py", "rx.from_iterable(xs).pipe(ops.observe_on(S))", False),
    "publish_value": ("operators/_publishvalue.py", "rx.never().pipe(ops.publish_value(xs[0] if xs else None), ops.ref_count(), ops.take(1))", False),
    "replay": ("operators/_replay.py", "SUBJECT:replay", False),
    "behavior_subject": ("subject/behaviorsubject.py", "SUBJECT:behavior", False),
    "async_subject": ("subject/asyncsubject.py", "SUBJECT:async", False),
    "subject": ("subject/subject.py", "SUBJECT:plain", False),
}


def run_pipeline(name, xs):
    import reactivex as rx
    from reactivex import operators as ops
    from reactivex.scheduler import VirtualTimeScheduler
    from reactivex.subject import AsyncSubject, BehaviorSubject, ReplaySubject, Subject
    S = VirtualTimeScheduler()
    out = []
    expr = TABLE[name][1]

    def rec():
        return (lambda v: out.append(("N", v)), lambda e: out.append(("E", type(e).__name__)), lambda: out.append(("C",)))
    try:
        if expr.startswith("SUBJECT:"):
            kind = expr.split(":")[1]
            if kind == "behavior":
                s = BehaviorSubject(xs[0] if xs else None)
                feed = xs[1:]
            elif kind == "replay":
                s, feed = ReplaySubject(2), xs
            elif kind == "async":
                s, feed = AsyncSubject(), xs
            else:
                s, feed = Subject(), xs
            s.subscribe(*rec())
            for x in feed:
                s.on_next(x)
            s.subscribe(*rec())  # a late subscriber (replayed / latest values)
            if kind == "behavior":
                out.append(("VALUE", s.value))
            s.on_completed()
            s.subscribe(*rec())
        else:
            obs = eval(expr, {"rx": rx, "ops": ops, "xs": xs, "S": S})
            obs.subscribe(*rec(), scheduler=S)
            S.advance_to(1000.0)
    except Exception as e:  # noqa: BLE001
        out.append(("RAISED", type(e).__name__))
    return out


def rename(v, mapping):
    if isinstance(v, str) and v in mapping:
        return mapping[v]
    if isinstance(v, tuple):
        return tuple(rename(x, mapping) for x in v)
    if isinstance(v, list):
        return [rename(x, mapping) for x in v]
    return v


def norm(v):
    """structural repr that tells 0 from False and [] from ()"""
    if isinstance(v, tuple):
        return ("tuple",) + tuple(norm(x) for x in v)
    if isinstance(v, list):
        return ("list",) + tuple(norm(x) for x in v)
    if isinstance(v, dict):
        return ("dict",) + tuple((norm(k), norm(x)) for k, x in v.items())
    return (type(v).__name__, repr(v))


def run_case(name, idxs):
    pool = HASHABLE if TABLE[name][2] else FALSY
    idxs = [i % len(pool) for i in idxs]
    toks = [TOKENS[i] for i in idxs]
    fals = [pool[i] for i in idxs]
    mapping = {TOKENS[i]: pool[i] for i in range(len(pool))}
    a = run_pipeline(name, toks)
    b = run_pipeline(name, fals)
    if name in ("to_set", "to_dict"):
        # their outputs were rendered through repr/sorted: compare shapes only
        a2 = [(e[0],) + ((len(e[1]),) if len(e) > 1 and hasattr(e[1], "__len__") else ()) for e in a]
        b2 = [(e[0],) + ((len(e[1]),) if len(e) > 1 and hasattr(e[1], "__len__") else ()) for e in b]
        return None if a2 == b2 else {"truthy_run": repr(a)[:300], "falsy_run": repr(b)[:300]}
    want = [norm(rename(list(e), mapping)) for e in a]
    got = [norm(list(e)) for e in b]
    if want != got:
        return {"input_tokens": toks, "input_falsy": repr(fals), "truthy_run": repr(a)[:300], "falsy_run": repr(b)[:300]}
    return None


def inputs(max_len=4):
    yield []
    for n in range(1, max_len + 1):
        for combo in itertools.product(range(6), repeat=n):
            # canonical up to renaming is not needed: 6^4 is small; keep those with a repetition or all-distinct prefixes
            if n == max_len and len(set(combo)) < 2:
                continue
            yield list(combo)


REPLAY_TEMPLATE = '''#!/venv/bin/python
"""Replay of a violation of property {prop}: a falsy element is not treated like any other element.
obligation: {oid}
pipeline: {expr}
{detail}
Exit 1 when it reproduces on the tree under RXVC_REPO (default /repo)."""
import subprocess, sys
r = subprocess.run(["/venv/bin/python", "{verif}/rxvc/falsyrun.py", "case", {case!r}])
sys.exit(r.returncode)
'''


def main(argv):
    if argv[0] == "case":
        c = json.loads(argv[1])
        r = run_case(c["name"], c["idxs"])
        print(json.dumps({"violation": r}, default=repr))
        sys.exit(1 if r else 0)
    target = argv[2]
    opts = json.loads(argv[3]) if len(argv) > 3 else {}
    oid = opts.get("oid", "")
    names = list(TABLE)
    first = [n for n in names if TABLE[n][0] in target or TABLE[n][0] in oid]
    order = first + [n for n in names if n not in first] if target != "all" and first else names
    if target != "all" and first:
        order = first
    cases, found = 0, None
    for n in order:
        for idxs in inputs(3 if len(order) > 10 else 4):
            cases += 1
            r = run_case(n, idxs)
            if r:
                found = {"case": {"name": n, "idxs": idxs}, "disagreement": r}
                break
        if found:
            break
    res = {"cases": cases, "found": [found] if found else []}
    if found and "replay_path" in opts:
        os.makedirs(os.path.dirname(opts["replay_path"]), exist_ok=True)
        with open(opts["replay_path"], "w") as f:
            f.write(REPLAY_TEMPLATE.format(prop=opts.get("prop", "C08"), oid=oid, verif=VERIF, expr=TABLE[found["case"]["name"]][1],
                                           detail=json.dumps(found["disagreement"], default=repr)[:600], case=json.dumps(found["case"])))
        res["replay"] = opts["replay_path"]
    print(json.dumps(res, default=repr))


if __name__ == "__main__":
    main(sys.argv[1:])
