"""Loader: the verified text is the code that runs (DESIGN §2.1).

Every run parses files from /repo's *working tree* with `ast`; functions are located by
qualified path including nested closures (`take_.subscribe.on_next`).  Nothing is copied or
re-typed.  What is dropped is listed in DROPPED below and repeated in the evidence.
"""
from __future__ import annotations

import ast
import hashlib
import os

REPO = os.environ.get("RXVC_REPO", "/repo")
VERIF = os.path.dirname(os.path.dirname(os.path.abspath(__file__)))

DROPPED = [
    "docstrings",
    "type annotations and typing.cast(T, x) (-> x)",
    "TypeVar/Generic/overload/TYPE_CHECKING scaffolding",
    "log.debug/log.warning calls",
    "__all__",
]


class LoadError(Exception):
    pass


class Module:
    def __init__(self, name: str, path: str, tree: ast.Module, src: str):
        self.name = name
        self.path = path
        self.tree = tree
        self.src = src
        self.is_pkg = path.endswith("__init__.py")
        self._bindings = None

    @property
    def relpath(self):
        return os.path.relpath(self.path, REPO)

    def bindings(self):
        """top-level name -> binding statement(s) (last wins, as at import time)."""
        if self._bindings is None:
            b = {}

            def scan(stmts):
                for st in stmts:
                    if isinstance(st, (ast.FunctionDef, ast.ClassDef, ast.AsyncFunctionDef)):
                        b[st.name] = st
                    elif isinstance(st, ast.Assign):
                        for t in st.targets:
                            for n in ast.walk(t):
                                if isinstance(n, ast.Name):
                                    b[n.id] = st
                    elif isinstance(st, ast.AnnAssign) and isinstance(st.target, ast.Name):
                        if st.value is not None:
                            b[st.target.id] = st
                    elif isinstance(st, ast.Import):
                        for a in st.names:
                            b[(a.asname or a.name).split(".")[0]] = st
                    elif isinstance(st, ast.ImportFrom):
                        for a in st.names:
                            b[a.asname or a.name] = st
                    elif isinstance(st, ast.If):
                        # `if TYPE_CHECKING: ... else: ...` -> the else branch runs
                        test = st.test
                        if isinstance(test, ast.Name) and test.id == "TYPE_CHECKING":
                            scan(st.orelse)
                        else:
                            scan(st.body)
                            scan(st.orelse)
                    elif isinstance(st, ast.Try):
                        scan(st.body)

            scan(self.tree.body)
            self._bindings = b
        return self._bindings


#: every /repo source file any Loader of this process parsed (the verified text: contract-bearing functions AND the callee code the
#: symbolic execution runs inline - disposables, Notification, Subject, ... - re-read on every run)
MUTATED = False  # set once this process has loaded an in-memory must-fail mutant
ALL_FILES_READ: dict[str, str] = {}


class Loader:
    def __init__(self, repo: str | None = None):
        self.repo = repo or REPO
        #: top-level package -> directory that contains it
        self.roots = {"reactivex": self.repo, "specs": VERIF}
        self.modules: dict[str, Module] = {}
        self.files_read: dict[str, str] = {}

    # -- modules ---------------------------------------------------------
    def module_path(self, modname: str) -> str | None:
        parts = modname.split(".")
        root = self.roots.get(parts[0])
        if root is None:
            return None
        base = os.path.join(root, *parts)
        if os.path.isfile(base + ".py"):
            return base + ".py"
        if os.path.isfile(os.path.join(base, "__init__.py")):
            return os.path.join(base, "__init__.py")
        return None

    def is_repo_module(self, modname: str) -> bool:
        return modname.split(".")[0] in self.roots and self.module_path(modname) is not None

    def load(self, modname: str) -> Module:
        if modname in self.modules:
            return self.modules[modname]
        path = self.module_path(modname)
        if path is None:
            raise LoadError(f"module {modname} not found under {self.repo}")
        with open(path, encoding="utf-8") as f:
            src = f.read()
        rel = os.path.relpath(path, self.repo)
        if rel in getattr(self, "overrides", {}):
            global MUTATED
            MUTATED = True  # from here on this process is running a must-fail mutant: nothing it finds is reported about /repo
            src = self.overrides[rel]  # in-memory must-fail mutant; nothing is written to /repo
        tree = ast.parse(src, filename=path)
        m = Module(modname, path, tree, src)
        self.modules[modname] = m
        if modname.split(".")[0] == "reactivex":
            self.files_read[m.relpath] = hashlib.sha256(src.encode()).hexdigest()
            if rel not in getattr(self, "overrides", {}):
                ALL_FILES_READ[m.relpath] = self.files_read[m.relpath][:12]
        return m

    def load_file(self, relpath: str) -> Module:
        assert relpath.endswith(".py")
        mod = relpath[:-3].replace("/", ".")
        if mod.endswith(".__init__"):
            mod = mod[: -len(".__init__")]
        return self.load(mod)

    def resolve_from(self, module: Module, level: int, name: str | None) -> str:
        """absolute module name of `from <.>*level name import ...` seen in `module`."""
        if level == 0:
            return name or ""
        parts = module.name.split(".")
        if not module.is_pkg:
            parts = parts[:-1]
        if level > 1:
            parts = parts[: len(parts) - (level - 1)]
        if name:
            parts = parts + name.split(".")
        return ".".join(parts)

    # -- functions -------------------------------------------------------
    def find(self, relpath: str, qualname: str) -> ast.AST:
        """locate a def/class by dotted path of nested defs inside a file."""
        m = self.load_file(relpath)
        node: ast.AST = m.tree
        for part in qualname.split("."):
            found = None
            for ch in iter_defs(node):
                if ch.name == part:
                    found = ch
            if found is None:
                raise LoadError(f"{relpath}::{qualname}: '{part}' not found")
            node = found
        return node

    def segment(self, relpath: str, node: ast.AST) -> str:
        m = self.load_file(relpath)
        return ast.get_source_segment(m.src, node) or ""

    def sha(self, relpath: str, qualname: str) -> str:
        node = self.find(relpath, qualname)
        return hashlib.sha256(self.segment(relpath, node).encode()).hexdigest()[:16]


def iter_defs(node: ast.AST):
    """direct child defs of a module/def/class body, looking through if/try/with/for."""
    body = []
    for field in ("body", "orelse", "finalbody", "handlers"):
        body.extend(getattr(node, field, []) or [])
    for st in body:
        if isinstance(st, (ast.FunctionDef, ast.AsyncFunctionDef, ast.ClassDef)):
            yield st
        elif isinstance(st, (ast.If, ast.Try, ast.With, ast.For, ast.While, ast.ExceptHandler)):
            yield from iter_defs(st)


def all_functions(tree: ast.AST, prefix: str = ""):
    """yield (qualname, node) for every def (nested included) of a module tree."""
    for d in iter_defs(tree):
        q = f"{prefix}.{d.name}" if prefix else d.name
        yield q, d
        yield from all_functions(d, q)


def repo_py_files(repo: str, sub: str):
    root = os.path.join(repo, sub)
    out = []
    for dp, dn, fn in os.walk(root):
        dn.sort()
        for f in sorted(fn):
            if f.endswith(".py"):
                out.append(os.path.relpath(os.path.join(dp, f), repo))
    return out
