"""C18, window_toggle_ / buffer_toggle_ - the part of the property no contract of ours reaches: they are built on group_join
(two maps of live windows / retained elements, ids, a ref-counted group across four closures).  What IS under contract: the
wiring (grouping.py: window_toggle_ is group_join over the openings with the source as the joined side, windows living as long as
closing_mapper(opening), source elements retained for empty(); buffer_toggle_ is that followed by flat_map(to_list)).

Here: a BOUNDED stand-in (never counted as proved) - winrun.py runs the real operators on a TestScheduler grid against a reference
written from the property text (every element to exactly the windows open when it arrives; a window closes when the observable
closing_mapper returned for its opening fires; all open windows and the output end with the source's terminal notification).  A
disagreement is reported per operator and class of timeline (source-completes / source-errors / open-end) with its concrete case.
"""
from __future__ import annotations

import json
import os
import subprocess
import time

from .loader import Loader

OPS_ = ("window_toggle", "buffer_toggle")


def run_unit(desc):
    from .report import VERIF
    t0 = time.time()
    tier = desc.get("tier", "quick")
    loader = Loader()
    rep = {"unit": "toggle-windows/C18", "kind": "bounded stand-in for the group_join-based toggle windows (native TestScheduler grid against a reference from the property text)",
           "functions": {}, "results": [], "unsupported": None, "spec_validation": [], "bounded": []}
    for op in OPS_:
        try:
            out = subprocess.run(["/venv/bin/python", os.path.join(VERIF, "rxvc", "winrun.py"), "list", op, json.dumps({"max_len": 2 if tier == "quick" else 3})],
                                 capture_output=True, text=True, timeout=900, env=dict(os.environ, RXVC_REPO=loader.repo, PYTHONPATH=VERIF))
            rows = [json.loads(ln) for ln in out.stdout.splitlines() if ln.startswith("{")]
        except Exception as e:  # noqa: BLE001
            rep["crash"] = f"winrun.py did not run: {e!r}"
            break
        total = next((r["cases"] for r in rows if "cases" in r and "class" not in r), 0)
        if not total:
            rep["crash"] = f"winrun.py list {op} produced no cases: {out.stderr[-400:]}"
            break
        bad = [r for r in rows if "class" in r]
        rep["bounded"].append({"function": f"reactivex/operators/_window.py::{op}_ (through group_join_)",
                               "bound": f"winrun.py: every timeline of <= {2 if tier == 'quick' else 3} elements (3 values, gaps 10 / 20) with completion / error / open end "
                                        "x 5 opening timelines with timer closings, on a TestScheduler stopped at 330",
                               "cases": total, "mismatches": len(bad), "role": "bounded stand-in (no contract reaches group_join here)"})
        by_class = {}
        for r in bad:
            by_class.setdefault(r["class"], []).append(r)
        for cls, rs in sorted(by_class.items()):
            r0 = rs[0]
            rep["results"].append({
                "id": f"winrun/{op}/{cls}/every-element-to-the-windows-open-when-it-arrives-and-all-of-them-end-with-the-source",
                "verdict": "refuted", "backend": "native-bounded", "model": {}, "path": [], "seconds": 0.0, "kind": "bounded",
                "detail": f"{len(rs)} of {total} cases, e.g. {json.dumps(r0['case'])}: got {json.dumps(r0['disagreement'].get('got'), default=repr)[:300]} "
                          f"expected {json.dumps(r0['disagreement'].get('expected'), default=repr)[:300]}",
                "replay_info": {"runner": "winrun.py", "module": "-", "name": op, "mode": "replay", "opts": {"class": cls, "max_len": 2}}})
    rep["seconds"] = time.time() - t0
    return rep
