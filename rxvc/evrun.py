"""Native runner for C31 / C34 (replay and bounded cross-check of the scheduler contracts of evloop.py).

Runs under /venv/bin/python on the real EventLoopScheduler, NewThreadScheduler, ThreadPoolScheduler, TimeoutScheduler and
ImmediateScheduler with real threads and the real clock (delays of 30-250 ms, only lower bounds on time are checked, so
a loaded machine cannot make a correct tree fail).  Oracles from the properties:
  never early      an action starts no earlier than its due time, read on the scheduler's own clock;
  cancellation     an action whose disposable was disposed (well) before its due time never starts;
  serial / order   EventLoopScheduler: never two actions at once, all on one thread; immediately-due actions in submission
                   order, timed ones in due-time order;
  dispose          after dispose() returned, scheduling raises DisposedException and nothing scheduled later runs;
  exit_if_empty    the thread ends when idle and a later schedule starts a new one;
  immediate        ImmediateScheduler runs the action inside schedule(); a positive delay raises WouldBlockException.
BOUNDED (a fixed list of scenarios).

usage: evrun.py replay - <C31|C34> '<json opts>'
       evrun.py case '<json case>'
"""
from __future__ import annotations

import json
import os
import sys
import threading
import time

VERIF = os.path.dirname(os.path.dirname(os.path.abspath(__file__)))
REPO = os.environ.get("RXVC_REPO", "/repo")
if REPO not in sys.path:
    sys.path.insert(0, REPO)


def make(kind):
    import reactivex.scheduler as sch
    if kind == "eventloop":
        return sch.EventLoopScheduler()
    if kind == "eventloop_exit":
        return sch.EventLoopScheduler(exit_if_empty=True)
    if kind == "newthread":
        return sch.NewThreadScheduler()
    if kind == "threadpool":
        return sch.ThreadPoolScheduler(3)
    if kind == "timeout":
        return sch.TimeoutScheduler()
    raise ValueError(kind)


class Recorder:
    def __init__(self, s):
        self.s = s
        self.lock = threading.Lock()
        self.started = []   # (name, scheduler clock at start, thread ident)
        self.inside = 0
        self.overlap = []

    def action(self, name, hold=0.0):
        def act(scheduler, state=None):
            now = self.s.now
            with self.lock:
                self.inside += 1
                if self.inside > 1:
                    self.overlap.append(name)
                self.started.append((name, now, threading.get_ident()))
            if hold:
                time.sleep(hold)
            with self.lock:
                self.inside -= 1
        return act


def scen_never_early_and_cancel(kind):
    from datetime import timedelta
    s = make(kind)
    r = Recorder(s)
    t0 = s.now
    plan = [("a", 0.12, False), ("b", 0.04, False), ("c", 0.20, True), ("d", 0.0, False), ("e", 0.08, True), ("f", 0.08, False)]
    due = {}
    for name, d, cancel in plan:
        if name in ("b", "f"):
            due[name] = s.now + timedelta(seconds=d)
            disp = s.schedule_absolute(due[name], r.action(name))
        elif d == 0.0:
            due[name] = s.now
            disp = s.schedule(r.action(name))
        else:
            due[name] = s.now + timedelta(seconds=d)
            disp = s.schedule_relative(d, r.action(name))
        if cancel:
            disp.dispose()
    time.sleep(0.45)
    if hasattr(s, "dispose"):
        s.dispose()
    names = [n for n, _, _ in r.started]
    for n, at, _ in r.started:
        # relative schedules: `due` was read just BEFORE the call, so the real due time is not earlier than it
        if at < due[n] - timedelta(microseconds=1):
            return f"{kind}: action {n} started at {at - t0} although it was due at {due[n] - t0}"
    for name, d, cancel in plan:
        if cancel and name in names:
            return f"{kind}: action {name} ran although its disposable was disposed {d} s before its due time"
        if not cancel and name not in names:
            return f"{kind}: action {name} (due after {d} s) never ran within 0.45 s"
    if kind.startswith("eventloop"):
        if r.overlap:
            return f"{kind}: two actions at once: {r.overlap}"
        if len({t for _, _, t in r.started}) > 1 and kind == "eventloop":
            return f"{kind}: actions ran on {len({t for _, _, t in r.started})} different threads"
        timed = [n for n in names if n != "d"]
        if timed != sorted(timed, key=lambda n: due[n]):
            return f"{kind}: timed actions ran in the order {timed}, due-time order is {sorted(timed, key=lambda n: due[n])}"
    return None


def scen_submission_order(kind):
    s = make(kind)
    r = Recorder(s)
    gate = threading.Event()

    def first(scheduler, state=None):
        gate.wait(1.0)
        r.action("0")(scheduler, state)
    s.schedule(first)
    from datetime import timedelta as _td
    for i in range(1, 8):
        if i == 3:
            # an action scheduled for a time already past is immediately due like the others: it keeps ITS place in the submission order
            s.schedule_absolute(s.now - _td(seconds=10), r.action(str(i)))
        elif i == 5:
            s.schedule_relative(-1.0, r.action(str(i)))
        else:
            s.schedule(r.action(str(i)))
    gate.set()
    time.sleep(0.25)
    s.dispose()
    names = [n for n, _, _ in r.started]
    if names != [str(i) for i in range(8)]:
        return f"{kind}: immediately-due actions ran in the order {names}, submitted 0..7"
    if r.overlap:
        return f"{kind}: two actions at once: {r.overlap}"
    return None


def scen_cancel_within_batch(kind):
    """two items are gathered in one batch; the first one cancels the second: the second must not start"""
    s = make(kind)
    r = Recorder(s)
    gate = threading.Event()
    box = {}

    def blocker(scheduler, state=None):
        gate.wait(1.0)

    def first(scheduler, state=None):
        r.action("first")(scheduler, state)
        box["second"].dispose()
    s.schedule(blocker)
    time.sleep(0.03)          # the loop thread is now inside `blocker`
    s.schedule(first)
    box["second"] = s.schedule(r.action("second"))
    gate.set()
    time.sleep(0.2)
    s.dispose()
    names = [n for n, _, _ in r.started]
    if "second" in names:
        return f"{kind}: an action that was cancelled before it started (by the action that ran just before it) started all the same: {names}"
    if names != ["first"]:
        return f"{kind}: actions that ran: {names}"
    return None


def scen_head_replaced_while_waiting(kind):
    """the loop waits for a far item; meanwhile that item is cancelled... the timed-out wait is no proof that anything is due:
    whatever is at the head of the queue when the wait ends must still be compared with the clock"""
    from datetime import datetime, timedelta, timezone
    import reactivex.scheduler as sch
    real0 = time.monotonic()
    base = datetime(2030, 1, 1, tzinfo=timezone.utc)

    class SlowClock(sch.EventLoopScheduler):
        """the scheduler clock runs at a third of the speed of the clock Condition.wait sleeps on"""
        @property
        def now(self):
            return base + timedelta(seconds=(time.monotonic() - real0) / 3.0)
    s = SlowClock()
    r = Recorder(s)
    due = s.now + timedelta(seconds=0.09)
    s.schedule_absolute(due, r.action("timed"))
    time.sleep(0.6)
    s.dispose()
    for n, at, _ in r.started:
        if at < due - timedelta(microseconds=1):
            return (f"{kind}: on a scheduler whose clock runs slower than the wait's clock the action started at scheduler time +{(at - base).total_seconds():.3f} s "
                    f"although it was due at +{(due - base).total_seconds():.3f} s: a timed-out wait was taken as proof that the head is due")
    if [n for n, _, _ in r.started] != ["timed"]:
        return f"{kind}: actions that ran: {[n for n, _, _ in r.started]}"
    return None


def scen_loop_under_a_controlled_clock(kind):
    """the run loop driven on THIS thread with a clock under control: a fake condition whose timed wait moves the clock forward by exactly the
    timeout (an untimed wait ends the run).  Actions consume clock time.  Oracle (C31 / C35): a timed action starts exactly at its due time when
    the loop is free at that time (never earlier; no later than the moment the loop could know it is due), so a periodic action of period p
    whose work takes w < p is called at p, 2p, 3p, ... - the loop must not sleep past a due time because of a clock reading taken before the
    actions of the round ran."""
    from datetime import datetime, timedelta, timezone
    import reactivex.scheduler as sch
    base = datetime(2030, 1, 1, tzinfo=timezone.utc)
    clock = [0.0]

    class Stop(BaseException):
        pass

    class FakeCondition:
        def __enter__(self):
            return self

        def __exit__(self, *a):
            return False

        def notify(self, n=1):
            pass

        notify_all = notify

        def wait(self, timeout=None):
            if timeout is None:
                raise Stop()
            clock[0] += float(timeout)
            return False

    class NoThread:
        def start(self):
            pass

    reads = [0]

    class Spin(BaseException):
        pass

    class Controlled(sch.EventLoopScheduler):
        @property
        def now(self):
            reads[0] += 1
            if reads[0] > 20000:
                raise Spin()  # the clock only moves in waits and in actions: the loop is going round without either
            return base + timedelta(seconds=clock[0])

    for period, work in ((1.0, 0.25), (0.5, 0.125), (2.0, 1.5)):
        clock[0] = 0.0
        s = Controlled(thread_factory=lambda target: NoThread())
        s._condition = FakeCondition()
        calls = []

        box = {}

        def tick(st, _calls=calls, _work=work, _box=box):
            _calls.append((round(clock[0], 6), st))
            clock[0] += _work
            if len(_calls) >= 4:
                _box["d"].dispose()  # stop ticking: the loop then finds nothing to wait for
            return (st or 0) + 1
        box["d"] = s.schedule_periodic(period, tick, 0)
        reads[0] = 0
        try:
            s.run()
        except Stop:
            pass
        except Spin:
            return (f"periodic action (period {period}) on the event loop under a controlled clock: after the calls {calls} the loop spins at clock {clock[0]} "
                    f"without waiting and without running anything (an entry due exactly now is neither taken nor waited for)")
        want = [(round(period * (k + 1), 6), k) for k in range(4)]
        if calls != want:
            return (f"periodic action (period {period}, work {work} per call) on the event loop under a controlled clock: called at (clock, state) {calls}, "
                    f"expected {want}")
    # two timed actions and an immediate one that takes time: each starts at its due time, the later one is not delayed by the earlier one's work
    clock[0] = 0.0
    s = Controlled(thread_factory=lambda target: NoThread())
    s._condition = FakeCondition()
    started = []

    def mk(name, work):
        def act(sc, st=None):
            started.append((name, round(clock[0], 6)))
            clock[0] += work
        return act
    s.schedule(mk("now", 0.25))
    s.schedule_relative(1.0, mk("a", 0.25))
    s.schedule_relative(2.0, mk("b", 0.0))
    reads[0] = 0
    try:
        s.run()
    except Stop:
        pass
    except Spin:
        return f"timed actions on the event loop under a controlled clock: after {started} the loop spins at clock {clock[0]} without waiting and without running anything"
    if started != [("now", 0.0), ("a", 1.0), ("b", 2.0)]:
        return f"timed actions on the event loop under a controlled clock started at {started}, expected now@0, a@1.0, b@2.0"
    # a due time that lies only a little ahead is still ahead: no action starts before its due time on the scheduler's clock, however short the wait
    for tiny in (0.0005, 0.00025, 0.000001):
        clock[0] = 0.0
        s = Controlled(thread_factory=lambda target: NoThread())
        s._condition = FakeCondition()
        del started[:]
        s.schedule_relative(tiny, mk("soon", 0.0))
        s.schedule_relative(0.5, mk("later", 0.0))
        reads[0] = 0
        try:
            s.run()
        except Stop:
            pass
        except Spin:
            return f"timed actions on the event loop under a controlled clock: the loop spins at clock {clock[0]} (after {started})"
        if started != [("soon", round(tiny, 6)), ("later", 0.5)]:
            return f"an action due {tiny} s ahead started at {started} on the scheduler's clock, expected soon@{tiny}, later@0.5"
    # many timers submitted in no particular order, some cancelled before they are due (the earliest one too), an immediate action in between that
    # makes the loop go round once more: whatever the loop does with cancelled entries, the others start in due-time order, each at its due time
    import itertools as _it
    for order in ([1, 5, 2, 6, 7, 3, 4], [7, 6, 5, 4, 3, 2, 1], [4, 1, 6, 2, 7, 3, 5]):
        for cancelled in ((1,), (1, 2), (4,), (7, 1)):
            clock[0] = 0.0
            s = Controlled(thread_factory=lambda target: NoThread())
            s._condition = FakeCondition()
            del started[:]
            handles = {d: s.schedule_relative(float(d), mk(d, 0.0)) for d in order}

            def cancel_some(sc, st=None, _h=handles, _c=cancelled):
                for d in _c:
                    _h[d].dispose()
                sc.schedule(lambda *_: None)  # one more round of the loop before anything is due
            s.schedule(cancel_some)
            reads[0] = 0
            try:
                s.run()
            except Stop:
                pass
            except Spin:
                return f"timers {order} with {cancelled} cancelled: the loop spins at clock {clock[0]} (after {started})"
            want = [(d, float(d)) for d in sorted(order) if d not in cancelled]
            if started != want:
                return (f"timers due at {order} (submitted in that order), those due at {cancelled} cancelled before they were due: the others started "
                        f"(which, at clock) {started}, expected {want}")
    _ = _it
    return None


def scen_dispose(kind):
    from reactivex.internal.exceptions import DisposedException
    s = make(kind)
    r = Recorder(s)
    s.schedule(r.action("before"))
    s.schedule_relative(0.15, r.action("pending"))
    time.sleep(0.05)
    s.dispose()
    raised = []
    for f in (lambda: s.schedule(r.action("after")), lambda: s.schedule_relative(0.01, r.action("after-rel")),
              lambda: s.schedule_absolute(s.now, r.action("after-abs")), lambda: s.schedule_periodic(0.01, lambda st: st)):
        try:
            f()
            raised.append(None)
        except DisposedException:
            raised.append("DisposedException")
        except Exception as e:  # noqa: BLE001
            raised.append(repr(e))
    time.sleep(0.25)
    names = [n for n, _, _ in r.started]
    if raised != ["DisposedException"] * 4:
        return f"{kind}: scheduling after dispose() returned gave {raised}, expected DisposedException each time"
    if names != ["before"]:
        return f"{kind}: after dispose() these actions started: {names[1:]}"
    return None


def scen_exit_if_empty(kind):
    import reactivex.scheduler as sch
    threads = []

    def factory(target):
        t = threading.Thread(target=target, daemon=True)
        threads.append(t)
        return t
    s = sch.EventLoopScheduler(thread_factory=factory, exit_if_empty=True)
    r = Recorder(s)
    s.schedule(r.action("one"))
    time.sleep(0.15)
    if len(threads) != 1 or threads[0].is_alive():
        return f"exit_if_empty: after the only action ran the thread should have ended (threads={len(threads)}, alive={[t.is_alive() for t in threads]})"
    s.schedule_relative(0.03, r.action("two"))
    time.sleep(0.2)
    names = [n for n, _, _ in r.started]
    if len(threads) != 2:
        return f"exit_if_empty: a schedule after the thread ended must start a new thread ({len(threads)} threads were created)"
    if names != ["one", "two"]:
        return f"exit_if_empty: actions that ran: {names}"
    if threads[1].is_alive():
        return "exit_if_empty: the second thread is still alive although the scheduler is idle"
    return None


def scen_concurrent_schedulers(kind):
    s = make(kind)
    r = Recorder(s)
    n_threads, per = 3, 15

    def client(k):
        for i in range(per):
            s.schedule(r.action(f"{k}.{i}", hold=0.0005))
    ts = [threading.Thread(target=client, args=(k,)) for k in range(n_threads)]
    for t in ts:
        t.start()
    for t in ts:
        t.join()
    time.sleep(0.4)
    s.dispose()
    names = [n for n, _, _ in r.started]
    if r.overlap:
        return f"{kind}: two actions at once under concurrent scheduling: {r.overlap[:3]}"
    if sorted(names) != sorted(f"{k}.{i}" for k in range(n_threads) for i in range(per)):
        return f"{kind}: {len(names)} of {n_threads * per} actions ran (or some ran twice)"
    for k in range(n_threads):
        mine = [n for n in names if n.startswith(f"{k}.")]
        if mine != [f"{k}.{i}" for i in range(per)]:
            return f"{kind}: actions of one scheduling thread ran out of submission order: {mine[:6]}"
    if len({t for _, _, t in r.started}) != 1:
        return f"{kind}: actions ran on several threads"
    return None


def scen_immediate(kind):
    import reactivex.scheduler as sch
    from reactivex.internal.exceptions import WouldBlockException
    from datetime import timedelta
    s = sch.ImmediateScheduler()
    ran = []
    s.schedule(lambda sc, st=None: ran.append(("s", threading.get_ident())))
    if ran != [("s", threading.get_ident())]:
        return "ImmediateScheduler.schedule did not run the action synchronously on the calling thread"
    s.schedule_relative(0, lambda sc, st=None: ran.append("r0"))
    s.schedule_relative(-1.0, lambda sc, st=None: ran.append("r-"))
    s.schedule_absolute(s.now - timedelta(seconds=1), lambda sc, st=None: ran.append("a-"))
    if ran[1:] != ["r0", "r-", "a-"]:
        return f"ImmediateScheduler: non-positive delays must run at once, ran {ran[1:]}"
    for f, what in ((lambda: s.schedule_relative(0.05, lambda sc, st=None: ran.append("late")), "schedule_relative(0.05)"),
                    (lambda: s.schedule_absolute(s.now + timedelta(seconds=5), lambda sc, st=None: ran.append("late")), "schedule_absolute(now+5s)")):
        try:
            f()
            return f"ImmediateScheduler.{what} did not raise WouldBlockException"
        except WouldBlockException:
            pass
    if "late" in ran:
        return "ImmediateScheduler ran an action with a positive delay"
    return None


SCENARIOS = {
    "C31": [("never_early_and_cancel", "eventloop"), ("submission_order", "eventloop"), ("dispose", "eventloop"), ("exit_if_empty", "-"),
            ("concurrent_schedulers", "eventloop"), ("never_early_and_cancel", "eventloop_exit"), ("cancel_within_batch", "eventloop"),
            ("head_replaced_while_waiting", "eventloop"), ("loop_under_a_controlled_clock", "eventloop")],
    "C35": [("loop_under_a_controlled_clock", "eventloop"), ("never_early_and_cancel", "eventloop"), ("cancel_within_batch", "eventloop")],
    "C34": [("never_early_and_cancel", k) for k in ("timeout", "newthread", "threadpool", "eventloop")] + [("immediate", "-"), ("dispose", "eventloop"),
                                                                                                          ("cancel_within_batch", "eventloop"), ("head_replaced_while_waiting", "eventloop"),
                                                                                                          ("loop_under_a_controlled_clock", "eventloop")],
}
FUN = {"cancel_within_batch": scen_cancel_within_batch, "head_replaced_while_waiting": scen_head_replaced_while_waiting,
       "never_early_and_cancel": scen_never_early_and_cancel, "submission_order": scen_submission_order, "dispose": scen_dispose,
       "exit_if_empty": scen_exit_if_empty, "concurrent_schedulers": scen_concurrent_schedulers, "immediate": scen_immediate,
       "loop_under_a_controlled_clock": scen_loop_under_a_controlled_clock}

REPLAY_TEMPLATE = '''#!/venv/bin/python
"""Replay of a violation of property {prop} (real-time schedulers).
obligation: {oid}
scenario: {case}
{what}
Exit 1 when it reproduces on the tree under RXVC_REPO (default /repo)."""
import subprocess, sys
r = subprocess.run(["/venv/bin/python", "{verif}/rxvc/evrun.py", "case", {case!r}])
sys.exit(r.returncode)
'''


def run_case(c):
    return FUN[c["scenario"]](c["kind"])


def main(argv):
    if argv[0] == "case":
        c = json.loads(argv[1])
        try:
            r = run_case(c)
        except Exception as e:  # noqa: BLE001
            r = f"the scenario raised {e!r}"
        print(json.dumps({"violation": r}))
        sys.stdout.flush()
        os._exit(1 if r else 0)
    prop = argv[2] if len(argv) > 2 else "C31"
    opts = json.loads(argv[3]) if len(argv) > 3 else {}
    n, found = 0, None
    for scn, kind in SCENARIOS.get(prop, SCENARIOS["C31"]):
        n += 1
        c = {"scenario": scn, "kind": kind}
        try:
            r = run_case(c)
        except Exception as e:  # noqa: BLE001
            r = f"the scenario raised {e!r}"
        if r:
            found = {"case": c, "disagreement": r}
            break
    res = {"cases": n, "found": [found] if found else []}
    if found and "replay_path" in opts:
        os.makedirs(os.path.dirname(opts["replay_path"]), exist_ok=True)
        with open(opts["replay_path"], "w") as f:
            f.write(REPLAY_TEMPLATE.format(prop=opts.get("prop", prop), oid=opts.get("oid", "?"), verif=VERIF, case=json.dumps(found["case"]), what=found["disagreement"]))
        res["replay"] = opts["replay_path"]
    print(json.dumps(res, default=repr))
    sys.stdout.flush()
    os._exit(0)


if __name__ == "__main__":
    main(sys.argv[1:])
