"""C44 (and every operator property: the K1 contracts call `op_(args)(source)`): function contract of `curry_flip`, the decorator every operator
implementation function goes through (reactivex/internal/curry.py), on the real code.

  curry_flip(fun)(*args, **kwargs)     calls nothing; returns a function W
  W(x)                                  exactly one call fun(x, *args, **kwargs): x first, then the very arguments in their order, the very keyword
                                        arguments; its result (or exception) is W's
  independence                          two applications W1 = f(*a1), W2 = f(*a2) of one curried function, and two uses of one W, do not see
                                        each other's arguments (no state besides the two closures): W1(x) after W2 was built still passes a1.
"""
from __future__ import annotations

import time

import z3

from . import smt
from .interp import Interp, World, explore
from .loader import Loader
from .refine import Result
from .values import SV, Native, Opaque, PyExc, Unsupported

CFILE = "reactivex/internal/curry.py"


class CWorld(World):
    def __init__(self):
        super().__init__()
        self.log = []
        self.raises = False

    def call(self, it, o, method, args, kwargs):
        if o.kind == "callback" and method == "__call__":
            r = it.ctx.fresh("result", "val")
            self.log.append((o, list(args), dict(kwargs), r))
            if self.raises:
                self.exc = SV(it.ctx.fresh("fun_exc", "val").t, "val", tag="exc")
                raise PyExc(self.exc)
            return r
        return super().call(it, o, method, args, kwargs)


def same(a, b):
    return isinstance(a, SV) and isinstance(b, SV) and a.t.eq(b.t)


class CurryHarness:
    def __init__(self, loader=None):
        self.loader = loader or Loader()
        self.results = []
        self.unsupported = None
        self.functions = {}

    def rec(self, ctx, oid, goal, detail=""):
        t0 = time.time()
        if isinstance(goal, bool):
            goal = z3.BoolVal(goal)
        v, m, b = smt.prove(ctx.pc, goal)
        ctx.results.append(Result(oid, v, b, smt.model_to_dict(m), list(ctx.branch_log), detail, time.time() - t0, "post"))

    def run_contract(self, ctx):
        uid = f"{CFILE}::curry_flip"
        w = CWorld()
        it = Interp(self.loader, ctx, w)
        # functools.wraps(fun): copies metadata, returns the decorated function itself (assumed contract of the standard library)
        it.externals["functools.wraps"] = Native("wraps", lambda it_, a, k: Native("wraps-decorator", lambda it2, a2, k2: a2[0]))
        cf = it.module_get("reactivex.internal.curry", "curry_flip")
        fun = Opaque("callback", "fun")
        curried = it.call(cf, [fun], {})
        self.rec(ctx, uid + "/decorating-calls-nothing", not w.log)
        npos = ctx.choose(3, "number of positional arguments")
        with_kw = ctx.choose(2, "a keyword argument") == 1
        a1 = [ctx.fresh(f"a{i}", "val") for i in range(npos)]
        k1 = {"key": ctx.fresh("k", "val")} if with_kw else {}
        W1 = it.call(curried, list(a1), dict(k1))
        self.rec(ctx, uid + "/binding-the-arguments-calls-nothing", not w.log)
        # another application of the same curried function in between
        b1 = [ctx.fresh("other", "val")]
        W2 = it.call(curried, list(b1), {})
        x = ctx.fresh("x", "val")
        w.raises = ctx.choose(2, "fun raises") == 1
        raised, res = None, None
        try:
            res = it.call(W1, [x], {})
        except PyExc as e:
            raised = e.value
        ok = len(w.log) == 1 and w.log[0][0] is fun
        self.rec(ctx, uid + "/applying-calls-the-function-exactly-once", ok, detail=f"{len(w.log)} calls")
        if not ok:
            return
        _, args, kwargs, r = w.log[0]
        self.rec(ctx, uid + "/the-curried-argument-comes-first-then-the-bound-ones-in-order",
                 len(args) == 1 + npos and same(args[0], x) and all(same(p, q) for p, q in zip(args[1:], a1)), detail=f"{args!r}")
        self.rec(ctx, uid + "/the-keyword-arguments-are-handed-on", set(kwargs) == set(k1) and all(same(kwargs[n], k1[n]) for n in k1), detail=f"{kwargs!r}")
        if w.raises:
            self.rec(ctx, uid + "/an-exception-of-the-function-propagates", raised is w.exc)
        else:
            self.rec(ctx, uid + "/returns-what-the-function-returned", raised is None and same(res, r))
        # the other application, and a second use of the first, are unaffected
        w.log.clear()
        w.raises = False
        y = ctx.fresh("y", "val")
        it.call(W2, [y], {})
        it.call(W1, [y], {})
        ok2 = (len(w.log) == 2 and len(w.log[0][1]) == 2 and same(w.log[0][1][0], y) and same(w.log[0][1][1], b1[0]) and not w.log[0][2]
               and len(w.log[1][1]) == 1 + npos and same(w.log[1][1][0], y) and all(same(p, q) for p, q in zip(w.log[1][1][1:], a1))
               and set(w.log[1][2]) == set(k1))
        self.rec(ctx, uid + "/applications-and-uses-are-independent", ok2, detail=f"{[(e[1], e[2]) for e in w.log]!r}")

    def run(self):
        t0 = time.time()
        try:
            self.functions[f"{CFILE}::curry_flip"] = self.loader.sha(CFILE, "curry_flip")
            for p in explore(self.run_contract):
                self.results.extend(p.results)
        except Unsupported as e:
            self.unsupported = str(e)
        except PyExc as e:
            self.unsupported = f"interpreter-level exception: {e.value!r} {getattr(e.value, 'fields', '')}"
        self.seconds = time.time() - t0
        return self


MUTANTS = {
    "keyword arguments dropped": ("return fun(curry_arg, *args, **kwargs)", "return fun(curry_arg, *args)"),
    "curried argument last": ("return fun(curry_arg, *args, **kwargs)", "return fun(*args, curry_arg, **kwargs)"),
    "called at binding time": ("        def _wrap_curried(curry_arg: _A) -> _B:\n            return fun(curry_arg, *args, **kwargs)\n",
                               "        fun(None, *args, **kwargs)\n\n        def _wrap_curried(curry_arg: _A) -> _B:\n            return fun(curry_arg, *args, **kwargs)\n"),
}


def must_fail():
    out = {"mutants": 0, "killed": 0, "survivors": []}
    src = Loader().load_file(CFILE).src
    for name, (a, b) in MUTANTS.items():
        if a not in src:
            continue
        ld = Loader()
        ld.overrides = {CFILE: src.replace(a, b, 1)}
        h = CurryHarness(ld).run()
        out["mutants"] += 1
        if h.unsupported or any(r.verdict == "refuted" for r in h.results):
            out["killed"] += 1
        else:
            out["survivors"].append(name)
    return out


def run_unit(desc):
    h = CurryHarness().run()
    rep = {"unit": f"{CFILE}::curry_flip", "kind": "function contract of the operator decorator", "functions": h.functions,
           "results": [r.as_dict() for r in h.results], "unsupported": h.unsupported, "spec_validation": [], "bounded": []}
    rep["replayable"] = {"runner": "curryrun.py", "module": "-", "name": "curry_flip"}
    if h.unsupported or desc.get("tier") == "thorough":
        import json
        import os
        from .report import REPLAY_DIR, VERIF, native
        prop = desc.get("prop", "C44")
        r, err = native([os.path.join(VERIF, "rxvc", "curryrun.py"), "replay", "-", "curry_flip",
                         json.dumps({"replay_path": os.path.join(REPLAY_DIR, f"{prop}-standin-curry_flip.py"), "prop": prop, "oid": rep["unit"] + "/bounded-standin"})])
        st = r if r is not None else {"found": [], "error": err, "cases": 0}
        if h.unsupported:
            rep["standin"] = st
        rep["bounded"].append({"function": rep["unit"], "bound": "curryrun.py: 0..3 positional arguments x keyword argument x raising function, two interleaved applications",
                               "cases": st.get("cases", 0), "mismatches": len(st.get("found", [])), "role": "stand-in (out of subset)" if h.unsupported else "cross-check against CPython"})
    if desc.get("tier") == "thorough" and not h.unsupported:
        mf = must_fail()
        rep["must_fail"] = dict(mf, unit=rep["unit"])
        if mf["mutants"] and mf["killed"] < mf["mutants"]:
            rep["crash"] = f"vacuity: must-fail mutants survived: {mf['survivors']}"
    return rep
