"""C05: the INDEXED forms the property names that are compositions - function contracts on the real code (the directly implemented indexed forms,
filter_indexed / take_while_indexed, are K1 contracts of contracts/c05.py).

  zip_with_iterable_(source, seq)      (the stage that attaches the index)  by subscribe + one arbitrary element:
        subscribe   asks seq for ONE iterator, per subscription (iter(seq) - never when the operator is applied); subscribes the source exactly once
                    with its own on_next, the subscriber's on_error / on_completed handed on as they are, and the scheduler;
        on_next(x)  from an arbitrary state of that iterator: asks it for exactly one item; an item r -> exactly on_next((x, r)), nothing else;
                    exhausted -> exactly on_completed, no element.
        So the k-th element is paired with the k-th item of the iterable; with infinite() (0, 1, 2, ... - its contract: frame unit of C04) with k.
  map_indexed_(source, m)              == source | zip_with_iterable(infinite()) | starmap_indexed(m')   m' = m, or (x, i) -> x when m is None
  starmap_indexed(m)                   == map(t -> m(*t))
  skip_while_indexed_(source, p)       == source | map_indexed((x, i) -> (x, i)) | skip_while(t -> p(*t)) | map(t -> t[0])
  pluck_attr_(prop)                    == map(x -> getattr(x, prop))
With the K1 contracts of map / skip_while (C05) the list semantics follow: [m(x, i) for i, x in enumerate(h)], the elements from the first
(x, i) with not p(x, i) on.  `ops.<name>(..)` are operator TERMS (as in the forwarding contracts of C39); the small closures are run on symbolic
arguments."""
from __future__ import annotations

import ast
import time

import z3

from . import smt
from .forward import OpTerm, OPS_MODULE
from .interp import NOTSET, Env, Interp, World, explore
from .loader import Loader
from .refine import Result
from .srcwire import World2
from .values import SV, BoundMethod, Closure, Native, Obj, Opaque, OpaqueMethod, PyExc, Unsupported

OPS = "reactivex/operators/"


def same(a, b):
    return isinstance(a, SV) and isinstance(b, SV) and a.t.eq(b.t)


class ZipWorld(World):
    def __init__(self):
        super().__init__()
        self.log = []
        self.exhausted = False

    def isinstance(self, it, o, cls):
        n = (getattr(cls, "name", "") or "").split(".")[-1]
        if o.kind == "source":
            return n in ("Observable", "ObservableBase")
        return super().isinstance(it, o, cls)

    def call(self, it, o, method, args, kwargs):
        if o.kind == "iterable" and method == "__iter__":
            r = Opaque("iterator", f"iterator#{len([e for e in self.log if e[0] == 'iter']) + 1}")
            self.log.append(("iter", o, r))
            return r
        if o.kind == "iterator" and method == "__next__":
            if self.exhausted:
                self.log.append(("next", o, None))
                raise PyExc(it.make_exc("StopIteration"))
            r = it.ctx.fresh("item", "val")
            self.log.append(("next", o, r))
            return r
        if o.kind == "source" and method == "subscribe":
            d = Opaque("disposable", "subscription")
            self.log.append(("subscribe", o, list(args), dict(kwargs), d))
            return d
        if o.kind == "observer":
            self.log.append(("down", method, list(args)))
            return None
        return super().call(it, o, method, args, kwargs)


class IndexedHarness:
    def __init__(self, loader=None):
        self.loader = loader or Loader()
        self.results = []
        self.unsupported = None
        self.functions = {}

    def rec(self, ctx, oid, goal, detail=""):
        t0 = time.time()
        if isinstance(goal, bool):
            goal = z3.BoolVal(goal)
        v, m, b = smt.prove(ctx.pc, goal)
        ctx.results.append(Result(oid, v, b, smt.model_to_dict(m), list(ctx.branch_log), detail, time.time() - t0, "post"))

    # -- zip_with_iterable_ ---------------------------------------------------------------------------------------------------
    def run_zip_with_iterable(self, ctx):
        uid = f"{OPS}_zip.py::zip_with_iterable_"
        w = ZipWorld()
        it = Interp(self.loader, ctx, w)
        it.externals["functools.wraps"] = Native("wraps", lambda it_, a, k: Native("wraps-decorator", lambda it2, a2, k2: a2[0]))
        f = it.module_get("reactivex.operators._zip", "zip_with_iterable_")
        src, seq = Opaque("source", "source"), Opaque("iterable", "seq")
        obs = it.call(it.call(f, [seq], {}), [src], {})
        self.rec(ctx, uid + "/applying-the-operator-asks-for-no-iterator-and-subscribes-nothing", not w.log, detail=f"{w.log}")
        sub = obs.fields.get("_subscribe") if isinstance(obs, Obj) else None
        if not isinstance(sub, Closure):
            self.rec(ctx, uid + "/is-an-observable", False, detail=f"{obs!r}")
            return
        observer, sched = Opaque("observer", "observer"), Opaque("scheduler", "scheduler")
        res = it.call(sub, [observer, sched], {})
        iters = [e for e in w.log if e[0] == "iter"]
        subs = [e for e in w.log if e[0] == "subscribe"]
        self.rec(ctx, uid + "/subscribe/one-iterator-of-the-iterable-per-subscription", len(iters) == 1 and iters[0][1] is seq and not [e for e in w.log if e[0] == "next"])
        ok = len(subs) == 1 and subs[0][1] is src
        self.rec(ctx, uid + "/subscribe/subscribes-the-source-exactly-once", ok)
        if not ok or len(iters) != 1:
            return
        a, kw = subs[0][2], subs[0][3]
        hs = (list(a) + [None] * 4)[:4]
        on_next, on_error, on_completed = hs[0], kw.get("on_error", hs[1]), kw.get("on_completed", hs[2])
        sch = kw.get("scheduler", hs[3])

        def is_method(h, name):
            return isinstance(h, OpaqueMethod) and h.obj is observer and h.name == name
        self.rec(ctx, uid + "/subscribe/errors-and-completion-of-the-source-go-straight-to-the-subscriber", is_method(on_error, "on_error") and is_method(on_completed, "on_completed"),
                 detail=f"{on_error!r} {on_completed!r}")
        self.rec(ctx, uid + "/subscribe/hands-the-scheduler-on-and-returns-the-source-subscription", sch is sched and res is subs[0][4])
        if not isinstance(on_next, Closure):
            self.rec(ctx, uid + "/on_next/is-a-function", False)
            return
        # one arbitrary element, from an arbitrary state of the iterator (some items taken already)
        w.exhausted = ctx.choose(2, "the iterator is exhausted") == 1
        w.log.clear()
        x = ctx.fresh("x", "val")
        try:
            it.call(on_next, [x], {})
        except PyExc as e:
            self.rec(ctx, uid + "/on_next/no-exception-escapes", False, detail=repr(e.value))
            return
        nexts = [e for e in w.log if e[0] == "next"]
        downs = [e for e in w.log if e[0] == "down"]
        self.rec(ctx, uid + "/on_next/asks-this-subscription's-iterator-for-exactly-one-item", len(nexts) == 1 and nexts[0][1] is iters[0][2]
                 and not [e for e in w.log if e[0] in ("iter", "subscribe")], detail=f"{w.log}")
        if not nexts:
            return
        if w.exhausted:
            self.rec(ctx, uid + "/on_next/an-exhausted-iterable-completes-the-output-without-the-element", len(downs) == 1 and downs[0][1] == "on_completed")
        else:
            r = nexts[0][2]
            ok = len(downs) == 1 and downs[0][1] == "on_next" and len(downs[0][2]) == 1 and isinstance(downs[0][2][0], tuple) and len(downs[0][2][0]) == 2 \
                and same(downs[0][2][0][0], x) and same(downs[0][2][0][1], r)
            self.rec(ctx, uid + "/on_next/emits-exactly-the-pair-of-the-element-and-that-item", ok, detail=f"{downs!r}")

    # -- wiring ---------------------------------------------------------------------------------------------------------------
    def hook(self, it, f, args, kwargs):
        if isinstance(f, OpTerm):
            if len(args) == 1 and isinstance(args[0], Opaque) and args[0].kind == "source" and not kwargs:
                return it.world.call(it, args[0], "pipe", [f], {})
            raise Unsupported(f"operator term applied to {args!r}")
        if isinstance(f, Closure) and f.module is not None:
            if f.module.name == OPS_MODULE and isinstance(f.node, ast.FunctionDef) and "." not in f.qualname and f.node.name not in self.real_ops:
                env = Env(None, f.module, f)
                it.bind_args(f, args, kwargs, env)
                return OpTerm(f.node.name, dict(env.vars))
            if f.module.name == "reactivex.pipe" and f.qualname == "compose":
                return OpTerm("<compose>", {"operators": list(args)})
            if f.module.name == "reactivex.internal.utils" and f.qualname == "infinite":
                return Opaque("iterable", "infinite()")
        return NOTSET

    def wire(self, ctx, real_ops=()):
        w = World2(self)
        it = Interp(self.loader, ctx, w)
        self.real_ops = set(real_ops)
        it.call_hook = self.hook
        it.externals["functools.wraps"] = Native("wraps", lambda it_, a, k: Native("wraps-decorator", lambda it2, a2, k2: a2[0]))
        return it, w

    @staticmethod
    def chain_of(r):
        return list(r.attrs.get("chain", ())) if isinstance(r, Opaque) and r.kind == "source" else None

    def apply_fn(self, it, ctx, fn, args):
        """run a small closure of the operator on symbolic arguments, user functions being opaque: -> (result, calls of user functions)"""
        calls = []
        orig = it.world.call

        def wcall(it_, o, method, a, k):
            if o.kind == "callback" and method == "__call__":
                r = ctx.fresh(f"{o.name}_result", "val")
                calls.append((o, list(a), dict(k), r))
                return r
            return orig(it_, o, method, a, k)
        it.world.call = wcall
        try:
            return it.call(fn, list(args), {}), calls
        finally:
            it.world.call = orig

    def run_map_indexed(self, ctx):
        uid = f"{OPS}_map.py::map_indexed_"
        it, w = self.wire(ctx)
        f = it.module_get("reactivex.operators._map", "map_indexed_")
        src = Opaque("source", "source", chain=())
        given = ctx.choose(2, "a mapper is given") == 1
        m = Opaque("callback", "mapper_indexed") if given else None
        r = it.call(it.call(f, [m] if given else [], {}), [src], {})
        ch = self.chain_of(r)
        ok = ch is not None and r.attrs.get("base") is src and len(ch) == 2 and ch[0].name == "zip_with_iterable" and ch[1].name == "starmap_indexed"
        self.rec(ctx, uid + "/is-the-source-zipped-with-an-iterable-then-starmapped-with-the-index", ok, detail=f"{r!r} {ch!r}")
        if not ok:
            return
        seq = list(ch[0].bound.values())[0] if len(ch[0].bound) == 1 else None
        self.rec(ctx, uid + "/the-iterable-is-a-fresh-infinite()", isinstance(seq, Opaque) and seq.name == "infinite()", detail=f"{seq!r}")
        mm = list(ch[1].bound.values())[0] if len(ch[1].bound) == 1 else None
        if given:
            self.rec(ctx, uid + "/the-given-mapper-is-what-sees-element-and-index", mm is m)
        else:
            x, i = ctx.fresh("x", "val"), ctx.fresh("i", "int")
            try:
                res, calls = self.apply_fn(it, ctx, mm, [x, i])
                self.rec(ctx, uid + "/without-a-mapper-the-element-itself-is-emitted", same(res, x) and not calls, detail=f"{res!r}")
            except (PyExc, Unsupported) as e:
                self.rec(ctx, uid + "/without-a-mapper-the-element-itself-is-emitted", False, detail=str(e))

    def run_starmap_indexed(self, ctx):
        uid = f"{OPS}__init__.py::starmap_indexed"
        it, w = self.wire(ctx, real_ops=("starmap_indexed",))
        f = it.module_get(OPS_MODULE, "starmap_indexed")
        m = Opaque("callback", "mapper")
        t = it.call(f, [m], {})
        ops_ = t.bound.get("operators") if isinstance(t, OpTerm) and t.name == "<compose>" else ([t] if isinstance(t, OpTerm) else None)
        ok = ops_ is not None and len(ops_) == 1 and isinstance(ops_[0], OpTerm) and ops_[0].name == "map" and len(ops_[0].bound) == 1
        self.rec(ctx, uid + "/is-one-map-stage", ok, detail=f"{t!r}")
        if not ok:
            return
        starred = list(ops_[0].bound.values())[0]
        x, i = ctx.fresh("x", "val"), ctx.fresh("i", "int")
        try:
            res, calls = self.apply_fn(it, ctx, starred, [(x, i)])
            ok2 = len(calls) == 1 and calls[0][0] is m and len(calls[0][1]) == 2 and same(calls[0][1][0], x) and same(calls[0][1][1], i) and not calls[0][2] and same(res, calls[0][3])
            self.rec(ctx, uid + "/maps-the-pair-to-the-mapper-applied-to-its-components-in-order", ok2, detail=f"{calls!r} -> {res!r}")
        except (PyExc, Unsupported) as e:
            self.rec(ctx, uid + "/maps-the-pair-to-the-mapper-applied-to-its-components-in-order", False, detail=str(e))

    def run_skip_while_indexed(self, ctx):
        uid = f"{OPS}_skipwhile.py::skip_while_indexed_"
        it, w = self.wire(ctx)
        f = it.module_get("reactivex.operators._skipwhile", "skip_while_indexed_")
        src = Opaque("source", "source", chain=())
        p = Opaque("callback", "predicate")
        r = it.call(it.call(f, [p], {}), [src], {})
        ch = self.chain_of(r)
        ok = ch is not None and r.attrs.get("base") is src and [c.name for c in ch] == ["map_indexed", "skip_while", "map"] and all(len(c.bound) == 1 for c in ch)
        self.rec(ctx, uid + "/is-index-then-skip_while-then-drop-the-index", ok, detail=f"{ch!r}")
        if not ok:
            return
        indexer, skipper, mapper = (list(c.bound.values())[0] for c in ch)
        x, i = ctx.fresh("x", "val"), ctx.fresh("i", "int")
        try:
            r1, c1 = self.apply_fn(it, ctx, indexer, [x, i])
            self.rec(ctx, uid + "/the-indexer-pairs-the-element-with-its-index", isinstance(r1, tuple) and len(r1) == 2 and same(r1[0], x) and same(r1[1], i) and not c1)
            r2, c2 = self.apply_fn(it, ctx, skipper, [(x, i)])
            self.rec(ctx, uid + "/the-skip-test-is-the-predicate-on-element-and-index", len(c2) == 1 and c2[0][0] is p and len(c2[0][1]) == 2 and same(c2[0][1][0], x)
                     and same(c2[0][1][1], i) and same(r2, c2[0][3]), detail=f"{c2!r}")
            r3, c3 = self.apply_fn(it, ctx, mapper, [(x, i)])
            self.rec(ctx, uid + "/what-is-emitted-is-the-element-without-its-index", same(r3, x) and not c3)
        except (PyExc, Unsupported) as e:
            self.rec(ctx, uid + "/closures-run", False, detail=str(e))

    def run_pluck_attr(self, ctx):
        uid = f"{OPS}_pluck.py::pluck_attr_"
        it, w = self.wire(ctx)
        f = it.module_get("reactivex.operators._pluck", "pluck_attr_")
        t = it.call(f, ["prop_name"], {})
        ok = isinstance(t, OpTerm) and t.name == "map" and len(t.bound) == 1
        self.rec(ctx, uid + "/is-one-map-stage", ok, detail=f"{t!r}")
        if not ok:
            return
        fn = list(t.bound.values())[0]
        got = []
        obj = Opaque("element", "x")
        orig = w.getattr
        w.getattr = lambda it_, o, name: (got.append(name) or Opaque("attr", name)) if o is obj else orig(it_, o, name)
        try:
            res = it.call(fn, [obj], {})
            self.rec(ctx, uid + "/maps-an-element-to-its-attribute-of-that-name", got == ["prop_name"] and isinstance(res, Opaque) and res.name == "prop_name", detail=f"{got} {res!r}")
        except (PyExc, Unsupported) as e:
            self.rec(ctx, uid + "/maps-an-element-to-its-attribute-of-that-name", False, detail=str(e))

    def run(self):
        t0 = time.time()
        try:
            for rel, q in ((OPS + "_zip.py", "zip_with_iterable_"), (OPS + "_map.py", "map_indexed_"), (OPS + "_skipwhile.py", "skip_while_indexed_"),
                           (OPS + "_pluck.py", "pluck_attr_"), (OPS + "__init__.py", "starmap_indexed")):
                self.functions[f"{rel}::{q}"] = self.loader.sha(rel, q)
            for f in (self.run_zip_with_iterable, self.run_map_indexed, self.run_starmap_indexed, self.run_skip_while_indexed, self.run_pluck_attr):
                for p in explore(f):
                    self.results.extend(p.results)
        except Unsupported as e:
            self.unsupported = str(e)
        except PyExc as e:
            self.unsupported = f"interpreter-level exception: {e.value!r} {getattr(e.value, 'fields', '')}"
        self.seconds = time.time() - t0
        return self


MUTANTS = [
    (OPS + "_zip.py", "        second = iter(seq)\n\n        def on_next", "        def on_next", None),
    (OPS + "_zip.py", "                result = (left, right)", "                result = (right, left)", "zip_with_iterable: pair reversed"),
    (OPS + "_zip.py", "            except StopIteration:\n                observer.on_completed()", "            except StopIteration:\n                observer.on_next((left, None))", "exhausted iterable keeps emitting"),
    (OPS + "_map.py", "        ops.zip_with_iterable(infinite()),", "        ops.zip_with_iterable(range(1, 1000000)),", "map_indexed counts from 1"),
    (OPS + "_map.py", "        return cast(_T2, value)", "        return cast(_T2, _)", "identity returns the index"),
    (OPS + "_skipwhile.py", "        return predicate(*x)", "        return predicate(x[0], x[1] + 1)", "predicate sees index + 1"),
    (OPS + "_skipwhile.py", "        return x[0]\n\n    return source.pipe(", "        return x[1]\n\n    return source.pipe(", "emits the index"),
]


def must_fail():
    out = {"mutants": 0, "killed": 0, "survivors": []}
    for (rel, a, b, name) in MUTANTS:
        if name is None:
            continue
        src = Loader().load_file(rel).src
        if a not in src:
            continue
        ld = Loader()
        ld.overrides = {rel: src.replace(a, b, 1)}
        h = IndexedHarness(ld).run()
        out["mutants"] += 1
        if h.unsupported or any(r.verdict == "refuted" for r in h.results):
            out["killed"] += 1
        else:
            out["survivors"].append(name)
    return out


def run_unit(desc):
    h = IndexedHarness().run()
    rep = {"unit": OPS + "::indexed-forms(zip_with_iterable_, map_indexed_, starmap_indexed, skip_while_indexed_, pluck_attr_)",
           "kind": "function contract (subscribe + one arbitrary element) and wiring contracts over the K1 contracts of map / skip_while",
           "functions": h.functions, "results": [r.as_dict() for r in h.results], "unsupported": h.unsupported, "spec_validation": [], "bounded": [],
           "replayable": {"runner": "diffrun.py", "module": "contracts.c05", "name": "map", "mode": "replay"}}
    if desc.get("tier") == "thorough" and not h.unsupported:
        mf = must_fail()
        rep["must_fail"] = dict(mf, unit=rep["unit"])
        if mf["mutants"] and mf["killed"] < mf["mutants"]:
            rep["crash"] = f"vacuity: must-fail mutants survived: {mf['survivors']}"
    return rep


_ = BoundMethod
