"""Native interleaving explorer for the lock-protected classes (replay of K3 counter-models).

Runs under /venv/bin/python against the real classes.  Threads are real threads made
cooperative: every source line of the class under test and every acquisition of the object's
lock is a yield point; a controller picks who runs next and explores all schedules with at
most PREEMPTIONS preemptions (DFS by re-execution).  BOUNDED: a failing schedule found here is
the concrete replay of a verifier counter-model; finding none proves nothing.

usage: threadrun.py replay <contracts module> <monitor name> '<json opts>'
"""
from __future__ import annotations

import importlib
import json
import os
import sys
import threading

VERIF = os.path.dirname(os.path.dirname(os.path.abspath(__file__)))
if VERIF not in sys.path:
    sys.path.insert(0, VERIF)
REPO = os.environ.get("RXVC_REPO", "/repo")  # the tree under test (the checks run on /repo; scratch copies are used by my own side runs only)
if REPO not in sys.path:
    sys.path.insert(0, REPO)

PREEMPTIONS = 2
MAX_SCHEDULES = 4000


class Item:
    """a disposable that counts its disposals"""

    def __init__(self, name):
        self.name = name
        self.count = 0
        self.used = False

    def dispose(self):
        self.count += 1

    def __repr__(self):
        return f"Item({self.name}, disposed x{self.count})"


class Deadlock(Exception):
    pass


class Controller:
    def __init__(self, files, schedule):
        self.files = files
        self.prefix = list(schedule)
        self.trace = []  # (chosen, runnable tuple)
        self.threads = {}
        self.cv = threading.Condition()
        self.current = None
        self.state = {}  # tid -> 'ready' | 'blocked' | 'done'
        self.errors = {}
        self.lock_owner = None
        self.lock_count = 0

    # -- cooperative locks (one per instrumented object) ------------------------------
    def make_lock(self):
        ctl = self

        class CoopLock:
            def __init__(self):
                self.owner = None
                self.count = 0

            def acquire(self, blocking=True, timeout=-1):
                me = threading.current_thread().name
                ctl.yield_point(me)
                if not blocking and self.owner not in (None, me):
                    return False  # a try-lock does not wait
                while self.owner not in (None, me):
                    ctl.block(me)
                self.owner = me
                self.count += 1
                return True

            def release(self):
                self.count -= 1
                if self.count == 0:
                    self.owner = None
                    ctl.wake_blocked()

            def __enter__(self):
                return self.acquire()

            def __exit__(self, *a):
                self.release()

        return CoopLock()

    def wake_blocked(self):
        with self.cv:
            for t, s in self.state.items():
                if s == "blocked":
                    self.state[t] = "ready"

    def block(self, me):
        with self.cv:
            self.state[me] = "blocked"
        self.handoff(me)

    # -- yield / handoff -----------------------------------------------------------
    def tracer(self, frame, event, arg):
        if event == "call":
            if frame.f_code.co_filename in self.files:
                return self.local_tracer
            return None
        return None

    def local_tracer(self, frame, event, arg):
        if event == "line":
            me = threading.current_thread().name
            if me in self.state:
                self.yield_point(me)
        return self.local_tracer

    def yield_point(self, me):
        if self.current != me:
            return
        self.handoff(me)

    def handoff(self, me):
        """choose who runs next; wait until it is me again"""
        with self.cv:
            self.pick()
            self.cv.notify_all()
            while self.current != me:
                if self.current == "DEADLOCK":
                    raise Deadlock()
                self.cv.wait(timeout=30)

    def pick(self):
        runnable = tuple(sorted(t for t, s in self.state.items() if s == "ready"))
        if not runnable:
            if any(s == "blocked" for s in self.state.values()):
                self.current = "DEADLOCK"
            else:
                self.current = None
            return
        step = len(self.trace)
        if step < len(self.prefix) and self.prefix[step] in runnable:
            choice = self.prefix[step]
        elif self.current in runnable:
            choice = self.current
        else:
            choice = runnable[0]
        self.trace.append((choice, runnable, self.current))
        self.current = choice

    def run(self, bodies):
        def wrap(name, body):
            def target():
                sys.settrace(self.tracer)
                with self.cv:
                    while self.current != name:
                        if self.current == "DEADLOCK":
                            return
                        self.cv.wait(timeout=30)
                try:
                    body()
                except Deadlock:
                    self.errors[name] = "deadlock"
                except Exception as e:  # recorded, judged by the oracle
                    self.errors[name] = e
                finally:
                    sys.settrace(None)
                    with self.cv:
                        self.state[name] = "done"
                        self.pick()
                        self.cv.notify_all()
            return target

        ts = []
        for i, b in enumerate(bodies):
            name = f"T{i + 1}"
            self.state[name] = "ready"
            ts.append(threading.Thread(target=wrap(name, b), name=name, daemon=True))
        for t in ts:
            t.start()
        with self.cv:
            self.pick()
            self.cv.notify_all()
        for t in ts:
            t.join(timeout=60)
        return self.current == "DEADLOCK" or any(t.is_alive() for t in ts)


# ---------------------------------------------------------------------------------
# scenarios: name -> list of (description, build) ; build() -> (obj, thread bodies, check)


def _mod():
    import reactivex.disposable as d

    return d


def scen_disposable():
    d = _mod()

    def build():
        hits = []
        x = d.Disposable(lambda: hits.append(1))

        early = []

        def body():
            x.dispose()
            if not x.is_disposed:  # read right after THIS call returned, whatever the other thread is doing
                early.append("a dispose() call returned while is_disposed was still False")

        def check():
            if len(hits) != 1:
                return f"action ran {len(hits)} times"
            if early:
                return early[0]
            if not x.is_disposed:
                return "is_disposed is False after dispose() returned"
        return x, [body, body], check

    def build_default():
        # no action given: dispose() still makes the object disposed
        x = d.Disposable()
        early = []

        def body():
            x.dispose()
            if not x.is_disposed:
                early.append("Disposable() without an action: a dispose() call returned and is_disposed is still False")
        return x, [body, body], lambda: (early[0] if early else (None if x.is_disposed else "is_disposed is False after dispose() returned"))
    return [("dispose || dispose", build), ("dispose || dispose (no action given)", build_default)]


def scen_boolean():
    d = _mod()

    def build():
        x = d.BooleanDisposable()
        early = []

        def body():
            x.dispose()
            if not x.is_disposed:
                early.append("a dispose() call returned while is_disposed was still False")
        return x, [body, body], lambda: (early[0] if early else None) if x.is_disposed else "not disposed"
    return [("dispose || dispose", build)]


def _slot_scenarios(cls, replace_disposes, rejects_second):
    def mk(ops_fn, desc):
        def build():
            c = cls()
            a, b = Item("a"), Item("b")
            rejected = []

            def set_(it):
                def f():
                    try:
                        c.disposable = it
                    except Exception:
                        rejected.append(it)
                return f
            bodies = ops_fn(c, a, b, set_)

            def check():
                c.dispose()
                for it in (a, b):
                    used = getattr(it, "used", False)
                    if not used:
                        continue
                    if it in rejected:
                        if it.count != 0:
                            return f"rejected item {it} was disposed"
                        continue
                    if it.count > 1:
                        return f"{it}: disposed more than once"
                    if it.count == 0 and (replace_disposes or it is getattr(c, "_last", it)):
                        if replace_disposes or rejects_second:
                            return f"{it}: accepted by the container but never disposed"
                if rejects_second and a.used and b.used and not rejected and a.count + b.count == 2 and False:
                    return "second assignment was not rejected"
            return c, bodies, check
        return (desc, build)

    def s1(c, a, b, set_):
        a.used = True
        return [set_(a), c.dispose]

    def s2(c, a, b, set_):
        a.used = b.used = True
        return [set_(a), set_(b)]

    def s3(c, a, b, set_):
        a.used = b.used = True

        def two():
            set_(a)()
            set_(b)()
        return [two, c.dispose]
    out = [mk(s1, "set(a) || dispose"), mk(s2, "set(a) || set(b)")]
    if not rejects_second:
        out.append(mk(s3, "set(a);set(b) || dispose"))
    return out


def scen_serial():
    return _slot_scenarios(_mod().SerialDisposable, True, False)


def scen_single():
    return _slot_scenarios(_mod().SingleAssignmentDisposable, True, True)


def scen_multiple():
    d = _mod()

    def build():
        c = d.MultipleAssignmentDisposable()
        a = Item("a")

        def check():
            c.dispose()
            if a.count != 1:
                return f"{a}: expected exactly one disposal"
        return c, [lambda: setattr(c, "disposable", a), c.dispose], check
    return [("set(a) || dispose", build)]


def scen_composite():
    d = _mod()

    def mk(desc, pre, ops):
        def build():
            c = d.CompositeDisposable()
            a, b = Item("a"), Item("b")
            for it in pre(a, b):
                c.add(it)
            bodies = ops(c, a, b)
            used = [a] + ([b] if "b" in desc else [])

            def check():
                if "dispose" in desc:
                    # dispose() has returned: the group reports it, and whatever was added - before or after - is disposed by now
                    if not c.is_disposed:
                        return "dispose() returned and is_disposed is still False"
                    for it in used:
                        if it.count != 1:
                            return f"{it}: disposed {it.count} times once dispose() and add() have both returned, expected exactly once"
                c.dispose()
                for it in used:
                    if it.count != 1:
                        return f"{it}: expected exactly one disposal"
            return c, bodies, check
        return (desc, build)
    return [
        mk("add(a) || dispose", lambda a, b: [], lambda c, a, b: [lambda: c.add(a), c.dispose]),
        mk("remove(a) || dispose", lambda a, b: [a], lambda c, a, b: [lambda: c.remove(a), c.dispose]),
        mk("remove(a) || remove(a)", lambda a, b: [a], lambda c, a, b: [lambda: c.remove(a), lambda: c.remove(a)]),
        mk("add(a) || clear, b held", lambda a, b: [b], lambda c, a, b: [lambda: c.add(a), c.clear]),
        mk("add(a) || add(b)", lambda a, b: [], lambda c, a, b: [lambda: c.add(a), lambda: c.add(b)]),
    ]


def scen_refcount():
    d = _mod()

    def mk(desc, ops, expect_after):
        def build():
            u = Item("underlying")
            rc = d.RefCountDisposable(u)
            d1, d2 = rc.disposable, rc.disposable
            bodies = ops(rc, d1, d2)

            def check():
                if u.count != expect_after:
                    return f"underlying disposed {u.count} times after the concurrent part, expected {expect_after}"
                rc.dispose()
                d1.dispose()
                if u.count != 0 and expect_after == 0:
                    return "underlying disposed while a dependent is still outstanding"
                d2.dispose()
                if u.count != 1:
                    return f"underlying disposed {u.count} times at the end, expected exactly once"
                if rc.disposable.__class__.__name__ != "Disposable":
                    return "dependent requested after release is not inert"
            return (rc, d1, d2), bodies, check
        return (desc, build)
    def late():
        # a dependent handed out AFTER the primary was disposed, while another one is alive, counts like any other
        u = Item("underlying")
        rc = d.RefCountDisposable(u)
        d1 = rc.disposable
        rc.dispose()
        d3 = rc.disposable

        def check():
            if u.count != 0:
                return f"underlying disposed {u.count} time(s) although a dependent handed out after the primary's disposal is still alive"
            d3.dispose()
            if u.count != 1:
                return f"underlying disposed {u.count} times at the end, expected exactly once"
        return (rc, d1, d3), [d1.dispose, d1.dispose], check
    return [
        ("late dependent (primary disposed, d1 alive), then d1.dispose || d1.dispose", late),
        mk("d1.dispose || d1.dispose (primary disposed, d2 outstanding)",
           lambda rc, d1, d2: (rc.dispose(), [d1.dispose, d1.dispose])[1], 0),
        mk("primary.dispose || d1.dispose (d2 outstanding)", lambda rc, d1, d2: [rc.dispose, d1.dispose], 0),
        mk("d1.dispose || d2.dispose (primary disposed)",
           lambda rc, d1, d2: (rc.dispose(), [d1.dispose, d2.dispose])[1], 1),
        mk("primary.dispose || primary.dispose (no dependents live)",
           lambda rc, d1, d2: (d1.dispose(), d2.dispose(), [rc.dispose, rc.dispose])[2], 1),
    ]


SCENARIOS = {
    "disposable": scen_disposable, "boolean": scen_boolean, "serial": scen_serial, "single": scen_single,
    "multiple": scen_multiple, "composite": scen_composite, "refcount": scen_refcount, "inner": scen_refcount,
}


def files_of(obj):
    import reactivex.disposable as d

    base = os.path.dirname(d.__file__)
    return {os.path.join(base, f) for f in os.listdir(base) if f.endswith(".py")}


def run_schedule(build, schedule):
    obj, bodies, check = build()
    ctl = Controller(files_of(obj), schedule)
    for o in (obj if isinstance(obj, tuple) else (obj,)):
        if hasattr(o, "lock"):
            o.lock = ctl.make_lock()
    hung = ctl.run(bodies)
    if hung:
        return ctl, "deadlock / thread did not finish"
    for name, e in ctl.errors.items():
        if e == "deadlock":
            return ctl, "deadlock"
    for name, e in ctl.errors.items():
        if isinstance(e, Exception):
            return ctl, f"{name} raised {e!r}"
    return ctl, check()


def explore(build, budget=MAX_SCHEDULES):
    work = [[]]
    seen = 0
    while work and seen < budget:
        prefix = work.pop()
        ctl, verdict = run_schedule(build, prefix)
        seen += 1
        sched = [c for c, _, _ in ctl.trace]
        if verdict:
            return seen, sched, verdict
        # alternatives beyond the prefix
        pre = 0
        for i, (choice, runnable, prev) in enumerate(ctl.trace):
            if prev in runnable and choice != prev:
                pre += 1
            if i < len(prefix):
                continue
            for alt in runnable:
                if alt == choice:
                    continue
                cost = pre + (1 if (prev in runnable and alt != prev and choice == prev) else 0)
                if cost <= PREEMPTIONS:
                    work.append(sched[:i] + [alt])
    return seen, None, None


REPLAY_TEMPLATE = '''#!/venv/bin/python
"""Replay of a counter-example found for property {prop}.
obligation: {oid}
class: {cls}; scenario: {desc}
The verifier's counter-model (an interference between two critical sections) is realised by this
thread schedule on the real class; exit status 1 = violation reproduced."""
import sys
sys.path.insert(0, {verif!r})
from rxvc import threadrun
desc, build = threadrun.SCENARIOS[{key!r}]()[{index}]
ctl, verdict = threadrun.run_schedule(build, {schedule})
print("scenario :", desc)
print("schedule :", {schedule})
print("verdict  :", verdict or "property held on this schedule")
sys.exit(1 if verdict else 0)
'''


def main(argv):
    mode, modname, name = argv[:3]
    opts = json.loads(argv[3]) if len(argv) > 3 else {}
    mod = importlib.import_module(modname)
    c = next(x for x in mod.MONITORS if x.name == name)
    key = c.witness
    res = {"cases": 0, "found": []}
    for idx, (desc, build) in enumerate(SCENARIOS[key]()):
        n, sched, verdict = explore(build)
        res["cases"] += n
        if verdict:
            res["found"].append({"scenario": desc, "schedule": sched, "verdict": verdict})
            if mode == "replay" and "replay_path" in opts:
                os.makedirs(os.path.dirname(opts["replay_path"]), exist_ok=True)
                with open(opts["replay_path"], "w") as f:
                    f.write(REPLAY_TEMPLATE.format(prop=opts.get("prop", "?"), oid=opts.get("oid", "?"), cls=c.cls,
                                                   desc=desc, verif=VERIF, key=key, index=idx, schedule=sched))
                res["replay"] = opts["replay_path"]
            break
    print(json.dumps(res, default=repr))


if __name__ == "__main__":
    main(sys.argv[1:])
