"""Native runner for C36 (replay / bounded cross-check of the time-conversion contracts and of A-float).

Runs under /venv/bin/python on the real Scheduler.to_seconds / to_datetime / to_timedelta.  Grid: microsecond-aligned
and non-aligned float seconds, timedeltas, aware datetimes in six time zones, including values next to +-2**53 us.
Oracle = the property: order is preserved by every conversion, round trips are exact for microsecond-aligned values
within +-2**53 us, a value that already has the target representation comes back unchanged, to_datetime yields aware UTC
datetimes, and every scheduler's `now` is a timezone-aware UTC datetime.  BOUNDED.

usage: timerun.py replay - conversions '<json opts>'
       timerun.py case '<json case>'
"""
from __future__ import annotations

import json
import os
import sys
from datetime import datetime, timedelta, timezone

VERIF = os.path.dirname(os.path.dirname(os.path.abspath(__file__)))
REPO = os.environ.get("RXVC_REPO", "/repo")
if REPO not in sys.path:
    sys.path.insert(0, REPO)

EPOCH = datetime(1970, 1, 1, tzinfo=timezone.utc)
ZONES = [0, 60, -300, 330, 765, -720]  # utc offsets in minutes
US = [0, 1, -1, 999999, 1000000, 1500000, 86400 * 10 ** 6, 1234567890123456, -1234567890123456, 2 ** 52 - 1, -(2 ** 52 - 1), 2 ** 52 - 7,
      1790000000 * 10 ** 6 + 1, 1790000000 * 10 ** 6 + 999999, 4102444800 * 10 ** 6]
FLOATS = [0.0, 1e-7, 0.1, 0.3, 1 / 3, 2.5e-6, 1.0000005, 1790000000.1234567, -0.0000004, 123456.7891011]


def S():
    from reactivex.scheduler.scheduler import Scheduler
    return Scheduler


def mk(case):
    k = case["kind"]
    if k == "float":
        return float(case["v"])
    if k == "td":
        return timedelta(microseconds=case["us"])
    return (EPOCH + timedelta(microseconds=case["us"])).astimezone(timezone(timedelta(minutes=case["zone"])))


def us_of(v):
    if isinstance(v, timedelta):
        return v // timedelta(microseconds=1)
    return (v - EPOCH) // timedelta(microseconds=1)


def check_one(case):
    Sc = S()
    v = mk(case)
    k = case["kind"]
    try:
        s, d, t = Sc.to_seconds(v), Sc.to_datetime(v), Sc.to_timedelta(v)
    except Exception as e:  # noqa: BLE001
        return f"conversion of {v!r} raised {e!r}"
    if k == "float" and s is not v and s != v:
        return f"to_seconds({v!r}) changed a float: {s!r}"
    if k == "td" and t is not v:
        return f"to_timedelta({v!r}) is not the argument itself"
    if k == "dt" and d is not v:
        return f"to_datetime({v!r}) is not the argument itself"
    if not isinstance(s, float) and not isinstance(s, int):
        return f"to_seconds({v!r}) returned {type(s).__name__}"
    if not isinstance(d, datetime) or d.tzinfo is None or d.utcoffset() is None:
        return f"to_datetime({v!r}) = {d!r} is not a timezone-aware datetime"
    if k != "dt" and d.utcoffset() != timedelta(0):
        return f"to_datetime({v!r}) = {d!r} is not in UTC"
    if not isinstance(t, timedelta):
        return f"to_timedelta({v!r}) returned {type(t).__name__}"
    if k in ("td", "dt"):
        u = case["us"]
        if us_of(t) != u:
            return f"to_timedelta({v!r}) = {t!r}: {us_of(t)} us, the argument denotes {u} us"
        if us_of(d) != u:
            return f"to_datetime({v!r}) = {d!r}: instant {us_of(d)} us, the argument denotes {u} us"
        if abs(u) < 2 ** 52:
            # round trips through float seconds are exact for microsecond-aligned values
            if us_of(Sc.to_timedelta(s)) != u:
                return f"to_timedelta(to_seconds({v!r})) = {Sc.to_timedelta(s)!r}: not the same span ({u} us)"
            if us_of(Sc.to_datetime(s)) != u:
                return f"to_datetime(to_seconds({v!r})) = {Sc.to_datetime(s)!r}: not the same instant ({u} us)"
        if Sc.to_seconds(d) != s or Sc.to_seconds(t) != s:
            return f"to_seconds disagrees between {v!r}, its datetime {d!r} and its timedelta {t!r}"
    else:
        if us_of(d) != us_of(t):
            return f"to_datetime({v!r}) and to_timedelta({v!r}) denote different instants"
    return None


def check_order(a, b):
    Sc = S()
    va, vb = mk(a), mk(b)
    if a["kind"] == "float":
        le = va <= vb
    else:
        le = a["us"] <= b["us"]
    if not le:
        return None
    for name in ("to_seconds", "to_datetime", "to_timedelta"):
        f = getattr(Sc, name)
        ra, rb = f(va), f(vb)
        if not ra <= rb:
            return f"{name} does not preserve order: {va!r} <= {vb!r} but {ra!r} > {rb!r}"
    return None


def check_now():
    import reactivex.scheduler as sch
    from reactivex.scheduler.eventloop import AsyncIOScheduler  # noqa: F401
    out = []
    import asyncio
    loop = asyncio.new_event_loop()
    try:
        cands = [sch.ImmediateScheduler(), sch.CurrentThreadScheduler(), sch.TimeoutScheduler(), sch.NewThreadScheduler(), sch.EventLoopScheduler(),
                 sch.ThreadPoolScheduler(1), sch.VirtualTimeScheduler(), sch.HistoricalScheduler(), sch.CatchScheduler(sch.ImmediateScheduler(), lambda e: True),
                 sch.TrampolineScheduler(), AsyncIOScheduler(loop)]
        for s in cands:
            n = s.now
            if not isinstance(n, datetime) or n.tzinfo is None or n.utcoffset() != timedelta(0):
                out.append(f"{type(s).__name__}.now = {n!r} is not a timezone-aware UTC datetime")
            if hasattr(s, "dispose"):
                try:
                    s.dispose()
                except Exception:  # noqa: BLE001
                    pass
    finally:
        loop.close()
    return out


def cases():
    for f in FLOATS:
        yield {"kind": "float", "v": f}
    for u in US:
        yield {"kind": "td", "us": u}
        for z in ZONES:
            if abs(u) < 2 ** 53 and -62135596800 * 10 ** 6 < u < 253402300799 * 10 ** 6:
                if u > -(10 ** 15) or z == 0:
                    yield {"kind": "dt", "us": u, "zone": z}


REPLAY_TEMPLATE = '''#!/venv/bin/python
"""Replay of a violation of property {prop} (time conversions).
obligation: {oid}
case: {case}
{what}
Exit 1 when it reproduces on the tree under RXVC_REPO (default /repo)."""
import subprocess, sys
r = subprocess.run(["/venv/bin/python", "{verif}/rxvc/timerun.py", "case", {case!r}])
sys.exit(r.returncode)
'''


def run_case(c):
    if c.get("pair"):
        return check_order(*c["pair"])
    if c.get("now"):
        r = check_now()
        return r[0] if r else None
    return check_one(c)


PROCESS_ZONES = ["JST-9", "EST5EDT,M3.2.0,M11.1.0", "NZST-12NZDT,M9.5.0,M4.1.0/3"]  # POSIX TZ strings: no tz database needed


def set_process_zone(tz):
    """the process's local time zone is an input of every naive-datetime operation: the library is imported (its epoch constant built) under it"""
    import time as _time
    if tz:
        os.environ["TZ"] = tz
        _time.tzset()


def table(tz=None):
    n, found = 0, None
    cs = list(cases())
    todo = [dict(c) for c in cs] + [{"pair": [a, b]} for a in cs for b in cs if a["kind"] == b["kind"]] + [{"now": True}]
    for c in todo:
        n += 1
        try:
            r = run_case(c)
        except OverflowError:
            continue
        except Exception as e:  # noqa: BLE001
            r = f"raised {e!r}"
        if r:
            if tz:
                c = dict(c, tz=tz)
                r = f"[process time zone TZ={tz}] {r}"
            found = {"case": c, "disagreement": r}
            break
    return n, found


def main(argv):
    if argv[0] == "case":
        c = json.loads(argv[1])
        set_process_zone(c.get("tz"))
        r = run_case(c)
        print(json.dumps({"violation": r}))
        sys.exit(1 if r else 0)
    if argv[0] == "table":
        set_process_zone(argv[1])
        n, found = table(argv[1])
        print(json.dumps({"cases": n, "found": found}, default=repr))
        return
    opts = json.loads(argv[3]) if len(argv) > 3 else {}
    n, found = table()
    zones_run = [os.environ.get("TZ") or "(as started)"]
    if not found:
        import subprocess
        for tz in PROCESS_ZONES:
            p = subprocess.run([sys.executable, os.path.abspath(__file__), "table", tz], capture_output=True, text=True, timeout=250)
            try:
                r = json.loads(p.stdout.strip().splitlines()[-1])
            except Exception:  # noqa: BLE001
                r = {"cases": 0, "found": {"case": {"now": True, "tz": tz}, "disagreement": f"the table did not run under TZ={tz}: {p.stderr[-300:]}"}}
            n += r["cases"]
            zones_run.append(tz)
            if r["found"]:
                found = r["found"]
                break
    res = {"cases": n, "found": [found] if found else [], "process_time_zones": zones_run}
    if found and "replay_path" in opts:
        os.makedirs(os.path.dirname(opts["replay_path"]), exist_ok=True)
        with open(opts["replay_path"], "w") as f:
            f.write(REPLAY_TEMPLATE.format(prop=opts.get("prop", "C36"), oid=opts.get("oid", "?"), verif=VERIF, case=json.dumps(found["case"]), what=found["disagreement"]))
        res["replay"] = opts["replay_path"]
    print(json.dumps(res, default=repr))


if __name__ == "__main__":
    main(sys.argv[1:])
