"""Native pipeline runner for C02 / C03 (replay of K5 ownership violations and of AutoDetachObserver contract
violations; bounded cross-check in the thorough tier).

Runs under /venv/bin/python on a TestScheduler.  Every source of a pipeline is a cold test observable, which logs its
subscriptions (subscribe time, unsubscribe time).  Oracles, from the properties:

  C02  once the subscriber has received its terminal notification (and every group / window handed to it was subscribed
       by it and ended or was unsubscribed), no logged subscription of any source is still open;
  C03  the subscription is disposed at virtual time D: no notification is received after D, no user callback of the
       pipeline runs after D, and every logged subscription is closed no later than D.

BOUNDED: the table of pipeline shapes below x termination patterns of the two sources x every distinct dispose time.

usage: ownrun.py replay - <file::function or 'all'> '<json opts>'
       ownrun.py case '<json case>'        (exit 1 when the oracle is violated)
"""
from __future__ import annotations

import itertools
import json
import os
import sys

VERIF = os.path.dirname(os.path.dirname(os.path.abspath(__file__)))
REPO = os.environ.get("RXVC_REPO", "/repo")
if REPO not in sys.path:
    sys.path.insert(0, REPO)

#: name -> (file of the stage the shape exercises, pipeline over a, b (cold sources), cb (a counting identity callback))
TABLE = {
    "map": ("_map.py", "a.pipe(ops.map(cb))"),
    "filter": ("_filter.py", "a.pipe(ops.filter(lambda x: cb(x) is not None))"),
    "take": ("_take.py", "a.pipe(ops.take(2))"),
    "take_while": ("_takewhile.py", "a.pipe(ops.take_while(lambda x: cb(x) < 2))"),
    "first": ("_first.py", "a.pipe(ops.first())"),
    "scan": ("_scan.py", "a.pipe(ops.scan(lambda s, x: cb(s + x), 0))"),
    "distinct_until_changed": ("_distinctuntilchanged.py", "a.pipe(ops.distinct_until_changed())"),
    "merge": ("_merge.py", "a.pipe(ops.merge(b))"),
    "merge_all": ("_merge.py", "a.pipe(ops.map(lambda x: b), ops.merge_all())"),
    "merge_max1": ("_merge.py", "a.pipe(ops.map(lambda x: b), ops.merge(max_concurrent=1))"),
    "flat_map": ("_flatmap.py", "a.pipe(ops.flat_map(lambda x: b))"),
    "concat": ("concat.py", "a.pipe(ops.concat(b))"),
    "concat_map": ("_concatmap.py", "a.pipe(ops.concat_map(lambda x: b))"),
    "switch_latest": ("_switchlatest.py", "a.pipe(ops.map(lambda x: b), ops.switch_latest())"),
    "zip": ("zip.py", "a.pipe(ops.zip(b))"),
    "combine_latest": ("combinelatest.py", "a.pipe(ops.combine_latest(b))"),
    "with_latest_from": ("withlatestfrom.py", "a.pipe(ops.with_latest_from(b))"),
    "fork_join": ("forkjoin.py", "a.pipe(ops.fork_join(b))"),
    "amb": ("_amb.py", "a.pipe(ops.amb(b))"),
    "take_until": ("_takeuntil.py", "a.pipe(ops.take_until(b))"),
    "skip_until": ("_skipuntil.py", "a.pipe(ops.skip_until(b))"),
    "sample": ("_sample.py", "a.pipe(ops.sample(b))"),
    "sample_period": ("_sample.py", "a.pipe(ops.sample(12))"),
    "debounce": ("_debounce.py", "a.pipe(ops.debounce(5))"),
    "throttle_with_mapper": ("_debounce.py", "a.pipe(ops.throttle_with_mapper(lambda x: b))"),
    "throttle_first": ("_throttlefirst.py", "a.pipe(ops.throttle_first(15))"),
    "delay": ("_delay.py", "a.pipe(ops.delay(7))"),
    "delay_subscription": ("_delaysubscription.py", "a.pipe(ops.delay_subscription(7))"),
    "delay_with_mapper": ("_delaywithmapper.py", "a.pipe(ops.delay_with_mapper(lambda x: b))"),
    "timeout": ("_timeout.py", "a.pipe(ops.timeout(15, b))"),
    "timeout_with_mapper": ("_timeoutwithmapper.py", "a.pipe(ops.timeout_with_mapper(b, lambda x: b, b))"),
    "take_with_time": ("_takewithtime.py", "a.pipe(ops.take_with_time(25))"),
    "skip_with_time": ("_skipwithtime.py", "a.pipe(ops.skip_with_time(15))"),
    "take_until_with_time": ("_takeuntilwithtime.py", "a.pipe(ops.take_until_with_time(25))"),
    "skip_until_with_time": ("_skipuntilwithtime.py", "a.pipe(ops.skip_until_with_time(15))"),
    "take_last_with_time": ("_takelastwithtime.py", "a.pipe(ops.take_last_with_time(15))"),
    "catch": ("_catch.py", "a.pipe(ops.catch(b))"),
    "catch_handler": ("_catch.py", "a.pipe(ops.catch(lambda e, s: b))"),
    "on_error_resume_next": ("_onerrorresumenext.py", "a.pipe(ops.on_error_resume_next(b))"),
    "retry": ("_retry.py", "a.pipe(ops.retry(2))"),
    "repeat": ("_repeat.py", "a.pipe(ops.repeat(2))"),
    "start_with": ("_startswith.py", "a.pipe(ops.start_with(0))"),
    "do_while": ("_dowhile.py", "a.pipe(ops.do_while(lambda _: cb(0) is None))"),
    "expand": ("_expand.py", "a.pipe(ops.take(1), ops.expand(lambda x: b if x == 1 else rx.empty()))"),
    "sequence_equal": ("_sequenceequal.py", "a.pipe(ops.sequence_equal(b))"),
    "window": ("_window.py", "a.pipe(ops.window(b), ops.merge_all())"),
    "window_when": ("_window.py", "a.pipe(ops.window_when(lambda: b), ops.merge_all())"),
    "window_toggle": ("_window.py", "a.pipe(ops.window_toggle(b, lambda x: b), ops.merge_all())"),
    "window_with_count": ("_windowwithcount.py", "a.pipe(ops.window_with_count(2, 1), ops.merge_all())"),
    "window_with_time": ("_windowwithtime.py", "a.pipe(ops.window_with_time(12, 7), ops.merge_all())"),
    "window_with_time_or_count": ("_windowwithtimeorcount.py", "a.pipe(ops.window_with_time_or_count(12, 2), ops.merge_all())"),
    "buffer": ("_buffer.py", "a.pipe(ops.buffer(b))"),
    "buffer_with_time": ("_bufferwithtime.py", "a.pipe(ops.buffer_with_time(12))"),
    "buffer_when": ("_window.py", "a.pipe(ops.buffer_when(lambda: b))"),
    "group_by_not_taken": ("_groupbyuntil.py", "a.pipe(ops.group_by(lambda x: x % 2, lambda x: x))"),
    "group_by_until_not_taken": ("_groupbyuntil.py", "a.pipe(ops.group_by_until(lambda x: x % 2, lambda x: x, lambda g: b))"),
    "group_join_not_taken": ("_groupjoin.py", "a.pipe(ops.group_join(b, lambda x: rx.timer(8), lambda y: rx.timer(8)))"),
    "group_by": ("_groupby.py", "a.pipe(ops.group_by(lambda x: x % 2), ops.merge_all())"),
    "group_by_until": ("_groupbyuntil.py", "a.pipe(ops.group_by_until(lambda x: x % 2, None, lambda g: b), ops.merge_all())"),
    "group_by_until_group_duration": ("_groupbyuntil.py", "a.pipe(ops.group_by_until(lambda x: x % 2, None, lambda g: g.pipe(ops.skip(1))), ops.merge_all())"),
    "group_by_window_held": ("_groupbyuntil.py", "a.pipe(ops.group_by(lambda x: x % 2), ops.flat_map(lambda g: g.pipe(ops.take(1))))"),
    "join": ("_join.py", "a.pipe(ops.join(b, lambda x: rx.timer(8), lambda y: rx.timer(8)))"),
    "group_join": ("_groupjoin.py", "a.pipe(ops.group_join(b, lambda x: rx.timer(8), lambda y: rx.timer(8)), ops.flat_map(lambda t: t[1]))"),
    "publish_ref_count": ("_refcount.py", "a.pipe(ops.publish(), ops.ref_count())"),
    "share": ("_publish.py", "a.pipe(ops.share())"),
    "replay_ref_count": ("_replay.py", "a.pipe(ops.replay(buffer_size=1), ops.ref_count())"),
    "finally_action": ("_finallyaction.py", "a.pipe(ops.finally_action(lambda: None))"),
    "using": ("using.py", "rx.using(lambda: Disposable(), lambda r: a)"),
    "defer": ("defer.py", "rx.defer(lambda s: a)"),
    "if_then": ("ifthen.py", "rx.if_then(lambda: True, a, b)"),
    "case": ("case.py", "rx.case(lambda: 1, {1: a}, b)"),
    "observe_on": ("_observeon.py", "a.pipe(ops.observe_on(scheduler))"),
    "subscribe_on": ("_subscribeon.py", "a.pipe(ops.subscribe_on(scheduler))"),
    "chain": ("observable.py", "a.pipe(ops.map(cb), ops.merge(b), ops.take(3), ops.filter(lambda x: True))"),
}

A_TIMELINES = [
    [(10, "N", 1), (20, "N", 2), (30, "N", 3), (40, "C", None)],
    [(10, "N", 1), (20, "N", 2), (30, "E", None)],
    [(10, "N", 1), (20, "N", 2), (30, "N", 3)],
    [(10, "C", None)],
]
B_TIMELINES = [
    [(15, "N", 7), (25, "N", 8), (35, "C", None)],
    [(15, "N", 7), (25, "E", None)],
    [(5, "N", 7)],
    [(15, "C", None)],
]


def run_case(c):
    import sys as _sys
    import reactivex as rx
    from reactivex import operators as ops
    from reactivex.disposable import Disposable
    from reactivex.testing import ReactiveTest, TestScheduler
    scheduler = TestScheduler()

    def cold(tl):
        ms = []
        for (t, k, v) in tl:
            ms.append(ReactiveTest.on_next(t, v) if k == "N" else (ReactiveTest.on_completed(t) if k == "C" else ReactiveTest.on_error(t, RuntimeError("source failed"))))
        return scheduler.create_cold_observable(*ms)
    a, b = cold(c["a"]), cold(c["b"])
    calls = []

    def cb(x):
        calls.append(scheduler.clock)
        return x
    env = {"ops": ops, "rx": rx, "a": a, "b": b, "cb": cb, "scheduler": scheduler, "Disposable": Disposable}
    expr = TABLE[c["name"]][1]
    D = c.get("dispose")
    K = c.get("dispose_in_on_next")
    if K is not None:
        # the subscriber unsubscribes from INSIDE its K-th on_next: every user function of the pipeline (each lambda of the shape is
        # wrapped to log its calls) must stay silent from then on, and no notification arrives
        import ast as _ast
        ucalls = []

        def _u(f):
            def g(*args, **kw):
                ucalls.append(getattr(f, "__name__", "lambda"))
                return f(*args, **kw)
            return g

        class Wrap(_ast.NodeTransformer):
            def visit_Lambda(self, n):
                self.generic_visit(n)
                return _ast.copy_location(_ast.Call(func=_ast.Name(id="_u", ctx=_ast.Load()), args=[n], keywords=[]), n)
        tree = _ast.fix_missing_locations(Wrap().visit(_ast.parse(expr, mode="eval")))
        env["_u"] = _u
        env["cb"] = _u(lambda x: x)
        code = compile(tree, "<shape>", "eval")
        msgs, box, mark = [], {}, {}
        from reactivex.disposable import SerialDisposable
        sd = SerialDisposable()

        def on_next(v):
            msgs.append((int(scheduler.clock), "N"))
            if len([m for m in msgs if m[1] == "N"]) == K:
                sd.dispose()
                mark["calls"], mark["msgs"], mark["t"] = len(ucalls), len(msgs), int(scheduler.clock)
        scheduler.schedule_absolute(100, lambda s_, st: box.__setitem__("o", eval(code, env)))
        scheduler.schedule_absolute(200, lambda s_, st: sd.__setattr__("disposable", box["o"].subscribe(
            on_next, lambda e: msgs.append((int(scheduler.clock), "E")), lambda: msgs.append((int(scheduler.clock), "C")), scheduler=scheduler)))
        scheduler.schedule_absolute(1000, lambda s_, st: sd.dispose())
        scheduler.start()
        subs = [(n, int(s.subscribe), (None if s.unsubscribe == _sys.maxsize else int(s.unsubscribe))) for n, o in (("a", a), ("b", b)) for s in o.subscriptions]
        out = {"messages": msgs, "subscriptions": subs}
        if "t" not in mark:
            return None
        if len(msgs) > mark["msgs"]:
            return dict(out, what=f"C03: notifications after the subscriber unsubscribed inside its on_next #{K} at {mark['t']}: {msgs[mark['msgs']:]}")
        if len(ucalls) > mark["calls"]:
            return dict(out, what=f"C03: {len(ucalls) - mark['calls']} user function call(s) of the pipeline ran after the subscriber unsubscribed inside its "
                                  f"on_next #{K} at {mark['t']}")
        open_ = [s_ for s_ in subs if s_[2] is None or s_[2] > mark["t"]]
        if open_:
            return dict(out, what=f"C03: unsubscribing inside on_next #{K} at {mark['t']} left source subscriptions open (or closed them later): {open_}")
        return None
    if c.get("subscriber_raises"):
        # the subscriber's own terminal callback raises: the exception goes to whoever emitted, the sources are released all the same
        msgs, box = [], {}

        class Boom(Exception):
            pass

        def on_terminal(kind):
            msgs.append((int(scheduler.clock), kind))
            raise Boom()
        scheduler.schedule_absolute(100, lambda s_, st: box.__setitem__("o", eval(expr, env)))
        scheduler.schedule_absolute(200, lambda s_, st: box.__setitem__("d", box["o"].subscribe(
            lambda v: msgs.append((int(scheduler.clock), "N")), lambda e: on_terminal("E"), lambda: on_terminal("C"), scheduler=scheduler)))
        scheduler.schedule_absolute(D if D is not None else 100000, lambda s_, st: box["d"].dispose())
        for _ in range(50):
            try:
                scheduler.start()
                break
            except Boom:
                scheduler.is_enabled = False
                continue
    else:
        res = scheduler.start(lambda: eval(expr, env), created=100, subscribed=200, disposed=(D if D is not None else 100000))
        msgs = [(int(m.time), m.value.kind) for m in res.messages]
    subs = [(n, int(s.subscribe), (None if s.unsubscribe == _sys.maxsize else int(s.unsubscribe))) for n, o in (("a", a), ("b", b)) for s in o.subscriptions]
    out = {"messages": msgs, "subscriptions": subs}
    term = next((t for (t, k) in msgs if k in ("C", "E")), None)
    if D is None:
        if term is not None:
            open_ = [s for s in subs if s[2] is None or s[2] > term]
            if open_:
                return dict(out, what=f"C02: the subscriber got its terminal notification at {term} but source subscriptions are still open afterwards: {open_}")
        return None
    late = [m for m in msgs if m[0] > D]
    if late:
        return dict(out, what=f"C03: notifications after dispose() at {D}: {late}")
    latecalls = [t for t in calls if t > D]
    if latecalls:
        return dict(out, what=f"C03: a user callback of the pipeline ran at {latecalls[0]}, after dispose() at {D}")
    if term is None or term > D:
        open_ = [s for s in subs if s[2] is None or s[2] > D]
        if open_:
            return dict(out, what=f"C03: dispose() at {D} left source subscriptions open (or closed them later): {open_}")
    return None


def cases(names):
    for name in names:
        for ta, tb in itertools.product(A_TIMELINES, B_TIMELINES):
            times = sorted({200 + t for (t, _k, _v) in ta} | {200 + t for (t, _k, _v) in tb} | {200, 205, 228, 260})
            yield {"name": name, "a": ta, "b": tb, "dispose": None}
            yield {"name": name, "a": ta, "b": tb, "dispose": None, "subscriber_raises": True}
            yield {"name": name, "a": ta, "b": tb, "dispose": 290, "subscriber_raises": True}
            for D in times:
                yield {"name": name, "a": ta, "b": tb, "dispose": D}
            for K in (1, 2, 3):
                yield {"name": name, "a": ta, "b": tb, "dispose_in_on_next": K}


REPLAY_TEMPLATE = '''#!/venv/bin/python
"""Replay of a violation of property {prop} (subscription ownership / unsubscription).
obligation: {oid}
pipeline: {expr}   over cold test sources a = {a}, b = {b}; dispose at {dispose}
outcome: {what}
Exit 1 when it reproduces on the tree under RXVC_REPO (default /repo)."""
import subprocess, sys
r = subprocess.run(["/venv/bin/python", "{verif}/rxvc/ownrun.py", "case", {case!r}])
sys.exit(r.returncode)
'''


def main(argv):
    if argv[0] == "case":
        c = json.loads(argv[1])
        try:
            r = run_case(c)
        except Exception as e:  # noqa: BLE001
            r = {"what": f"the pipeline raised {e!r}"}
        print(json.dumps({"violation": r}, default=repr))
        sys.exit(1 if r else 0)
    target = argv[2] if len(argv) > 2 else "all"
    opts = json.loads(argv[3]) if len(argv) > 3 else {}
    oid = opts.get("oid", "")
    names = list(TABLE)
    hit = [n for n in names if TABLE[n][0] in target or TABLE[n][0] in oid]
    order = hit + [n for n in names if n not in hit] if not opts.get("only_matching") else hit
    n, found = 0, None
    errors = []
    for c in cases(order):
        if opts.get("only_kind") == "dispose_in_on_next" and c.get("dispose_in_on_next") is None:
            continue
        n += 1
        try:
            r = run_case(c)
        except Exception as e:  # noqa: BLE001
            errors.append(f"{c['name']}: {e!r}")
            continue
        if r:
            found = {"case": c, "disagreement": r}
            break
    res = {"cases": n, "shapes": len(TABLE), "found": [found] if found else [], "errors": sorted(set(errors))[:5]}
    if found and "replay_path" in opts:
        os.makedirs(os.path.dirname(opts["replay_path"]), exist_ok=True)
        c = found["case"]
        with open(opts["replay_path"], "w") as f:
            f.write(REPLAY_TEMPLATE.format(prop=opts.get("prop", "C02"), oid=opts.get("oid", "?"), verif=VERIF, expr=TABLE[c["name"]][1],
                                           a=c["a"], b=c["b"], dispose=(c.get("dispose") if c.get("dispose_in_on_next") is None else f"inside on_next #{c['dispose_in_on_next']}"), what=found["disagreement"]["what"], case=json.dumps(c)))
        res["replay"] = opts["replay_path"]
    print(json.dumps(res, default=repr))


if __name__ == "__main__":
    main(sys.argv[1:])
