"""Unit runner for K1 operator contracts (refinement of a spec machine by the real handlers)."""
from __future__ import annotations

import importlib
import json
import os

from .loader import VERIF


def run_unit(desc):
    from . import report
    from .refine import OpHarness

    mod = importlib.import_module(desc["module"])
    c = next(x for x in mod.CONTRACTS if x.name == desc["name"])
    tier = desc.get("tier", "quick")
    from . import registry

    callees = []
    for m in registry.OP_MODULES:
        callees.extend(getattr(importlib.import_module(m), "CONTRACTS", []))
    h = OpHarness(c, callees=callees).run()
    rep = {
        "unit": c.uid,
        "kind": "K1 handler refinement",
        "functions": h.functions,
        "results": [r.as_dict() for r in h.results],
        "unsupported": h.unsupported,
        "callee_contracts_used": sorted(h.used_callees),
        "spec_validation": [],
        "bounded": [],
    }
    if tier == "thorough" and not h.unsupported and getattr(c, "must_fail", True):
        # must-fail obligations: in-memory mutants of the function under contract have to be refuted
        from . import mutate

        mf = mutate.must_fail(lambda ld: OpHarness(c, loader=ld, callees=callees), c.file, c.func, k=3,
                              seed=int(os.environ.get("VERIF_SEED", "0") or 0))
        rep["must_fail"] = dict(mf, unit=c.uid)
        if mf["mutants"] and mf["killed"] == 0:
            rep["crash"] = f"vacuity: none of {mf['mutants']} must-fail mutants of {c.uid} was refuted"
    if getattr(c, "runner", None):
        # operators with a native runner of their own (references written from the property text): replay, thorough
        # cross-check of the contract against CPython, bounded stand-in on drift
        script, opname = c.runner
        rep["replayable"] = {"runner": script, "module": "-", "name": opname}
        if h.unsupported or tier == "thorough":
            res, err = report.native([os.path.join(VERIF, "rxvc", script), "replay", "-", opname,
                                      json.dumps({"max_len": 2 if tier == "quick" else 3,
                                                  "replay_path": os.path.join(report.REPLAY_DIR, f"{desc['prop']}-standin-{opname}.py"),
                                                  "prop": desc["prop"], "oid": c.uid + "/bounded-standin"})], timeout=600)
            st = res if res is not None else {"found": [], "error": err, "cases": 0}
            rep["standin"] = st
            rep["bounded"].append({"function": c.uid, "bound": f"{script}: every timeline of <= {2 if tier == 'quick' else 3} elements (3 values, gaps 10 / 20) with completion / "
                                   "error / open end (also in the instant of the last element) x the operator's parameter grid, on a TestScheduler",
                                   "cases": st.get("cases", 0), "mismatches": len(st.get("found", [])),
                                   "role": "stand-in (out of subset)" if h.unsupported else "cross-check of the contract against CPython"})
            if res is None:
                rep["crash"] = f"native runner {script} failed: {err}"
            elif not h.unsupported and st.get("found") and all(r.verdict == "proved" for r in h.results):
                rep["crash"] = f"cross-check failed: verifier proved {c.uid} but the native run disagrees: {st['found'][0]}"
    elif c.witness and len(c.sources) > 1:
        # several sources: interleavings of their events, real operator against the natively executed spec machine
        rep["replayable"] = {"runner": "multirun.py", "module": desc["module"], "name": c.name}
        if h.unsupported or tier == "thorough":
            res, err = report.native([os.path.join(VERIF, "rxvc", "multirun.py"), "replay", desc["module"], c.name,
                                      json.dumps({"max_len": 3 if tier == "quick" else 4, "budget_s": 90,
                                                  "replay_path": os.path.join(report.REPLAY_DIR, f"{desc['prop']}-standin-{c.name.replace('/', '_')}.py"),
                                                  "prop": desc["prop"], "oid": c.uid + "/bounded-standin"})], timeout=200)
            st = res if res is not None else {"found": [], "error": err, "cases": 0}
            rep["standin"] = st
            rep["bounded"].append({"function": c.uid, "bound": "all interleavings of the sources' events of length<=%d over 3-4 values x parameter grid" % (3 if tier == "quick" else 4),
                                   "cases": st.get("cases", 0), "mismatches": len(st.get("found", [])),
                                   "role": "stand-in (out of subset)" if h.unsupported else "cross-check of the encoding against CPython"})
            if not h.unsupported and st.get("found") and all(r.verdict == "proved" for r in h.results):
                rep["crash"] = f"encoding cross-check failed: verifier proved {c.uid} but native run disagrees: {st['found'][0]}"
            if res is None:
                rep["crash"] = f"native runner failed (no verdict from the bounded run): {err}"
    elif getattr(c, "timed", False) and not c.witness:
        # timed operators: replay and cross-check on a TestScheduler against a reference written from the property text
        opname = {"sample_observable": "sample"}.get(c.name.split("/")[0], c.name.split("/")[0])
        rep["replayable"] = {"runner": "timedrun.py", "module": "-", "name": opname}
        if h.unsupported or tier == "thorough":
            res, err = report.native([os.path.join(VERIF, "rxvc", "timedrun.py"), "replay", "-", opname,
                                      json.dumps({"replay_path": os.path.join(report.REPLAY_DIR, f"{desc['prop']}-standin-{opname}.py"),
                                                  "prop": desc["prop"], "oid": c.uid + "/bounded-standin"})], timeout=200)
            st = res if res is not None else {"found": [], "error": err, "cases": 0}
            rep["standin"] = st
            rep["bounded"].append({"function": c.uid, "bound": "timedrun.py: timelines of <= 3 elements at multiples of 10 with completion / error / open end "
                                   "(also at the instant of the last element) x parameter grid, on a TestScheduler",
                                   "cases": st.get("cases", 0), "mismatches": len(st.get("found", [])),
                                   "role": "stand-in (out of subset)" if h.unsupported else "cross-check of the contract against CPython"})
            if not h.unsupported and st.get("found") and all(r.verdict == "proved" for r in h.results):
                rep["crash"] = f"cross-check failed: verifier proved {c.uid} but the native timed run disagrees: {st['found'][0]}"
            if res is None:
                rep["crash"] = f"native runner failed (no verdict from the bounded run): {err}"
    elif c.witness:
        rep["replayable"] = {"runner": "diffrun.py", "module": desc["module"], "name": c.name}
        # the executable twin of the spec against the literal list expression (validates the SPEC, bounded)
        res, err = report.native([os.path.join(VERIF, "rxvc", "diffrun.py"), "validate", desc["module"], c.name,
                                  json.dumps({"max_len": 3 if tier == "quick" else 4})])
        if res is None:
            rep["spec_validation"].append({"spec": c.spec, "error": err, "mismatches": 1})
        else:
            rep["spec_validation"].append({"spec": c.spec, "cases": res["cases"], "mismatches": res["mismatches"],
                                           "first": res["first"], "scope": "timelines<=%d" % (3 if tier == "quick" else 4)})
        if h.unsupported or tier == "thorough":
            # bounded stand-in (drift) / thorough cross-check of the encoding against CPython
            res, err = report.native([os.path.join(VERIF, "rxvc", "diffrun.py"), "replay", desc["module"], c.name,
                                      json.dumps({"max_len": 3 if tier == "quick" else 4, "budget_s": 120,
                                                  "replay_path": os.path.join(report.REPLAY_DIR, f"{desc['prop']}-standin-{c.name}.py"),
                                                  "prop": desc["prop"], "oid": c.uid + "/bounded-standin"})])
            st = res if res is not None else {"found": [], "error": err, "cases": 0}
            rep["standin"] = st
            rep["bounded"].append({"function": c.uid, "bound": "all timelines of length<=%d over 8 values x parameter grid" % (3 if tier == "quick" else 4),
                                   "cases": st.get("cases", 0), "mismatches": len(st.get("found", [])),
                                   "role": "stand-in (out of subset)" if h.unsupported else "cross-check of the encoding against CPython"})
            if not h.unsupported and st.get("found") and all(r.verdict == "proved" for r in h.results):
                # the proof passed but the real code disagrees with the twin: engine unsoundness -> crash, never silent
                rep["crash"] = f"encoding cross-check failed: verifier proved {c.uid} but native run disagrees: {st['found'][0]}"
    return rep
