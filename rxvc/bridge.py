"""C41: function / closure contracts for the future, callback and blocking bridges, discharged on the real code against
contracts of Future (result() returns the value, or raises the exception it was completed with, or CancelledError - a
BaseException that is not an Exception; cancel(); add_done_callback; cancelled(); set_result / set_exception) and of
threading.Event (level-triggered: once set, wait() returns at once).

  from_future_      subscribe registers exactly one done-callback and emits nothing itself; the callback emits the result
                    then completes, or delivers the exception - cancellation included - as on_error, nothing else; the
                    returned disposable cancels the future.
  to_future_        one future from the constructor (given / the running loop's create_future / Future()); the source is
                    subscribed once; from ANY state of its cells: on_next keeps the element as the last one (whatever it
                    is - None and falsy values too) and touches nothing else; on_completed resolves the future with that
                    last element iff there was one, else fails it with SequenceContainsNoElementsError; on_error fails it
                    with that error; a cancelled future is left alone; the future's done-callback disposes the subscription.
  run               subscribes once on the given scheduler (default: the module's NewThreadScheduler); handlers: on_next
                    keeps the last element; on_error / on_completed record the outcome, then set `done`, then set the latch;
                    the waiting loop only ever waits on the latch and leaves exactly when `done`; then raises the recorded
                    error, or SequenceContainsNoElementsError when no element came, else returns the last element.
  Observable.run / __await__     run(self, scheduler); to_future_ on an AsyncIOScheduler of the running (or a new) loop.
  to_async_ / start_   one AsyncSubject per call; exactly one action scheduled (given scheduler or the TimeoutScheduler
                    singleton); the action calls the function exactly once with the call's arguments, then on_next(result),
                    on_completed - or on_error(exception) alone; start_(f, s) = to_async_(f, s)().
  start_async_      the factory's exception becomes throw(ex); otherwise from_future(the future).
  from_callback_    subscribe calls func(*arguments, handler) exactly once and emits nothing itself; the handler, for 0..3
                    callback arguments: with a mapper - on_next(mapper(args)), on_completed, or on_error(its exception)
                    alone; without - exactly one on_next (the single argument, the list of several, None for none), then
                    on_completed; no exception escapes into the caller of the callback."""
from __future__ import annotations

import time

import z3

from . import smt
from .interp import NOTSET, Interp, World, explore, _Break, _Continue
from .loader import Loader
from .refine import Result
from .values import SV, BoolSV, BoundMethod, Closure, ListObj, Native, Obj, Opaque, PathEnd, PyExc, Unsupported

F_FROMFUTURE = "reactivex/observable/fromfuture.py"
F_TOFUTURE = "reactivex/operators/_tofuture.py"
F_RUN = "reactivex/run.py"
F_TOASYNC = "reactivex/observable/toasync.py"
F_START = "reactivex/observable/start.py"
F_STARTASYNC = "reactivex/observable/startasync.py"
F_FROMCALLBACK = "reactivex/observable/fromcallback.py"
F_OBS = "reactivex/observable/observable.py"


def same(a, b):
    if isinstance(a, SV) and isinstance(b, SV):
        return a.t == b.t
    return a is b or (not isinstance(a, (SV, Obj, Opaque)) and a == b)


class BWorld(World):
    def __init__(self):
        super().__init__()
        self.log = []
        self.n = 0
        self.future_outcome = None   # "value" | "exception" | "cancelled"
        self.cancelled = None

    def call(self, it, o, method, args, kwargs):
        ctx = it.ctx
        if o.kind == "observer":
            want = 0 if method == "on_completed" else 1
            if len(args) != want or kwargs:
                raise PyExc(it.make_exc("TypeError", f"{method}() takes {want} positional argument(s) but {len(args)} were given"))
            self.log.append(("down", method, list(args)))
            return None
        if o.kind == "future":
            if method == "add_done_callback":
                self.log.append(("add_done_callback", o, args[0]))
                return None
            if method == "result":
                if self.future_outcome == "value":
                    return o.attrs["value"]
                if self.future_outcome == "exception":
                    raise PyExc(o.attrs["exc"])
                raise PyExc(o.attrs["cancel_exc"])
            if method == "cancel":
                self.log.append(("future.cancel", o))
                return True
            if method == "cancelled":
                if self.cancelled is None:
                    self.cancelled = ctx.choose(2, "the future is cancelled") == 1
                return self.cancelled
            if method in ("set_result", "set_exception"):
                self.log.append(("future." + method, o, list(args)))
                return None
            if method == "__await__":
                return Opaque("awaitable", "future.__await__()")
        if o.kind == "source" and method == "subscribe":
            d = Opaque("disposable", "subscription")
            self.log.append(("subscribe", o, list(args), dict(kwargs), d))
            return d
        if o.kind == "disposable":
            self.log.append(("dispose", o))
            return None
        if o.kind == "event":
            self.log.append(("event." + method, list(args)))
            return True
        if o.kind == "scheduler":
            self.n += 1
            d = Opaque("disposable", f"scheduled#{self.n}")
            self.log.append(("schedule", o, method, list(args), dict(kwargs), d))
            return d
        if o.kind == "subject":
            if method in ("on_next", "on_error", "on_completed"):
                self.log.append(("subject." + method, list(args)))
                return None
            if method == "pipe":
                self.log.append(("subject.pipe", list(args)))
                return Opaque("observable", "subject.as_observable")
        if o.kind == "loop" and method == "create_future":
            self.log.append(("loop.create_future",))
            return Opaque("future", "future-of-the-loop")
        if o.kind == "callback":
            if o.name == "future_ctor":
                self.log.append(("future_ctor",))
                return Opaque("future", "future-from-ctor")
            if o.name in ("func", "mapper", "function_async"):
                self.log.append(("call", o.name, list(args), dict(kwargs)))
                if ctx.choose(2, f"{o.name} raises") == 1:
                    e = SV(ctx.fresh(f"{o.name}_exc", "val").t, "val", tag="exc")
                    self.log.append(("raised", o.name, e))
                    raise PyExc(e)
                if o.name == "function_async":
                    return Opaque("future", "future-of-the-user")
                if o.name == "func" and o.attrs.get("is_callback_style"):
                    return None
                return ctx.fresh(f"{o.name}_result", "val")
        if o.kind in ("lock", "logger"):
            return None
        return super().call(it, o, method, args, kwargs)

    def truthy(self, it, o):
        return True

    def isinstance(self, it, o, cls):
        n = getattr(cls, "name", "")
        if o.kind == "exc":
            return n in o.attrs.get("isa", ())
        return super().isinstance(it, o, cls)


class BridgeHarness:
    def __init__(self, loader=None):
        self.loader = loader or Loader()
        self.results = []
        self.unsupported = None
        self.functions = {}

    def rec(self, ctx, oid, goal, detail=""):
        t0 = time.time()
        if isinstance(goal, bool):
            goal = z3.BoolVal(goal)
        v, m, b = smt.prove(ctx.pc, goal)
        ctx.results.append(Result(oid, v, b, smt.model_to_dict(m), list(ctx.branch_log), detail, time.time() - t0, "post"))

    def setup(self, ctx):
        w = self.w = BWorld()
        it = self.it = Interp(self.loader, ctx, w)
        return it, w

    def downs(self, frm=0):
        return [(e[1], e[2]) for e in self.w.log[frm:] if e[0] == "down"]

    # -- from_future ------------------------------------------------------------------------------------------------
    def run_from_future(self, ctx):
        it, w = self.setup(ctx)
        uid = f"{F_FROMFUTURE}::from_future_"
        fut = Opaque("future", "the-future", value=ctx.fresh("result", "val"), exc=SV(ctx.fresh("future_exc", "val").t, "val", tag="exc"),
                     cancel_exc=Opaque("exc", "CancelledError()", isa=("CancelledError", "asyncio.CancelledError", "BaseException"), base_exception_only=True))
        it.externals["asyncio.CancelledError"] = Opaque("external", "asyncio.CancelledError")
        it.externals["asyncio.CancelledError"].attrs["name"] = "CancelledError"
        f = it.module_get("reactivex.observable.fromfuture", "from_future_")
        obs = it.call(f, [fut], {})
        observer = Opaque("observer", "observer")
        sub = obs.fields["_subscribe"]
        res = it.call(sub, [observer, None], {})
        cbs = [e for e in w.log if e[0] == "add_done_callback"]
        self.rec(ctx, uid + "/subscribe/registers-exactly-one-done-callback-on-the-future", len(cbs) == 1 and cbs[0][1] is fut)
        self.rec(ctx, uid + "/subscribe/emits-nothing-itself", not self.downs())
        if len(cbs) != 1:
            return
        k = ctx.choose(4, "scenario")
        if k == 3:
            n0 = len(w.log)
            ok = isinstance(res, Obj)
            if ok:
                it.call(it.get_attr(res, "dispose"), [], {})
            evs = w.log[n0:]
            self.rec(ctx, uid + "/dispose/cancels-the-future-exactly-once", ok and [e for e in evs if e[0] == "future.cancel"] == [("future.cancel", fut)])
            self.rec(ctx, uid + "/dispose/emits-nothing", not self.downs(n0))
            return
        w.future_outcome = ("value", "exception", "cancelled")[k]
        n0 = len(w.log)
        try:
            it.call(cbs[0][2], [fut], {})
        except PyExc as e:
            self.rec(ctx, uid + f"/done[{w.future_outcome}]/no-exception-escapes-the-callback", False, detail=f"{e.value!r}")
            return
        ds = self.downs(n0)
        if k == 0:
            ok = [d[0] for d in ds] == ["on_next", "on_completed"]
            self.rec(ctx, uid + "/done[value]/emits-the-result-then-completes", ok, detail=f"{[d[0] for d in ds]}")
            if ok:
                self.rec(ctx, uid + "/done[value]/the-very-result", same(ds[0][1][0], fut.attrs["value"]))
        elif k == 1:
            ok = [d[0] for d in ds] == ["on_error"]
            self.rec(ctx, uid + "/done[exception]/delivers-only-on_error", ok, detail=f"{[d[0] for d in ds]}")
            if ok:
                self.rec(ctx, uid + "/done[exception]/the-future's-exception", same(ds[0][1][0], fut.attrs["exc"]))
        else:
            ok = [d[0] for d in ds] == ["on_error"]
            self.rec(ctx, uid + "/done[cancelled]/cancellation-is-delivered-as-on_error", ok, detail=f"{[d[0] for d in ds]}")
            if ok:
                self.rec(ctx, uid + "/done[cancelled]/with-the-CancelledError", ds[0][1][0] is fut.attrs["cancel_exc"])

    # -- to_future ---------------------------------------------------------------------------------------------------
    def run_to_future(self, ctx):
        it, w = self.setup(ctx)
        uid = f"{F_TOFUTURE}::to_future_"
        how = ctx.choose(3, "constructor")
        loop = Opaque("loop", "running-loop")

        def get_running_loop(it_, a, k):
            if how == 1:
                return loop
            raise PyExc(it.make_exc("RuntimeError", "no running event loop"))
        it.externals["asyncio.get_running_loop"] = Native("get_running_loop", get_running_loop)
        it.externals["asyncio.Future"] = Native("Future", lambda it_, a, k: (w.log.append(("Future()",)), Opaque("future", "plain-future"))[1])
        ctor = Opaque("callback", "future_ctor") if how == 0 else None
        sched = Opaque("scheduler", "scheduler")
        source = Opaque("source", "source")
        f = it.module_get("reactivex.operators._tofuture", "to_future_")
        op = it.call(f, [ctor, sched], {})
        fut = it.call(op, [source], {})
        made = [e for e in w.log if e[0] in ("future_ctor", "loop.create_future", "Future()")]
        want = ("future_ctor", "loop.create_future", "Future()")[how]
        self.rec(ctx, uid + f"/apply[{want}]/exactly-one-future-from-the-right-constructor", len(made) == 1 and made[0][0] == want and isinstance(fut, Opaque) and fut.kind == "future")
        subs = [e for e in w.log if e[0] == "subscribe"]
        ok = len(subs) == 1 and subs[0][1] is source
        self.rec(ctx, uid + "/apply/subscribes-the-source-exactly-once", ok)
        if not ok:
            return
        a, kw, disp = subs[0][2], subs[0][3], subs[0][4]
        hs = (list(a) + [None] * 3)[:3]
        hs = [kw.get(n, h) for n, h in zip(("on_next", "on_error", "on_completed"), hs)]
        self.rec(ctx, uid + "/apply/with-three-handlers-and-the-scheduler", all(isinstance(h, Closure) for h in hs) and kw.get("scheduler") is sched)
        cbs = [e for e in w.log if e[0] == "add_done_callback" and e[1] is fut]
        self.rec(ctx, uid + "/apply/registers-one-done-callback-on-the-future", len(cbs) == 1)
        self.rec(ctx, uid + "/apply/resolves-nothing-yet", not [e for e in w.log if e[0].startswith("future.set")])
        if not all(isinstance(h, Closure) for h in hs):
            return
        env = hs[0].env
        step = ctx.choose(5, "step")
        if step == 4:
            if cbs:
                n0 = len(w.log)
                it.call(cbs[0][2], [fut], {})
                self.rec(ctx, uid + "/done-callback/disposes-the-subscription", [e for e in w.log[n0:] if e[0] == "dispose"] == [("dispose", disp)])
            return
        # an arbitrary state of the cells: `there was an element` and `the last one`
        e_has, e_last = env.lookup_env("has_value"), env.lookup_env("last_value")
        okc = e_has is not None and e_last is not None
        self.rec(ctx, uid + "/state/keeps-whether-an-element-came-apart-from-the-last-element", okc,
                 detail="the cells has_value / last_value are not both there: an element cannot be told from `no element yet` by its value (None is an element)")
        if okc:
            from .cells import require_known
            for h in hs:
                require_known(h, {"has_value", "last_value"}, uid)
        if not okc:
            return
        has0, last0 = ctx.fresh("has", "bool"), ctx.fresh("last", "val")
        e_has.vars["has_value"], e_last.vars["last_value"] = has0, last0
        n0 = len(w.log)
        if step == 0:
            x = ctx.fresh("x", "val")
            it.call(hs[0], [x], {})
            self.rec(ctx, uid + "/on_next/keeps-the-element-as-the-last-one", z3.And(it.truth_term(e_has.vars["has_value"]) if not isinstance(it.truth_term(e_has.vars["has_value"]), bool) else z3.BoolVal(it.truth_term(e_has.vars["has_value"])),
                                                                             same(e_last.vars["last_value"], x)))
            self.rec(ctx, uid + "/on_next/touches-the-future-not", not [e for e in w.log[n0:] if e[0].startswith("future.")])
            return
        if step == 1:
            err = SV(ctx.fresh("err", "val").t, "val", tag="exc")
            it.call(hs[1], [err], {})
            sets = [e for e in w.log[n0:] if e[0].startswith("future.set")]
            if w.cancelled:
                self.rec(ctx, uid + "/on_error/a-cancelled-future-is-left-alone", not sets)
            else:
                self.rec(ctx, uid + "/on_error/fails-the-future-with-that-error", len(sets) == 1 and sets[0][0] == "future.set_exception" and sets[0][1] is fut and same(sets[0][2][0], err))
            return
        # completion, from the state has0 / last0
        has_now = ctx.branch(has0.t, "an element came") if step == 2 else None
        if step == 3:
            ctx.assume(has0.t)
            ctx.assume(last0.t == smt.NONE)   # the last element is None
        it.call(hs[2], [], {})
        sets = [e for e in w.log[n0:] if e[0].startswith("future.set")]
        if w.cancelled:
            self.rec(ctx, uid + "/on_completed/a-cancelled-future-is-left-alone", not sets)
            return
        if step == 3 or has_now:
            tag = "/on_completed[last element is None]" if step == 3 else "/on_completed[elements came]"
            self.rec(ctx, uid + tag + "/resolves-the-future-with-the-last-element", len(sets) == 1 and sets[0][0] == "future.set_result" and sets[0][1] is fut and same(sets[0][2][0], last0),
                     detail=f"{[(e[0], e[2]) for e in sets]}")
        else:
            ok = len(sets) == 1 and sets[0][0] == "future.set_exception" and isinstance(sets[0][2][0], Obj) and sets[0][2][0].cls.name == "SequenceContainsNoElementsError"
            self.rec(ctx, uid + "/on_completed[no element]/fails-the-future-with-SequenceContainsNoElementsError", ok, detail=f"{[(e[0], e[2]) for e in sets]}")

    # -- run ----------------------------------------------------------------------------------------------------------
    def run_run(self, ctx):
        it, w = self.setup(ctx)
        uid = f"{F_RUN}::run"
        latch = Opaque("event", "latch")
        it.externals["threading.Event"] = Native("Event", lambda it_, a, k: latch)
        given = ctx.choose(2, "scheduler given") == 0
        sched = Opaque("scheduler", "scheduler") if given else None
        default = Opaque("scheduler", "default-new-thread-scheduler")
        it.module_env("reactivex.run").vars["_default_scheduler"] = default
        source = Opaque("source", "source")
        stage = {"phase": "subscribe"}
        box = {}

        def on_loop(it_, st, env, key, lc, iterable=None):
            """cut: the handlers run on other threads while we wait - the cells are whatever they made them"""
            e = env
            names = ("result", "has_result", "exception", "done")
            envs = {n: e.lookup_env(n) for n in names}
            okc = all(v is not None for v in envs.values())
            self.rec(ctx, uid + "/state/cells-result-has_result-exception-done", okc)
            if not okc:
                raise PathEnd()
            box["envs"] = envs
            mode = ctx.choose(2, "loop: one more round / leaves")
            done = ctx.fresh("done", "bool")
            envs["done"].vars["done"] = done
            envs["has_result"].vars["has_result"] = ctx.fresh("has_result", "bool")
            envs["result"].vars["result"] = ctx.fresh("result", "val")
            failed = ctx.choose(2, "an error was recorded") == 1
            envs["exception"].vars["exception"] = SV(ctx.fresh("error", "val").t, "val", tag="exc") if failed else None
            if failed:
                ctx.assume(envs["exception"].vars["exception"].t != smt.NONE)  # an exception object is not None (its truth value is arbitrary)
            box["failed"] = failed
            cond = it.truth(it.eval(st.test, env), "while not done")
            if mode == 0:
                if not cond:
                    raise PathEnd()
                n0 = len(w.log)
                try:
                    it.exec_block(st.body, env)
                except (_Break, _Continue):
                    pass
                evs = w.log[n0:]
                self.rec(ctx, uid + "/wait/a-round-only-waits-on-the-latch", [e[0] for e in evs] == ["event.wait"], detail=f"{[e[0] for e in evs]}")
                self.rec(ctx, uid + "/wait/only-while-not-done", z3.Not(done.t))
                raise PathEnd()
            if cond:
                raise PathEnd()
            self.rec(ctx, uid + "/wait/leaves-the-loop-only-when-done", done.t)
            stage["phase"] = "after"
            return
        it.loop_contracts = {("run", 0): {}}
        it.on_loop = on_loop
        f = it.module_get("reactivex.run", "run")
        raised = res = None
        try:
            res = it.call(f, [source, sched], {})
        except PyExc as e:
            raised = e.value
        subs = [e for e in w.log if e[0] == "subscribe"]
        ok = len(subs) == 1 and subs[0][1] is source
        self.rec(ctx, uid + "/subscribes-the-source-exactly-once", ok)
        if ok:
            a, kw = subs[0][2], subs[0][3]
            self.rec(ctx, uid + "/on-the-given-scheduler-or-the-default-new-thread-scheduler", kw.get("scheduler") is (sched if given else default))
        if stage["phase"] != "after":
            return
        envs = box["envs"]
        has, resv = envs["has_result"].vars["has_result"], envs["result"].vars["result"]
        if box["failed"]:
            self.rec(ctx, uid + "/outcome/raises-the-recorded-error", raised is not None and same(raised, envs["exception"].vars["exception"]))
        elif raised is not None:
            self.rec(ctx, uid + "/outcome/raises-SequenceContainsNoElementsError-only-when-no-element-came",
                     z3.And(z3.BoolVal((isinstance(raised, Obj) and raised.cls.name == "SequenceContainsNoElementsError")
                                       or getattr(raised, "name", "") == "SequenceContainsNoElementsError"), z3.Not(has.t)))
        else:
            self.rec(ctx, uid + "/outcome/returns-the-last-element-only-when-one-came", z3.And(has.t, same(res, resv)))

    def run_run_handlers(self, ctx):
        it, w = self.setup(ctx)
        uid = f"{F_RUN}::run"
        latch = Opaque("event", "latch")
        it.externals["threading.Event"] = Native("Event", lambda it_, a, k: latch)
        it.module_env("reactivex.run").vars["_default_scheduler"] = Opaque("scheduler", "default")
        source = Opaque("source", "source")
        captured = {}

        def on_loop(it_, st, env, key, lc, iterable=None):
            captured["env"] = env
            raise PathEnd()
        it.loop_contracts = {("run", 0): {}}
        it.on_loop = on_loop
        f = it.module_get("reactivex.run", "run")
        try:
            it.call(f, [source, None], {})
        except PathEnd:
            pass
        subs = [e for e in w.log if e[0] == "subscribe"]
        if len(subs) != 1 or "env" not in captured:
            raise PathEnd()
        a, kw = subs[0][2], subs[0][3]
        hs = (list(a) + [None] * 3)[:3]
        hs = [kw.get(n, h) for n, h in zip(("on_next", "on_error", "on_completed"), hs)]
        env = captured["env"]
        names = ("result", "has_result", "exception", "done")
        envs = {n: env.lookup_env(n) for n in names}
        if not all(v is not None for v in envs.values()) or not all(isinstance(h, Closure) for h in hs):
            self.rec(ctx, uid + "/handlers/three-closures-over-result-has_result-exception-done", False)
            return
        from .cells import require_known
        for h in hs:
            require_known(h, set(names), uid)
        envs["done"].vars["done"] = False
        has0, res0 = ctx.fresh("has_result", "bool"), ctx.fresh("result", "val")
        envs["has_result"].vars["has_result"], envs["result"].vars["result"] = has0, res0
        envs["exception"].vars["exception"] = None
        which = ctx.choose(3, "handler")
        n0 = len(w.log)
        if which == 0:
            x = ctx.fresh("x", "val")
            it.call(hs[0], [x], {})
            t = it.truth_term(envs["has_result"].vars["has_result"])
            self.rec(ctx, uid + "/on_next/keeps-the-element-as-the-last-one", z3.And(z3.BoolVal(t) if isinstance(t, bool) else t, same(envs["result"].vars["result"], x)))
            self.rec(ctx, uid + "/on_next/does-not-end-the-wait", envs["done"].vars["done"] is False and envs["exception"].vars["exception"] is None and not w.log[n0:])
            return
        if which == 1:
            err = SV(ctx.fresh("err", "val").t, "val", tag="exc")
            it.call(hs[1], [err], {})
            self.rec(ctx, uid + "/on_error/records-the-error", same(envs["exception"].vars["exception"], err))
        else:
            it.call(hs[2], [], {})
            self.rec(ctx, uid + "/on_completed/records-no-error", envs["exception"].vars["exception"] is None)
        name = ("on_error", "on_completed")[which - 1]
        self.rec(ctx, uid + f"/{name}/sets-done-and-then-the-latch", envs["done"].vars["done"] is True and [e[0] for e in w.log[n0:]] == ["event.set"])
        self.rec(ctx, uid + f"/{name}/leaves-the-last-element-alone", same(envs["result"].vars["result"], res0) and same(envs["has_result"].vars["has_result"], has0))

    # -- Observable.run / __await__ ------------------------------------------------------------------------------------------
    def run_observable_methods(self, ctx):
        it, w = self.setup(ctx)
        which = ctx.choose(3, "method")
        cls = it.module_get("reactivex.observable.observable", "Observable")
        o = Obj(cls)
        o.fields["lock"] = Opaque("lock", "lock")
        o.fields["_subscribe"] = Opaque("callback", "subscribe_fn")
        calls = []

        def hook(it_, f, args, kwargs):
            fn = f.func if isinstance(f, BoundMethod) else f
            q = getattr(fn, "qualname", None) if isinstance(fn, Closure) else None
            full = ([f.self_val] + list(args)) if isinstance(f, BoundMethod) else list(args)
            if q == "run":
                calls.append(("run", full, dict(kwargs)))
                return it.ctx.fresh("last", "val")
            if q == "to_future_":
                calls.append(("to_future_", full, dict(kwargs)))

                def op(it2, a, k):
                    calls.append(("apply", list(a)))
                    return Opaque("future", "the-future")
                return Native("to_future", op)
            if q == "AsyncIOScheduler.__init__":
                calls.append(("AsyncIOScheduler", full, dict(kwargs)))
                full[0].fields["_loop"] = kwargs.get("loop", full[1] if len(full) > 1 else None)
                return None
            return NOTSET
        it.call_hook = hook
        if which == 0:
            uid = f"{F_OBS}::Observable.run"
            s = Opaque("scheduler", "scheduler")
            r = it.call(it.get_attr(o, "run"), [s], {})
            ok = len(calls) == 1 and calls[0][0] == "run" and calls[0][1][0] is o and (calls[0][1][1:] == [s] or calls[0][2].get("scheduler") is s)
            self.rec(ctx, uid + "/is-run(self, scheduler)", ok and isinstance(r, SV))
            return
        uid = f"{F_OBS}::Observable.__await__"
        loop, new = Opaque("loop", "running-loop"), Opaque("loop", "new-loop")
        running = which == 1

        def get_running_loop(it_, a, k):
            if running:
                return loop
            raise PyExc(it.make_exc("RuntimeError", "no running event loop"))
        it.externals["asyncio.get_running_loop"] = Native("get_running_loop", get_running_loop)
        it.externals["asyncio.new_event_loop"] = Native("new_event_loop", lambda it_, a, k: new)
        r = it.call(it.get_attr(o, "__await__"), [], {})
        tf = [c for c in calls if c[0] == "to_future_"]
        sc = [c for c in calls if c[0] == "AsyncIOScheduler"]
        ap = [c for c in calls if c[0] == "apply"]
        tag = "running-loop" if running else "no-running-loop"
        ok = len(tf) == 1 and len(sc) == 1 and len(ap) == 1 and ap[0][1] == [o]
        self.rec(ctx, uid + f"[{tag}]/pipes-itself-through-to_future-on-an-AsyncIOScheduler", ok)
        if ok:
            s = tf[0][2].get("scheduler")
            self.rec(ctx, uid + f"[{tag}]/of-the-running-loop-else-a-new-one", isinstance(s, Obj) and s.fields.get("_loop") is (loop if running else new))
        self.rec(ctx, uid + f"[{tag}]/returns-the-future's-awaitable", isinstance(r, Opaque) and r.kind == "awaitable")

    # -- to_async / start / start_async ------------------------------------------------------------------------------------------
    def run_to_async(self, ctx):
        it, w = self.setup(ctx)
        uid = f"{F_TOASYNC}::to_async_"
        subjects = []

        def mk_subject(it_, a, k):
            s = Opaque("subject", f"subject#{len(subjects) + 1}")
            subjects.append(s)
            return s
        given = ctx.choose(2, "scheduler given") == 0
        sched = Opaque("scheduler", "scheduler") if given else None
        single = Opaque("scheduler", "TimeoutScheduler.singleton()")

        def hook(it_, f, args, kwargs):
            fn = f.func if isinstance(f, BoundMethod) else f
            q = getattr(fn, "qualname", None) if isinstance(fn, Closure) else None
            if q == "TimeoutScheduler.singleton":
                return single
            if q in ("AsyncSubject.__init__", "AsyncSubject.__new__"):
                return NOTSET
            if q == "as_observable" or q == "as_observable_":
                return Opaque("callback", "as_observable()")
            return NOTSET
        it.call_hook = hook
        it.module_env("reactivex.observable.toasync").vars["AsyncSubject"] = Native("AsyncSubject", mk_subject)
        func = Opaque("callback", "func")
        f = it.module_get("reactivex.observable.toasync", "to_async_")
        wrapper = it.call(f, [func, sched], {})
        # every INVOCATION of the asynchronous function has a subject of its own (its result goes to its own subscribers): none exists before
        # the call, a second call makes a second one
        self.rec(ctx, uid + "/making-the-asynchronous-function-creates-no-subject-and-schedules-nothing", not subjects and not [e for e in w.log if e[0] == "schedule"])
        a1, a2 = ctx.fresh("arg1", "val"), ctx.fresh("arg2", "val")
        res = it.call(wrapper, [a1, a2], {})
        sc = [e for e in w.log if e[0] == "schedule"]
        ok = len(sc) == 1 and sc[0][1] is (sched if given else single) and sc[0][2] == "schedule" and len(subjects) == 1
        self.rec(ctx, uid + "/call/one-subject-and-exactly-one-action-on-the-given-scheduler-or-the-timeout-singleton", ok)
        self.rec(ctx, uid + "/call/the-function-is-not-called-by-the-call-itself", not [e for e in w.log if e[0] == "call"])
        self.rec(ctx, uid + "/call/returns-the-subject-as-an-observable", isinstance(res, Opaque) and res.name == "subject.as_observable")
        if not ok:
            return
        action = sc[0][3][0]
        n0 = len(w.log)
        it.call(action, [sc[0][1], None], {})
        evs = w.log[n0:]
        calls = [e for e in evs if e[0] == "call" and e[1] == "func"]
        self.rec(ctx, uid + "/action/calls-the-function-exactly-once-with-the-arguments-of-the-call", len(calls) == 1 and len(calls[0][2]) == 2 and same(calls[0][2][0], a1) and same(calls[0][2][1], a2) and not calls[0][3])
        raised = [e for e in evs if e[0] == "raised"]
        sub = [e for e in evs if e[0].startswith("subject.")]
        if raised:
            self.rec(ctx, uid + "/action[raises]/delivers-only-on_error-with-that-exception", [e[0] for e in sub] == ["subject.on_error"] and same(sub[0][1][0], raised[0][2]))
        else:
            okv = [e[0] for e in sub] == ["subject.on_next", "subject.on_completed"]
            self.rec(ctx, uid + "/action/emits-the-result-then-completes", okv, detail=f"{[e[0] for e in sub]}")
        # a second invocation
        n_s, n_sc = len(subjects), len([e for e in w.log if e[0] == "schedule"])
        it.call(wrapper, [a2], {})
        sc2 = [e for e in w.log if e[0] == "schedule"]
        self.rec(ctx, uid + "/every-invocation-has-a-subject-and-a-scheduled-call-of-its-own", len(subjects) == n_s + 1 and len(sc2) == n_sc + 1,
                 detail=f"subjects: {n_s} -> {len(subjects)}, scheduled calls: {n_sc} -> {len(sc2)}")

    def run_start(self, ctx):
        it, w = self.setup(ctx)
        uid = f"{F_START}::start_"
        calls = []

        def hook(it_, f, args, kwargs):
            fn = f.func if isinstance(f, BoundMethod) else f
            q = getattr(fn, "qualname", None) if isinstance(fn, Closure) else None
            if q in ("to_async", "to_async_"):
                calls.append(("to_async", list(args), dict(kwargs)))

                def wrapper(it2, a, k):
                    calls.append(("wrapper", list(a), dict(k)))
                    return Opaque("observable", "result-of-the-async-call")
                return Native("wrapper", wrapper)
            return NOTSET
        it.call_hook = hook
        func, sched = Opaque("callback", "func"), Opaque("scheduler", "scheduler")
        f = it.module_get("reactivex.observable.start", "start_")
        res = it.call(f, [func, sched], {})
        ok = [c[0] for c in calls] == ["to_async", "wrapper"] and calls[0][1][:2] == [func, sched] and calls[1][1] == [] and not calls[1][2]
        self.rec(ctx, uid + "/is-to_async(func, scheduler)-called-without-arguments", ok and isinstance(res, Opaque) and res.name == "result-of-the-async-call")

    def run_start_async(self, ctx):
        it, w = self.setup(ctx)
        uid = f"{F_STARTASYNC}::start_async_"
        calls = []

        def hook(it_, f, args, kwargs):
            fn = f.func if isinstance(f, BoundMethod) else f
            q = getattr(fn, "qualname", None) if isinstance(fn, Closure) else None
            if q in ("throw", "throw_"):
                calls.append(("throw", list(args)))
                return Opaque("observable", "throw")
            if q in ("from_future", "from_future_"):
                calls.append(("from_future", list(args)))
                return Opaque("observable", "from_future")
            return NOTSET
        it.call_hook = hook
        fa = Opaque("callback", "function_async")
        f = it.module_get("reactivex.observable.startasync", "start_async_")
        res = it.call(f, [fa], {})
        raised = [e for e in w.log if e[0] == "raised"]
        self.rec(ctx, uid + "/calls-the-factory-exactly-once", len([e for e in w.log if e[0] == "call"]) == 1)
        if raised:
            self.rec(ctx, uid + "/factory-raises/is-throw(that-exception)", len(calls) == 1 and calls[0][0] == "throw" and same(calls[0][1][0], raised[0][2]) and res.name == "throw")
        else:
            self.rec(ctx, uid + "/is-from_future(the-future)", len(calls) == 1 and calls[0][0] == "from_future" and isinstance(calls[0][1][0], Opaque) and calls[0][1][0].name == "future-of-the-user" and res.name == "from_future")

    # -- from_callback ---------------------------------------------------------------------------------------------------------------
    def run_from_callback(self, ctx):
        it, w = self.setup(ctx)
        uid = f"{F_FROMCALLBACK}::from_callback_"
        with_mapper = ctx.choose(2, "mapper given") == 0
        mapper = Opaque("callback", "mapper") if with_mapper else None
        func = Opaque("callback", "func", is_callback_style=True)
        f = it.module_get("reactivex.observable.fromcallback", "from_callback_")
        function = it.call(f, [func, mapper], {})
        a1 = ctx.fresh("arg1", "val")
        obs = it.call(function, [a1], {})
        observer = Opaque("observer", "observer")
        # func must not raise here (it is the user's asynchronous API; its own failures are Observable.subscribe's business)
        sub = obs.fields["_subscribe"]
        n0 = len(w.log)
        try:
            res = it.call(sub, [observer, None], {})
        except PyExc:
            raise PathEnd()
        calls = [e for e in w.log[n0:] if e[0] == "call" and e[1] == "func"]
        ok = len(calls) == 1 and len(calls[0][2]) == 2 and same(calls[0][2][0], a1) and isinstance(calls[0][2][1], Closure)
        self.rec(ctx, uid + "/subscribe/calls-func-once-with-the-arguments-and-the-handler-last", ok)
        self.rec(ctx, uid + "/subscribe/emits-nothing-itself", not self.downs(n0))
        self.rec(ctx, uid + "/subscribe/returns-a-disposable", isinstance(res, Obj))
        if not ok:
            return
        handler = calls[0][2][1]
        n = ctx.choose(4, "number of callback arguments")
        cbargs = [ctx.fresh(f"cb{i}", "val") for i in range(n)]
        n1 = len(w.log)
        tag = f"[{'mapper' if with_mapper else 'no mapper'}, {n} callback argument(s)]"
        try:
            it.call(handler, cbargs, {})
        except PyExc as e:
            self.rec(ctx, uid + f"/handler{tag}/no-exception-escapes-into-the-caller-of-the-callback", False, detail=f"raises {e.value!r}")
            return
        self.rec(ctx, uid + f"/handler{tag}/no-exception-escapes-into-the-caller-of-the-callback", True)
        ds = self.downs(n1)
        if with_mapper:
            mc = [e for e in w.log[n1:] if e[0] == "call" and e[1] == "mapper"]
            okm = len(mc) == 1 and len(mc[0][2]) == 1 and isinstance(mc[0][2][0], tuple) and len(mc[0][2][0]) == n and all(same(x, y) for x, y in zip(mc[0][2][0], cbargs))
            self.rec(ctx, uid + f"/handler{tag}/the-mapper-gets-the-tuple-of-the-arguments-once", okm)
            raised = [e for e in w.log[n1:] if e[0] == "raised"]
            if raised:
                self.rec(ctx, uid + f"/handler{tag}/mapper-raises/only-on_error-with-that-exception", [d[0] for d in ds] == ["on_error"] and same(ds[0][1][0], raised[0][2]))
            else:
                self.rec(ctx, uid + f"/handler{tag}/exactly-one-value-then-completed", [d[0] for d in ds] == ["on_next", "on_completed"])
            return
        okd = [d[0] for d in ds] == ["on_next", "on_completed"]
        self.rec(ctx, uid + f"/handler{tag}/exactly-one-value-then-completed", okd, detail=f"{[d[0] for d in ds]}")
        if not okd:
            return
        v = ds[0][1][0]
        if n == 1:
            self.rec(ctx, uid + f"/handler{tag}/the-value-is-the-argument", same(v, cbargs[0]))
        elif n == 0:
            self.rec(ctx, uid + f"/handler{tag}/the-value-is-None", v is None)
        else:
            okl = isinstance(v, ListObj) and not v.symbolic and len(v.items) == n and all(same(x, y) for x, y in zip(v.items, cbargs))
            self.rec(ctx, uid + f"/handler{tag}/the-value-is-the-list-of-the-arguments", okl)

    def run(self):
        t0 = time.time()
        try:
            for rel, q in ((F_FROMFUTURE, "from_future_"), (F_TOFUTURE, "to_future_"), (F_RUN, "run"), (F_TOASYNC, "to_async_"), (F_START, "start_"),
                           (F_STARTASYNC, "start_async_"), (F_FROMCALLBACK, "from_callback_"), (F_OBS, "Observable.run"), (F_OBS, "Observable.__await__")):
                self.functions[f"{rel}::{q}"] = self.loader.sha(rel, q)
            for fn in (self.run_from_future, self.run_to_future, self.run_run, self.run_run_handlers, self.run_observable_methods,
                       self.run_to_async, self.run_start, self.run_start_async, self.run_from_callback):
                for p in explore(fn):
                    self.results.extend(p.results)
        except Unsupported as e:
            self.unsupported = str(e)
        except PyExc as e:
            self.unsupported = f"interpreter-level exception: {e.value!r} {getattr(e.value, 'fields', '')}"
        self.seconds = time.time() - t0
        return self


MUTANTS = [
    (F_TOFUTURE, "                if has_value:\n                    future.set_result", "                if last_value:\n                    future.set_result", "to_future tests the last element's truth value"),
    (F_FROMFUTURE, "                observer.on_next(value)\n                observer.on_completed()", "                observer.on_next(value)", "from_future does not complete"),
    (F_FROMFUTURE, "            if future:\n                future.cancel()", "            pass", "from_future does not cancel the future"),
    (F_RUN, "    if not has_result:\n        raise SequenceContainsNoElementsError", "    if not result:\n        raise SequenceContainsNoElementsError", "run tests the last element's truth value"),
    (F_RUN, "        exception = error\n        done = True\n        latch.set()", "        exception = error\n        latch.set()", "on_error does not set done"),
    (F_TOASYNC, "            subject.on_next(result)\n            subject.on_completed()", "            subject.on_next(result)", "to_async does not complete"),
    (F_FROMCALLBACK, "                    if len(results) <= 1:", "                    if len(results) < 1:", "a single callback argument is emitted as a list"),
]


def must_fail():
    res = {"mutants": 0, "killed": 0, "survivors": []}
    base = Loader()
    for rel, old, new, what in MUTANTS:
        src = base.load_file(rel).src
        if old not in src:
            continue
        ld = Loader()
        ld.overrides = {rel: src.replace(old, new, 1)}
        h = BridgeHarness(ld).run()
        res["mutants"] += 1
        if h.unsupported or any(r.verdict != "proved" for r in h.results):
            res["killed"] += 1
        else:
            res["survivors"].append(what)
    return res


def run_unit(desc):
    import json
    import os
    from .report import REPLAY_DIR, VERIF, native
    prop = desc.get("prop", "C41")
    h = BridgeHarness().run()
    rep = {"unit": "reactivex::bridges(future, callback, blocking)", "kind": "function / closure contracts against contracts of Future and Event",
           "functions": h.functions, "results": [r.as_dict() for r in h.results], "unsupported": h.unsupported,
           "spec_validation": [], "bounded": [], "seconds": h.seconds, "replayable": {"runner": "bridgerun.py", "module": "-", "name": prop}}
    tier = desc.get("tier", "quick")
    if tier == "thorough" and not h.unsupported:
        mf = must_fail()
        rep["must_fail"] = dict(mf, unit=rep["unit"])
        if mf["mutants"] and mf["killed"] < mf["mutants"]:
            rep["crash"] = f"vacuity: mutants not refuted: {mf['survivors']}"
    if h.unsupported or tier == "thorough":
        res, err = native([os.path.join(VERIF, "rxvc", "bridgerun.py"), "replay", "-", prop,
                           json.dumps({"replay_path": os.path.join(REPLAY_DIR, f"{prop}-standin-bridges.py"), "prop": prop, "oid": rep["unit"] + "/bounded-standin"})], timeout=300)
        st = res if res is not None else {"found": [], "error": err, "cases": 0}
        rep["standin"] = st
        rep["bounded"].append({"function": rep["unit"], "bound": "bridgerun.py: sequences of <= 3 elements over {None, 0, '', 1} x {completed, error}, future outcomes "
                               "(result / exception / cancelled / unsubscribed first), callbacks with 0..3 arguments with and without a mapper",
                               "cases": st.get("cases", 0), "mismatches": len(st.get("found", [])),
                               "role": "stand-in (out of subset)" if h.unsupported else "cross-check against CPython"})
        if not h.unsupported and st.get("found") and all(r.verdict == "proved" for r in h.results):
            rep["crash"] = f"cross-check failed: contracts proved but the native run found {json.dumps(st['found'][0], default=repr)[:500]}"
    return rep
