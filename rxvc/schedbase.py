"""Callee contracts of every scheduler harness: Scheduler.invoke_action and ScheduledItem.invoke / cancel (the harnesses of C28 - C35
use them by contract: "invoking an item runs its action once with the item's scheduler and state; cancelling disposes what the
action returned").  Here they are function contracts on the real code.

  Scheduler.invoke_action(action, state)   calls action(self, state) exactly once; returns the very object the action returned when
                                            that is a disposable, a new inert Disposable otherwise; an exception propagates
  ScheduledItem.invoke()                    calls scheduler.invoke_action(item.action, state=item.state) exactly once and hands the
                                            result to the item's SingleAssignmentDisposable (contract C26: held, or disposed at once
                                            when the item was cancelled before)
  ScheduledItem.cancel() / is_cancelled()   dispose that SingleAssignmentDisposable / read its flag: what the action returned is
                                            disposed exactly once whether cancel comes before or after invoke, and never without cancel
"""
from __future__ import annotations

import time

import z3

from . import smt
from .interp import Interp, World, explore
from .loader import Loader, all_functions
from .refine import Result
from .values import Native, Obj, Opaque, PyExc, Unsupported

SFILE = "reactivex/scheduler/scheduler.py"
IFILE = "reactivex/scheduler/scheduleditem.py"


class SBWorld(World):
    def __init__(self):
        super().__init__()
        self.log = []
        self.returns = "disposable"
        self.raises = None

    def isinstance(self, it, o, cls):
        n = getattr(cls, "name", None)
        if o.kind == "resource":
            return n in ("DisposableBase",)
        return super().isinstance(it, o, cls)

    def call(self, it, o, method, args, kwargs):
        if o.kind == "callback" and method == "__call__":
            self.log.append(("action", list(args), dict(kwargs)))
            if self.raises is not None:
                raise PyExc(self.raises)
            if self.returns == "disposable":
                r = Opaque("resource", f"returned#{len(self.log)}")
                self.log.append(("returned", r))
                return r
            return None
        if o.kind == "scheduler" and method == "invoke_action":
            self.log.append(("invoke_action", list(args), dict(kwargs)))
            r = Opaque("resource", f"invoked#{len(self.log)}")
            self.log.append(("returned", r))
            return r
        if o.kind == "resource" and method == "dispose":
            self.log.append(("dispose", o))
            return None
        if o.kind in ("lock", "logger"):
            return None
        return super().call(it, o, method, args, kwargs)


class SchedBaseHarness:
    def __init__(self, loader=None):
        self.loader = loader or Loader()
        self.results = []
        self.unsupported = None
        self.functions = {}

    def rec(self, ctx, oid, goal, detail=""):
        t0 = time.time()
        if isinstance(goal, bool):
            goal = z3.BoolVal(goal)
        v, m, b = smt.prove(ctx.pc, goal)
        ctx.results.append(Result(oid, v, b, smt.model_to_dict(m), list(ctx.branch_log), detail, time.time() - t0, "post"))

    def interp(self, ctx):
        w = self.w = SBWorld()
        it = Interp(self.loader, ctx, w)
        it.externals["threading.RLock"] = Native("RLock", lambda it_, a, k: Opaque("lock", "lock", reentrant=True))
        return it, w

    def run_invoke_action(self, ctx):
        uid = f"{SFILE}::Scheduler.invoke_action"
        it, w = self.interp(ctx)
        cls = it.module_get("reactivex.scheduler.scheduler", "Scheduler")
        o = Obj(cls)
        action = Opaque("callback", "action")
        state = ctx.fresh("state", "val")
        kind = ctx.choose(3, "the action returns a disposable / returns None / raises")
        w.returns = "disposable" if kind == 0 else "none"
        if kind == 2:
            from .refine import fresh_exc

            w.raises = fresh_exc(ctx, "action_error")
        m = it.class_lookup(cls, "invoke_action")
        from .values import BoundMethod

        raised = None
        r = None
        try:
            r = it.call(BoundMethod(o, m), [action, state], {})
        except PyExc as e:
            raised = e.value
        calls = [e for e in w.log if e[0] == "action"]
        ok_call = len(calls) == 1 and len(calls[0][1]) == 2 and calls[0][1][0] is o and calls[0][1][1] is state and not calls[0][2]
        self.rec(ctx, uid + "/runs-the-action-exactly-once-with-this-scheduler-and-the-state", ok_call, detail=f"{calls}")
        if kind == 2:
            self.rec(ctx, uid + "/an-exception-of-the-action-propagates", raised is w.raises, detail=f"{raised}")
            return
        self.rec(ctx, uid + "/no-exception", raised is None, detail=f"{raised}")
        if kind == 0:
            ret = [e[1] for e in w.log if e[0] == "returned"]
            self.rec(ctx, uid + "/returns-the-very-disposable-the-action-returned", bool(ret) and r is ret[0], detail=f"{r}")
        else:
            inert = isinstance(r, Obj) and r.cls.name == "Disposable"
            if inert:
                n0 = len(w.log)
                try:
                    it.call(it.get_attr(r, "dispose"), [], {})
                except PyExc:
                    inert = False
                inert = inert and len(w.log) == n0
            self.rec(ctx, uid + "/returns-an-inert-disposable-when-the-action-returned-none", inert, detail=f"{r}")

    def run_item(self, ctx):
        uid = f"{IFILE}::ScheduledItem"
        it, w = self.interp(ctx)
        cls = it.module_get("reactivex.scheduler.scheduleditem", "ScheduledItem")
        sched = Opaque("scheduler", "scheduler")
        action = Opaque("callback", "action")
        state = ctx.fresh("state", "val")
        due = ctx.fresh("due", "int")
        item = it.call(cls, [sched, state, action, due], {})
        self.rec(ctx, uid + ".__init__/runs-nothing", not w.log and isinstance(item, Obj))
        if not isinstance(item, Obj):
            return
        cancel_first = ctx.choose(2, "cancelled before it is invoked") == 1
        never_cancelled = (not cancel_first) and ctx.choose(2, "never cancelled") == 1

        def truth(v):
            t = it.truth_term(v)
            return t if isinstance(t, bool) else None
        if cancel_first:
            it.call(it.get_attr(item, "cancel"), [], {})
            self.rec(ctx, uid + ".cancel/is_cancelled-is-true-afterwards", truth(it.call(it.get_attr(item, "is_cancelled"), [], {})) is True)
        else:
            self.rec(ctx, uid + ".is_cancelled/false-until-cancelled", truth(it.call(it.get_attr(item, "is_cancelled"), [], {})) is False)
        try:
            it.call(it.get_attr(item, "invoke"), [], {})
        except PyExc as e:
            self.rec(ctx, uid + ".invoke/no-exception", False, detail=repr(e.value))
            return
        inv = [e for e in w.log if e[0] == "invoke_action"]
        ok = len(inv) == 1 and len(inv[0][1]) + len(inv[0][2]) == 2 and (inv[0][1][0] if inv[0][1] else None) is action
        st = inv[0][2].get("state", inv[0][1][1] if len(inv[0][1]) > 1 else None) if inv else None
        self.rec(ctx, uid + ".invoke/asks-its-scheduler-to-run-its-action-with-its-state-exactly-once", ok and st is state, detail=f"{inv}")
        ret = [e[1] for e in w.log if e[0] == "returned"]
        if not ret:
            return
        disp = lambda: [e for e in w.log if e[0] == "dispose" and e[1] is ret[0]]  # noqa: E731
        if cancel_first:
            self.rec(ctx, uid + ".invoke/an-item-cancelled-before-disposes-what-the-action-returned-at-once", len(disp()) == 1)
        else:
            self.rec(ctx, uid + ".invoke/keeps-what-the-action-returned-undisposed", len(disp()) == 0)
            if not never_cancelled:
                it.call(it.get_attr(item, "cancel"), [], {})
                self.rec(ctx, uid + ".cancel/disposes-what-the-action-returned", len(disp()) == 1)
                self.rec(ctx, uid + ".cancel/is_cancelled-is-true-afterwards", truth(it.call(it.get_attr(item, "is_cancelled"), [], {})) is True)
        if not never_cancelled:
            it.call(it.get_attr(item, "cancel"), [], {})
            self.rec(ctx, uid + ".cancel/again-disposes-nothing-more", len(disp()) == 1)
        self.rec(ctx, uid + "/disposes-nothing-else", all(e[1] is ret[0] for e in w.log if e[0] == "dispose"))

    def run(self):
        t0 = time.time()
        try:
            for f, c in ((SFILE, "Scheduler"), (IFILE, "ScheduledItem")):
                node = self.loader.find(f, c)
                for q, n in all_functions(node, c):
                    if c == "Scheduler" and "invoke_action" not in q:
                        continue
                    self.functions[f"{f}::{q}"] = self.loader.sha(f, q)
            for f in (self.run_invoke_action, self.run_item):
                for p in explore(f):
                    self.results.extend(p.results)
        except Unsupported as e:
            self.unsupported = str(e)
        except PyExc as e:
            self.unsupported = f"interpreter-level exception: {e.value!r} {getattr(e.value, 'fields', '')}"
        self.seconds = time.time() - t0
        return self


MUTANTS = {
    SFILE: {"the action's disposable is dropped": ("        if isinstance(ret, abc.DisposableBase):\n            return ret\n", ""),
            "the state is not passed": ("        ret = action(self, state)", "        ret = action(self, None)")},
    IFILE: {"the result is not kept": ("        self.disposable.disposable = ret\n", "        _ = ret\n"),
            "is_cancelled always false": ("        return self.disposable.is_disposed", "        return False")},
}


def must_fail():
    out = {"mutants": 0, "killed": 0, "survivors": []}
    for rel, ms in MUTANTS.items():
        src = Loader().load_file(rel).src
        for name, (a, b) in ms.items():
            if a not in src:
                continue
            ld = Loader()
            ld.overrides = {rel: src.replace(a, b, 1)}
            h = SchedBaseHarness(ld).run()
            out["mutants"] += 1
            if h.unsupported or any(r.verdict == "refuted" for r in h.results):
                out["killed"] += 1
            else:
                out["survivors"].append(name)
    return out


def run_unit(desc):
    h = SchedBaseHarness().run()
    rep = {"unit": f"{SFILE}::Scheduler.invoke_action+ScheduledItem", "kind": "function contracts (callee contracts of the scheduler harnesses)",
           "functions": h.functions, "results": [r.as_dict() for r in h.results], "unsupported": h.unsupported, "spec_validation": [], "bounded": [],
           "replayable": {"runner": "vtsrun.py", "module": "-", "name": "C28"}}
    if desc.get("tier") == "thorough" and not h.unsupported:
        mf = must_fail()
        rep["must_fail"] = dict(mf, unit=rep["unit"])
        if mf["mutants"] and mf["killed"] < mf["mutants"]:
            rep["crash"] = f"vacuity: must-fail mutants survived: {mf['survivors']}"
    return rep
