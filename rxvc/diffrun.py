"""Native differential runner (runs under /venv/bin/python, real reactivex from /repo).

Three uses, all *bounded* and never counted as proved:
  * spec validation: the executable twin of every spec machine against the literal Python
    list expression `ref(...)` of the property, exhaustively on a small scope;
  * replay: search for a concrete failing input of the REAL operator around a counter-model
    the verifier produced (DESIGN §2.7) - writes the replay script;
  * bounded stand-in for a unit that fell out of the verifier's subset (drift).

usage: diffrun.py <mode> <contracts module> <contract name> [json options]
prints one JSON object on stdout.
"""
from __future__ import annotations

import importlib
import itertools
import json
import os
import sys
import time

VERIF = os.path.dirname(os.path.dirname(os.path.abspath(__file__)))
if VERIF not in sys.path:
    sys.path.insert(0, VERIF)
REPO = os.environ.get("RXVC_REPO", "/repo")  # the tree under test (the checks run on /repo; scratch copies are used by my own side runs only)
if REPO not in sys.path:
    sys.path.insert(0, REPO)

VALUES = [None, 0, 1, 2, "", "a", False, ()]


class Boom(Exception):
    def __init__(self, tag):
        super().__init__(tag)
        self.tag = tag

    def __eq__(self, o):
        return isinstance(o, Boom) and o.tag == self.tag

    def __hash__(self):
        return hash(self.tag)

    def __repr__(self):
        return f"Boom({self.tag!r})"


def _raiser_on(val, tag):
    def f(*a):
        if a and a[0] == val and type(a[0]) is type(val):
            raise Boom(tag)
        return a[0] if a else None
    f.__name__ = f"raise_on_{val!r}"
    return f


def _named(f, name):
    f.__name__ = name
    f.__qualname__ = name
    return f


#: callback domains by parameter role
CALLBACKS = {
    "predicate": [
        _named(lambda x, *i: x, "truthiness"),
        _named(lambda x, *i: not x, "falsiness"),
        _named(lambda x, *i: x == 1, "eq1"),
        _named(lambda x, *i: x is None, "is_none"),
        _named(lambda x, *i: (i[0] % 2 == 0) if i else True, "even_index"),
        _raiser_on(1, "pred"),
    ],
    "mapper": [
        _named(lambda x, *i: (x,) + tuple(i), "wrap"),
        _named(lambda x, *i: None, "to_none"),
        _named(lambda x, *i: x, "identity"),
        _raiser_on(2, "map"),
    ],
    "key_mapper": [
        _named(lambda x: x, "identity"),
        _named(lambda x: bool(x), "truthiness"),
        _named(lambda x: 0, "const"),
        _raiser_on("a", "key"),
    ],
    "comparer": [
        _named(lambda a, b: a == b, "eq"),
        _named(lambda a, b: type(a) is type(b) and a == b, "strict_eq"),
        _named(lambda a, b: False, "never"),
        _named(lambda a, b: True, "always"),
        # not an equivalence (not transitive): a tolerance comparer
        _named(lambda a, b: type(a) is int and type(b) is int and abs(a - b) <= 1, "near"),
        # not symmetric: tells which argument is which
        _named(lambda a, b: type(a) is int and type(b) is int and a <= b, "le"),
    ],
    "action": [
        _named(lambda *a: None, "noop"),
        _named(lambda *a: 0, "returns_falsy"),
        _raiser_on(1, "action"),
        _named(lambda *a: (_ for _ in ()).throw(Boom("always")), "raise_always"),
    ],
    "accumulator": [
        _named(lambda acc, x: (acc, x), "pair"),
        _named(lambda acc, x: x, "keep_right"),
        _named(lambda acc, x: acc, "keep_left"),
    ],
}
INTS = [-1, 0, 1, 2, 3, 5]


def param_domain(name, kind):
    if kind in ("int",):
        return INTS
    if kind == "nat":
        return [i for i in INTS if i >= 0]
    if kind in ("bool", "pybool"):
        return [False, True]
    if kind == "val":
        return [None, 0, 1, "a"]
    if kind in ("callback", "pred"):
        for role, fs in CALLBACKS.items():
            if role in name:
                return fs
        return CALLBACKS["mapper"]
    if kind.startswith("notset:"):
        from reactivex.internal.utils import NotSet

        return [NotSet] + list(param_domain(name, kind[7:]))
    if kind.startswith("opt:"):
        return [None] + list(param_domain(name, kind[4:]))
    if kind.startswith("const:"):
        return [eval(kind[6:], {})]
    raise ValueError(f"no domain for {name}:{kind}")


class Recorder:
    def __init__(self):
        self.steps = [[]]

    def on_next(self, v):
        self.steps[-1].append(("N", v))

    def on_error(self, e):
        self.steps[-1].append(("E", e))

    def on_completed(self):
        self.steps[-1].append(("C",))

    def mark(self):
        self.steps.append([])


def exc_key(e):
    """exceptions raised by the Python runtime on element operations (None + 1, 'a' < 1, ...) compare by type only:
    their messages name the operator the particular implementation happened to use"""
    if type(e) in (TypeError, ValueError, ZeroDivisionError, AttributeError, KeyError, IndexError):
        return (type(e).__name__, ())
    return (type(e).__name__, e.args)


def truncate(steps):
    """C01: nothing is observable after the first terminal"""
    out, done = [], False
    for st in steps:
        cur = []
        for ev in st:
            if done:
                break
            if ev[0] == "E" and isinstance(ev[1], Exception) and not isinstance(ev[1], Boom):
                # library exceptions compare by type and arguments, not identity
                ev = ("E", exc_key(ev[1]))
            cur.append(ev)
            if ev[0] in ("E", "C"):
                done = True
        out.append(cur)
    return out


def run_spec(cls, params, timeline):
    s = cls.__new__(cls)
    for k, v in params.items():
        setattr(s, k, v)
    s.source = None
    rec = Recorder()
    if hasattr(s, "init"):
        s.init()
    if hasattr(s, "on_subscribe"):
        s.on_subscribe(rec)
    for ev in timeline:
        rec.mark()
        if ev[0] == "N":
            s.on_next(rec, ev[1])
        elif ev[0] == "E":
            if hasattr(s, "on_error"):
                s.on_error(rec, ev[1])
            else:
                rec.on_error(ev[1])
        else:
            if hasattr(s, "on_completed"):
                s.on_completed(rec)
            else:
                rec.on_completed()
    return truncate(rec.steps)


def run_real(witness, params, timeline):
    import reactivex
    from reactivex import operators as ops
    from reactivex.subject import Subject

    env = {"ops": ops, "reactivex": reactivex, "rx": reactivex}
    env.update(params)
    subj = Subject()
    rec = Recorder()
    try:
        op = eval(witness, env)
        obs = subj.pipe(op)
    except Exception as e:  # application-time exception
        return [[("RAISED", type(e).__name__)]]
    obs.subscribe(rec.on_next, rec.on_error, rec.on_completed)
    for ev in timeline:
        rec.mark()
        try:
            if ev[0] == "N":
                subj.on_next(ev[1])
            elif ev[0] == "E":
                subj.on_error(ev[1])
            else:
                subj.on_completed()
        except Exception as e:  # escaped into the emitter
            rec.steps[-1].append(("ESCAPED", type(e).__name__, str(e)[:80]))
    return truncate(rec.steps)


def run_real_sync(witness, params, timeline):
    """the same input delivered from INSIDE the source's subscribe call: the operator sees every notification before it holds the handle of
    its source subscription (the delivery mode of from_iterable / of / return_value on the immediate scheduler and of created observables)"""
    import reactivex
    from reactivex import operators as ops
    from reactivex.disposable import Disposable

    env = {"ops": ops, "reactivex": reactivex, "rx": reactivex}
    env.update(params)
    rec = Recorder()

    def sub(observer, scheduler=None):
        for ev in timeline:
            rec.mark()
            try:
                if ev[0] == "N":
                    observer.on_next(ev[1])
                elif ev[0] == "E":
                    observer.on_error(ev[1])
                else:
                    observer.on_completed()
            except Exception as e:  # escaped into the emitter
                rec.steps[-1].append(("ESCAPED", type(e).__name__, str(e)[:80]))
        return Disposable()
    try:
        obs = reactivex.create(sub).pipe(eval(witness, env))
    except Exception as e:  # application-time exception
        return [[("RAISED", type(e).__name__)]]
    obs.subscribe(rec.on_next, rec.on_error, rec.on_completed)
    return truncate(rec.steps)


def _feed(subj, ev, recs):
    for r in recs:
        r.mark()
    try:
        if ev[0] == "N":
            subj.on_next(ev[1])
        elif ev[0] == "E":
            subj.on_error(ev[1])
        else:
            subj.on_completed()
    except Exception as e:
        for r in recs:
            r.steps[-1].append(("ESCAPED", type(e).__name__, str(e)[:80]))


def run_real_resub(witness, params, timeline):
    """C04: two overlapping subscriptions to ONE observable object, then a third after the run"""
    import reactivex
    from reactivex import operators as ops
    from reactivex.subject import Subject

    env = {"ops": ops, "reactivex": reactivex, "rx": reactivex}
    env.update(params)
    subj = Subject()
    obs = subj.pipe(eval(witness, env))
    r1, r2 = Recorder(), Recorder()
    obs.subscribe(r1.on_next, r1.on_error, r1.on_completed)
    obs.subscribe(r2.on_next, r2.on_error, r2.on_completed)
    for ev in timeline:
        _feed(subj, ev, [r1, r2])
    # sequential re-subscription over a cold replay of the same timeline, twice on one observable object
    def cold_sub(observer, scheduler=None):
        for ev in timeline:
            if ev[0] == "N":
                observer.on_next(ev[1])
            elif ev[0] == "E":
                observer.on_error(ev[1])
            else:
                observer.on_completed()
        from reactivex.disposable import Disposable

        return Disposable()
    cobs = reactivex.create(cold_sub).pipe(eval(witness, env))
    seq = []
    for _ in range(2):
        r = Recorder()
        try:
            cobs.subscribe(r.on_next, r.on_error, r.on_completed)
        except Exception as e:
            r.steps[-1].append(("ESCAPED", type(e).__name__))
        seq.append(flat(truncate(r.steps)))
    return truncate(r1.steps), truncate(r2.steps), seq


def run_real_reuse(witness, params, timeline):
    """C44: ONE operator object applied to two independent sources, events interleaved"""
    import reactivex
    from reactivex import operators as ops
    from reactivex.subject import Subject

    env = {"ops": ops, "reactivex": reactivex, "rx": reactivex}
    env.update(params)
    op = eval(witness, env)
    s1, s2 = Subject(), Subject()
    a, b = s1.pipe(op), s2.pipe(op)
    r1, r2 = Recorder(), Recorder()
    a.subscribe(r1.on_next, r1.on_error, r1.on_completed)
    b.subscribe(r2.on_next, r2.on_error, r2.on_completed)
    for ev in timeline:
        _feed(s1, ev, [r1])
        _feed(s2, ev, [r2])
    return truncate(r1.steps), truncate(r2.steps)


def diff_scope(c, mode, max_len=3, budget_s=60.0):
    """bounded search for a C04 (mode='resub') or C44 (mode='reuse') counter-example of one operator"""
    cls = spec_class(c)
    t0 = time.time()
    cases = 0
    for params in param_grid(c):
        if not requires_ok(c, params) or [ex for cond, ex in c.raises if eval(cond, {}, dict(params))]:
            continue
        for tl in timelines(max_len, elem_values(c, VALUES[:4])):
            cases += 1
            spec = run_spec(cls, params, tl)
            if mode == "resub":
                a, b, seq = run_real_resub(c.witness, params, tl)
                bad = a != spec or b != spec or any(s != flat(spec) for s in seq)
                real = {"overlapping": [a, b], "sequential": seq}
            else:
                a, b = run_real_reuse(c.witness, params, tl)
                bad = a != spec or b != spec
                real = {"two_sources": [a, b]}
            if bad:
                return {"cases": cases, "found": [{"params": show(params), "timeline": show(tl), "real": show(real), "spec": show(spec),
                                                   "_case": (params, tl)}], "seconds": time.time() - t0}
            if time.time() - t0 > budget_s:
                return {"cases": cases, "found": [], "seconds": time.time() - t0, "budget_exhausted": True}
    return {"cases": cases, "found": [], "seconds": time.time() - t0}


SCOPE_REPLAY_TEMPLATE = '''#!/venv/bin/python
"""Replay of a counter-example found for property {prop}.
obligation: {oid}
{what}"""
import sys
sys.path.insert(0, {verif!r})
from rxvc import diffrun
c = diffrun.contract_of({mod!r}, {name!r})
case = {case}
params = diffrun.decode_params(c, case["params"])
timeline = diffrun.decode_timeline(case["timeline"])
spec = diffrun.run_spec(diffrun.spec_class(c), params, timeline)
real = diffrun.{fn}(c.witness, params, timeline)
print("operator :", c.witness, case["params"])
print("input    :", case["timeline"])
print("real     :", real)
print("expected (each subscription / application):", spec)
sys.exit(0 if diffrun.scope_ok({mode!r}, real, spec) else 1)
'''


def scope_ok(mode, real, spec):
    if mode == "resub":
        a, b, seq = real
        return a == spec and b == spec and all(s == flat(spec) for s in seq)
    a, b = real
    return a == spec and b == spec


def timelines(max_len, values):
    for n in range(max_len + 1):
        for elems in itertools.product(values, repeat=n):
            body = [("N", v) for v in elems]
            yield body
            yield body + [("C",)]
            yield body + [("E", Boom("src"))]


def elem_values(c, default):
    if getattr(c, "elem", "val") == "notification":
        from reactivex.notification import OnCompleted, OnError, OnNext

        return [OnNext(None), OnNext(1), OnError(Boom("n")), OnCompleted()]
    return default


def flat(steps):
    return [ev for st in steps for ev in st]


def show(x):
    return repr(x)[:300]


def contract_of(modname, name):
    mod = importlib.import_module(modname)
    for c in mod.CONTRACTS:
        if c.name == name:
            return c
    raise SystemExit(f"no contract {name} in {modname}")


def spec_class(c):
    modname, clsname = c.spec.split(":")
    return getattr(importlib.import_module(modname), clsname)


def param_grid(c, pin=None):
    names = list(c.params)
    doms = []
    for n in names:
        d = list(param_domain(n, c.params[n]))
        if pin and n in pin and pin[n] in d:
            d = [pin[n]] + [x for x in d if x != pin[n]]
        doms.append(d)
    for combo in itertools.product(*doms):
        yield dict(zip(names, combo))


def requires_ok(c, params):
    if not c.requires:
        return True
    try:
        return bool(eval(c.requires, {}, dict(params)))
    except Exception:
        return True


def validate_spec(c, max_len=4, values=None):
    """twin vs literal list expression, prefix-wise (covers timing)"""
    cls = spec_class(c)
    values = elem_values(c, values or VALUES[:5])
    cases = mism = 0
    first = None
    for params in param_grid(c):
        if not requires_ok(c, params):
            continue
        if any(isinstance(v, int) and not isinstance(v, bool) and v < 0 for v in params.values()):
            continue
        for tl in timelines(max_len, values):
            cases += 1
            got = flat(run_spec(cls, params, tl))
            h = [e[1] for e in tl if e[0] == "N"]
            t = "live"
            if tl and tl[-1][0] == "C":
                t = "completed"
            elif tl and tl[-1][0] == "E":
                t = ("error", tl[-1][1])
            elems, term = cls.ref(h, t, **params)
            exp = [("N", v) for v in elems]
            if term == "completed":
                exp.append(("C",))
            elif isinstance(term, tuple):
                e = term[1]
                if isinstance(e, Exception) and not isinstance(e, Boom):
                    e = exc_key(e)
                exp.append(("E", e))
            if got != exp:
                mism += 1
                if first is None:
                    first = {"params": show(params), "timeline": show(tl), "twin": show(got), "reference": show(exp)}
    return {"cases": cases, "mismatches": mism, "first": first}


def diff_real(c, max_len=3, values=None, pin=None, budget_s=60.0, stop_first=True):
    """real operator vs twin, step-wise"""
    cls = spec_class(c)
    values = elem_values(c, values or VALUES)
    t0 = time.time()
    cases = 0
    found = []
    for params in param_grid(c, pin):
        if not requires_ok(c, params):
            continue
        for tl in timelines(max_len, values):
            cases += 1
            real = run_real(c.witness, params, tl)
            if real and real[0] and real[0][0][0] == "RAISED":
                raised = real[0][0][1]
                expected = [ex for cond, ex in c.raises if eval(cond, {}, dict(params))]
                if expected != [raised]:
                    found.append({"params": show(params), "timeline": show(tl), "real": f"raised {raised}",
                                  "spec": f"expected {expected or 'no exception'}"})
                break
            else:
                expected = [ex for cond, ex in c.raises if eval(cond, {}, dict(params))]
                if expected:
                    found.append({"params": show(params), "timeline": show(tl), "real": "no exception", "spec": f"expected {expected}"})
                    break
            spec = run_spec(cls, params, tl)
            if real != spec:
                found.append({"params": show(params), "timeline": show(tl), "real": show(real), "spec": show(spec),
                              "_case": (params, tl)})
                if stop_first:
                    return {"cases": cases, "found": found, "seconds": time.time() - t0}
            elif not getattr(c, "timed", False):
                cases += 1
                real2 = run_real_sync(c.witness, params, tl)
                if flat(real2) != flat(spec):  # (a source that is never subscribed - take(0) - has no steps: the sequences are compared)
                    found.append({"params": show(params), "timeline": show(tl), "real": show(real2), "spec": show(spec), "delivery": "from inside the source's subscribe call",
                                  "_case": (params, tl), "_sync": True})
                    if stop_first:
                        return {"cases": cases, "found": found, "seconds": time.time() - t0}
            if time.time() - t0 > budget_s:
                return {"cases": cases, "found": found, "seconds": time.time() - t0, "budget_exhausted": True}
    return {"cases": cases, "found": found, "seconds": time.time() - t0}


REPLAY_TEMPLATE = '''#!/venv/bin/python
"""Replay of a counter-example found for property {prop}.
obligation: {oid}
The verifier's counter-model was confirmed on the real code by this concrete input.
Exit status 1 = the real operator disagrees with the list semantics (violation reproduced)."""
import sys
sys.path.insert(0, {verif!r})
from rxvc import diffrun
c = diffrun.contract_of({mod!r}, {name!r})
case = {case}
params = diffrun.decode_params(c, case["params"])
timeline = diffrun.decode_timeline(case["timeline"])
real = (diffrun.run_real_sync if case.get("sync") else diffrun.run_real)(c.witness, params, timeline)
spec = diffrun.run_spec(diffrun.spec_class(c), params, timeline)
print("operator :", c.witness, case["params"], "(notifications delivered from inside the source's subscribe call)" if case.get("sync") else "")
print("input    :", case["timeline"])
print("real     :", real)
print("expected :", spec)
sys.exit(1 if (diffrun.flat(real) != diffrun.flat(spec) if case.get("sync") else real != spec) else 0)
'''


def encode_params(c, params):
    out = {}
    for n, v in params.items():
        out[n] = getattr(v, "__name__", None) if callable(v) else v
    return out


def decode_params(c, enc):
    out = {}
    for n, v in enc.items():
        kind = c.params[n]
        if kind.replace("opt:", "") in ("callback", "pred") and v is not None:
            out[n] = next(f for f in param_domain(n, kind) if getattr(f, "__name__", None) == v)
        elif isinstance(v, list):
            out[n] = tuple(v)
        else:
            out[n] = v
    return out


def encode_timeline(tl):
    out = []
    for ev in tl:
        if ev[0] == "N":
            v = ev[1]
            if type(v).__name__ in ("OnNext", "OnError", "OnCompleted"):
                out.append(["NOTIF", type(v).__name__, repr(getattr(v, "value", None)) if type(v).__name__ == "OnNext" else "None"])
            else:
                out.append(["N", repr(v)])
        elif ev[0] == "E":
            out.append(["E", ev[1].tag])
        else:
            out.append(["C"])
    return out


def decode_timeline(enc):
    out = []
    for ev in enc:
        if ev[0] == "NOTIF":
            from reactivex import notification as _n

            if ev[1] == "OnNext":
                out.append(("N", _n.OnNext(eval(ev[2], {}))))
            elif ev[1] == "OnError":
                out.append(("N", _n.OnError(Boom("n"))))
            else:
                out.append(("N", _n.OnCompleted()))
        elif ev[0] == "N":
            out.append(("N", eval(ev[1], {})))
        elif ev[0] == "E":
            out.append(("E", Boom(ev[1])))
        else:
            out.append(("C",))
    return out


def main(argv):
    mode, modname, name = argv[:3]
    opts = json.loads(argv[3]) if len(argv) > 3 else {}
    c = contract_of(modname, name)
    if mode in ("resub", "reuse"):
        res = diff_scope(c, mode, opts.get("max_len", 3), opts.get("budget_s", 60.0))
        for f in res["found"]:
            case = f.pop("_case", None)
            if case is not None:
                f["case"] = {"params": encode_params(c, case[0]), "timeline": encode_timeline(case[1])}
                if "replay_path" in opts:
                    os.makedirs(os.path.dirname(opts["replay_path"]), exist_ok=True)
                    what = ("Subscribing again (overlapping and sequentially) to ONE observable object gives different results."
                            if mode == "resub" else "ONE operator object applied to two independent sources leaks state between them.")
                    with open(opts["replay_path"], "w") as fh:
                        fh.write(SCOPE_REPLAY_TEMPLATE.format(prop=opts.get("prop", "?"), oid=opts.get("oid", "?"), what=what,
                                                              verif=VERIF, mod=modname, name=name, case="__import__('json').loads(%r)" % json.dumps(f["case"]),
                                                              fn="run_real_resub" if mode == "resub" else "run_real_reuse", mode=mode))
                    res["replay"] = opts["replay_path"]
    elif mode == "validate":
        res = validate_spec(c, opts.get("max_len", 4))
    elif mode in ("diff", "replay"):
        res = diff_real(c, opts.get("max_len", 3), pin=opts.get("pin"), budget_s=opts.get("budget_s", 60.0))
        for f in res["found"]:
            case = f.pop("_case", None)
            sync = f.pop("_sync", False)
            if case is not None:
                f["case"] = {"params": encode_params(c, case[0]), "timeline": encode_timeline(case[1])}
                if sync:
                    f["case"]["sync"] = True
        if mode == "replay" and res["found"] and "case" in res["found"][0]:
            path = opts["replay_path"]
            os.makedirs(os.path.dirname(path), exist_ok=True)
            with open(path, "w") as fh:
                fh.write(REPLAY_TEMPLATE.format(prop=opts.get("prop", "?"), oid=opts.get("oid", "?"), verif=VERIF,
                                                mod=modname, name=name, case="__import__('json').loads(%r)" % json.dumps(res["found"][0]["case"])))
            res["replay"] = path
    else:
        raise SystemExit("mode?")
    print(json.dumps(res, default=repr))


if __name__ == "__main__":
    main(sys.argv[1:])
