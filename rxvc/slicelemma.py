"""C07: slicing an observable behaves like slicing a list - a K8 lemma over the C05 contracts.

Two layers, both discharged by SMT:

(1) closed-form lemmas for the stage operators, proved by snoc induction over the SPEC machines of
    C05 (the same machines the real handlers are proved to refine): for all histories h
        take(c):       out = h[0:min(n,c)]            completes once n >= c
        skip(c):       out = h[min(n,c):n]
        skip_last(c):  out = h[0:max(n-c,0)]
        take_last(c):  out = []  while live,  h[max(n-c,0):n] at completion
        filter_indexed(p): kept relative indices are exactly {i | p(x_i, i)} (the counter equals the index)
    each as: invariant /\ closed form for h  ==>  after the spec step, closed form for h ++ [x].

(2) the real `slice_` (and Observable.__getitem__) is executed symbolically with start, stop, step
    each None or an arbitrary integer; on every path the `ops.*` calls are recorded (not entered)
    with their symbolic arguments, the stage closed forms are composed as index intervals
    [lo, hi) over the input plus the stride predicate obtained by symbolically evaluating the
    real lambda handed to filter_indexed, and the obligation is, for an arbitrary length n and an
    arbitrary index idx:   idx is emitted  <=>  idx in range(*slice(start,stop,step).indices(n)).
    Both sides keep input order, so equal index sets mean equal sequences.  step < 1 must raise.
Assumes len(source) < sys.maxsize (take(maxsize) is "take everything").
"""
from __future__ import annotations

import ast
import sys
import time

import z3

from . import natives, smt
from .forward import FwdWorld, OpTerm
from .interp import NOTSET, Ctx, Env, Interp, World, explore
from .loader import Loader
from .refine import Result
from .values import SV, BoundMethod, Closure, IntSV, ListObj, Obj, Opaque, PathEnd, PyExc, Unsupported

FILE = "reactivex/operators/_slice.py"
OBS = "reactivex/observable/observable.py"


def _res(ctx, oid, goal, detail=""):
    t0 = time.time()
    if isinstance(goal, bool):
        goal = z3.BoolVal(goal)
    v, m, b = smt.prove(ctx.pc, goal)
    ctx.results.append(Result(oid, v, b, smt.model_to_dict(m), list(ctx.branch_log), detail, time.time() - t0, "lemma"))
    return v == "proved"


# ---------------------------------------------------------------------------------------------
# (1) closed forms of the stage spec machines, by snoc induction

def zmin(a, b):
    return z3.If(a < b, a, b)


def zmax(a, b):
    return z3.If(a > b, a, b)


def ext(h, lo, hi):
    return z3.Extract(h, lo, zmax(hi - lo, 0))


STAGES = {
    # name: (spec class, state invariant over (s, n), closed form live (h, n, c), closed form completed, done(n, c))
    "take": ("specs.c05:take", lambda s, n, c: s["n"] == n, lambda h, n, c: ext(h, 0, zmin(n, c)),
             lambda h, n, c: ext(h, 0, zmin(n, c)), lambda n, c: n >= c),
    "skip": ("specs.c05:skip", lambda s, n, c: s["n"] == n, lambda h, n, c: ext(h, zmin(n, c), n),
             lambda h, n, c: ext(h, zmin(n, c), n), None),
    "skip_last": ("specs.c05:skip_last", lambda s, n, c: s["q"] == ext(h_sym(), zmax(n - c, 0), n), lambda h, n, c: ext(h, 0, zmax(n - c, 0)),
                  lambda h, n, c: ext(h, 0, zmax(n - c, 0)), None),
    "take_last": ("specs.c05:take_last", lambda s, n, c: s["q"] == ext(h_sym(), zmax(n - c, 0), n), lambda h, n, c: z3.Empty(smt.SeqVal),
                  lambda h, n, c: ext(h, zmax(n - c, 0), n), None),
}

_H = [None]


def h_sym():
    return _H[0]


def state_terms(it, s):
    out = {}
    for k, v in s.fields.items():
        if k == "count":
            continue
        if isinstance(v, ListObj):
            out[k] = v.term if v.symbolic else (it.seq_term(v) if v.items else z3.Empty(smt.SeqVal))
        else:
            out[k] = it.to_int(v)
    return out


def stage_lemma(ctx, loader, name, event):
    """base: init establishes inv for h = [];
    step: inv(s,h) /\\ out == closed(h)  ==>  the spec step on x gives out' == closed(h ++ [x]) /\\ inv(s', h ++ [x]);
    completion: the spec's completion step gives closed_completed(h)."""
    from .refine import OpWorld

    spec, inv, live, comp, done = STAGES[name]
    modname, clsname = spec.split(":")
    w = OpWorld()
    it = Interp(loader, ctx, w)
    cls = it.module_get(modname, clsname)
    s = Obj(cls)
    c = ctx.fresh("count", "int")
    ctx.assume(c.t >= 0)
    s.fields["count"] = c
    it.call(BoundMethod(s, it.class_lookup(cls, "init")), [], {})
    oid = f"specs/c05.py::{clsname}/closed-form"
    if event == "base":
        _H[0] = z3.Empty(smt.SeqVal)
        _res(ctx, oid + "/base/invariant", inv(state_terms(it, s), z3.IntVal(0), c.t))
        _res(ctx, oid + "/base/elements", live(_H[0], z3.IntVal(0), c.t) == z3.Empty(smt.SeqVal))
        return
    h = ctx.fresh("h", "seq").t
    _H[0] = h
    n = z3.Length(h)
    for k, v in list(s.fields.items()):
        if k == "count":
            continue
        s.fields[k] = ListObj(term=ctx.fresh("s_" + k, "seq").t) if isinstance(v, ListObj) else ctx.fresh("s_" + k, "int")
    ctx.assume(inv(state_terms(it, s), n, c.t))
    if done is not None and ctx.branch(done(n, c.t), "already done"):
        return  # nothing is observable after the stage completed (C01)
    out = Opaque("observer", "lemma_out")
    if event == "step":
        x = ctx.fresh("x", "val")
        it.call(BoundMethod(s, it.class_lookup(cls, "on_next")), [out, x], {})
        tr = w.trace("lemma_out")
        h2 = z3.Concat(h, z3.Unit(x.t))
        _H[0] = h2
        _res(ctx, oid + "/step/elements", z3.Concat(live(h, n, c.t), tr.elems()) == live(h2, n + 1, c.t))
        _res(ctx, oid + "/step/invariant", inv(state_terms(it, s), n + 1, c.t))
        if done is not None:
            d2 = done(n + 1, c.t)
            _res(ctx, oid + "/step/completes-iff-done", d2 if tr.terminal is not None else z3.Not(d2))
    else:
        m = it.class_lookup(cls, "on_completed")
        if m is not None:
            it.call(BoundMethod(s, m), [out], {})
        tr = w.trace("lemma_out")
        _res(ctx, oid + "/completion/elements", z3.Concat(live(h, n, c.t), tr.elems()) == comp(h, n, c.t))


# ---------------------------------------------------------------------------------------------
# (2) slice_ paths composed over the closed forms

class SliceHarness:
    def __init__(self, loader=None):
        self.loader = loader or Loader()
        self.results = []
        self.unsupported = None
        self.functions = {}

    def hook(self, it, f, args, kwargs):
        if isinstance(f, Closure) and f.module is not None and f.module.name == "reactivex.operators" \
                and isinstance(f.node, ast.FunctionDef) and "." not in f.qualname:
            env = Env(None, f.module, f)
            it.bind_args(f, args, kwargs, env)
            return OpTerm(f.node.name, dict(env.vars))
        return NOTSET

    def opt_int(self, ctx, name):
        if ctx.choose(2, f"{name}_is_none") == 0:
            return None
        return ctx.fresh(name, "int")

    def member_py(self, it, n, idx, start, stop, step):
        """idx in range(*slice(start, stop, step).indices(n)) for step >= 1"""
        s, e = natives.py_slice_bounds(it, n, start, stop)
        st = z3.IntVal(1) if step is None else it.to_int(step)
        return z3.And(idx >= s, idx < e, smt.py_mod(idx - s, st) == 0)

    def compose(self, it, ctx, chain, n, idx, uid):
        """membership of absolute index idx in the output of the recorded pipeline, from the stage closed forms"""
        lo, hi = z3.IntVal(0), n
        stride = None
        elt = z3.Const("elt_at_idx", smt.Val)
        val = SV(elt, "val")  # the value flowing through the pipeline for the element at absolute index idx
        extra = []  # element-wise conditions (take_while over a downward-closed predicate)
        for t in chain:
            m = hi - lo
            if t.name == "map_indexed":
                # closed form of map_indexed (C05 contract): element i becomes mapper(x, i), i relative to this stage
                if stride is not None:
                    raise Unsupported("slice: map_indexed after the stride filter")
                val = it.call(t.bound["mapper_indexed"], [val, IntSV(idx - lo)], {})
                continue
            if t.name == "map":
                val = it.call(t.bound["mapper"], [val], {})
                continue
            if t.name == "take_while":
                if t.bound.get("inclusive") is not False:
                    raise Unsupported("slice: inclusive take_while")
                p = it.truth_term(it.call(t.bound["predicate"], [val], {}))
                p = z3.BoolVal(p) if isinstance(p, bool) else p
                # take_while keeps the longest prefix satisfying p; for a predicate that is downward closed in the
                # position that is exactly {idx | p(idx)} - downward closure is an obligation, not an assumption
                j = z3.Int("j_before_idx")
                pj = z3.substitute(p, (idx, j), (elt, z3.Const("elt_at_j", smt.Val)))
                _res(ctx, uid + "/take_while-predicate-downward-closed",
                     z3.Implies(z3.And(j >= lo, j <= idx, idx < hi, p), pj))
                extra.append(p)
                continue
            if t.name in ("take", "skip", "take_last", "skip_last"):
                c = it.to_int(t.bound["count"])
                # the stage's own precondition: a negative count raises ArgumentOutOfRangeException
                _res(ctx, uid + f"/stage-precondition/{t.name}-count>=0", c >= 0)
                if stride is not None:
                    raise Unsupported("slice: contiguous stage after the stride filter")
                if t.name == "take":
                    lo, hi = lo, lo + zmin(m, c)
                elif t.name == "skip":
                    lo, hi = lo + zmin(m, c), hi
                elif t.name == "take_last":
                    lo, hi = lo + zmax(m - c, 0), hi
                else:
                    lo, hi = lo, lo + zmax(m - c, 0)
            elif t.name == "filter_indexed":
                p = t.bound["predicate_indexed"]
                i = idx - lo
                r = it.call(p, [val, IntSV(i)], {})
                stride = it.truth_term(r)
                stride = z3.BoolVal(stride) if isinstance(stride, bool) else stride
            else:
                raise Unsupported(f"slice pipeline uses ops.{t.name}, which has no closed form here")
        mem = z3.And(idx >= lo, idx < hi, *extra)
        if stride is not None:
            mem = z3.And(mem, stride)
        # what is emitted for position idx is the source element itself
        _res(ctx, uid + "/emits-the-source-elements-unchanged", it.to_val(val) == elt)
        return mem

    def run_path(self, ctx, entry):
        w = FwdWorld(self)
        it = Interp(self.loader, ctx, w)
        it.call_hook = self.hook
        start, stop, step = self.opt_int(ctx, "start"), self.opt_int(ctx, "stop"), self.opt_int(ctx, "step")
        src = w.mk_source()
        n = z3.Int("n")
        idx = z3.Int("idx")
        ctx.assume(z3.And(n >= 0, n < sys.maxsize))
        raised = None
        if entry == "slice_":
            uid = f"{FILE}::slice_"
            f = it.module_get("reactivex.operators._slice", "slice_")
            try:
                res = it.call(it.call(f, [start, stop, step], {}), [src], {})
            except PyExc as e:
                raised = e.value
        elif entry == "getitem-slice":
            uid = f"{OBS}::Observable.__getitem__[slice]"
            obs = it.module_get("reactivex.observable.observable", "Observable")
            from .values import SliceVal

            try:
                res = it.call(BoundMethod(src, it.class_lookup(obs, "__getitem__")), [SliceVal(start, stop, step)], {})
            except PyExc as e:
                raised = e.value
        else:
            uid = f"{OBS}::Observable.__getitem__[int]"
            if start is None:
                raise PathEnd()
            stop = step = None
            obs = it.module_get("reactivex.observable.observable", "Observable")
            try:
                res = it.call(BoundMethod(src, it.class_lookup(obs, "__getitem__")), [start], {})
            except PyExc as e:
                raised = e.value
        step_t = z3.IntVal(1) if step is None else it.to_int(step)
        if raised is not None:
            # only a step below 1 may be rejected
            _res(ctx, uid + "/raises-only-for-step<1", step_t < 1, detail=f"raised {raised!r}")
            return
        if step is not None and ctx.branch(step_t < 1, "step < 1"):
            # the property quantifies steps >= 1; step 0 / negative must not silently pass as a slice
            if ctx.branch(step_t < 0, "step < 0"):
                _res(ctx, uid + "/negative-step-rejected", False, detail="negative step accepted")
            return
        if not (isinstance(res, Opaque) and res.kind == "source"):
            raise Unsupported(f"slice result {res!r}")
        chain = list(res.attrs.get("chain", ()))
        mem = self.compose(it, ctx, chain, n, idx, uid)
        if entry == "getitem-int":
            # source[i] emits exactly [list(source)[i]] when in range (Python index normalisation)
            k = it.to_int(start)
            j = z3.If(k < 0, k + n, k)
            expect = z3.And(idx == j, j >= 0, j < n)
        else:
            expect = self.member_py(it, n, idx, start, stop, step)
        _res(ctx, uid + "/emits-exactly-the-python-slice", mem == expect,
             detail=f"pipeline {chain!r}"[:300])

    def run(self):
        t0 = time.time()
        try:
            self.functions[f"{FILE}::slice_"] = self.loader.sha(FILE, "slice_")
            self.functions[f"{OBS}::Observable.__getitem__"] = self.loader.sha(OBS, "Observable.__getitem__")
            for name in STAGES:
                for ev in ("base", "step", "completion"):
                    for p in explore(lambda ctx, _n=name, _e=ev: stage_lemma(ctx, self.loader, _n, _e)):
                        self.results.extend(p.results)
            for entry in ("slice_", "getitem-slice", "getitem-int"):
                for p in explore(lambda ctx, _e=entry: self.run_path(ctx, _e)):
                    self.results.extend(p.results)
        except Unsupported as e:
            self.unsupported = str(e)
        except PyExc as e:
            self.unsupported = f"interpreter-level exception: {e.value!r} {getattr(e.value, 'fields', '')}"
        self.seconds = time.time() - t0
        return self


def run_unit(desc):
    import json
    import os
    from .report import REPLAY_DIR, VERIF, native
    h = SliceHarness().run()
    rep = {
        "unit": f"{FILE}::slice_",
        "kind": "K8 lemma over the C05 contracts (interval composition) + closed-form lemmas of the stage specs",
        "functions": h.functions,
        "results": [r.as_dict() for r in h.results],
        "unsupported": h.unsupported,
        "spec_validation": [],
        "bounded": [],
        "replayable": {"runner": "slicerun.py", "module": "-", "name": "slice"},
    }
    if h.unsupported or desc.get("tier") == "thorough":
        # a pipeline built from other stages than those with closed forms is out of subset: the native comparison with list slicing
        # decides, BOUNDED; thorough tier: the same table as a cross-check of the lemma
        prop = desc.get("prop", "C07")
        r, err = native([os.path.join(VERIF, "rxvc", "slicerun.py"), "replay", "-", "slice",
                         json.dumps({"replay_path": os.path.join(REPLAY_DIR, f"{prop}-standin-slice.py"), "prop": prop, "oid": rep["unit"] + "/bounded-standin"})], timeout=900)
        st = r if r is not None else {"found": [], "error": err, "cases": 0}
        if h.unsupported:
            rep["standin"] = st
        rep["bounded"].append({"function": rep["unit"], "bound": "slicerun.py: sources of length 0..5, start / stop in {None, -6..6}, step in {None, 1, 2, 3, 6}, the three "
                               "forms source[a:b:c], ops.slice(a, b, c), source[i], against list slicing", "cases": st.get("cases", 0),
                               "mismatches": len(st.get("found", [])), "role": "stand-in (out of subset)" if h.unsupported else "cross-check against CPython"})
        if not h.unsupported and st.get("found") and all(x.verdict == "proved" for x in h.results):
            rep["crash"] = f"cross-check failed: the lemma is proved but list slicing disagrees: {json.dumps(st['found'][0])[:400]}"
    return rep
