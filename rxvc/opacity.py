"""K-opacity (C08): element values are opaque - their truthiness and their identity with None are never observed.

Decided on the real AST of every module of reactivex/operators, reactivex/observable and reactivex/subject by a
flow-insensitive taint analysis, one module at a time:

  element sources   the element parameter of every on_next handler: the first parameter of a function or lambda handed as
                    on_next to `.subscribe(...)` / an observer constructor, and the value parameter of the `on_next` /
                    `_on_next_core` methods of subject and observer classes;
  propagation       assignment (also through `nonlocal` cells, tuple targets), storing into a container or a `self.<field>`
                    (`q.append(x)`, `values[i] = x`, `self.value = x`: the container / field then holds elements), reading back
                    (`q.pop(0)`, `q[0]`, `for y in q`, `self.value`, `q.popleft()`), conditional expressions and `or`/`and`
                    results of tainted operands;  the result of CALLING anything (a key mapper, a predicate, `len(q)`,
                    `Timestamp(...)`) is not an element;
  obligations       for every expression used as a condition (`if`/`while`/ternary/`assert`/comprehension filter), as an
                    operand of `not` / `and` / `or`, as the argument of `bool(...)`, or compared with None by `is` / `is not`
                    / `==` / `!=`, in a function that handles elements: the expression is not element-valued.
A field that legitimately holds "an element or nothing" must therefore carry its own flag or a private sentinel
(`has_value`, `NotSet`) - exactly the mechanism the property names.  Path-insensitive and name-based (A-static); sound
for the flows listed, silent about elements smuggled through data structures it does not follow (dict values, attributes
of other objects): those are covered only where a K1/K2 contract exists (C05, C06, C13, C20-C23 quantify over an
uninterpreted value sort whose truthiness the solver is free to choose).
"""
from __future__ import annotations

import ast
import time

from .loader import Loader, repo_py_files

CONTAINER_ADD = {"append", "appendleft", "add", "insert", "extend", "put"}
CONTAINER_TAKE = {"pop", "popleft", "get", "peek", "dequeue"}
ON_NEXT_NAMES = {"on_next", "_on_next_core", "on_next_core"}
OBSERVER_CTORS = {"Observer", "AnonymousObserver", "AutoDetachObserver"}


def name_of(b):
    if isinstance(b, ast.Name):
        return b.id
    if isinstance(b, ast.Attribute) and isinstance(b.value, ast.Name) and b.value.id == "self":
        return "self." + b.attr
    return None


class ModuleTaint:
    def __init__(self, rel, tree):
        self.rel = rel
        self.tree = tree
        self.fns = [n for n in ast.walk(tree) if isinstance(n, (ast.FunctionDef, ast.Lambda))]
        self.defs = {}
        for n in self.fns:
            if isinstance(n, ast.FunctionDef):
                self.defs.setdefault(n.name, []).append(n)
        self.local = {id(f): set() for f in self.fns}  # element-valued local names per function
        self.cells = set()  # nonlocal names that hold elements (visible in every nested function of the module)
        self.containers = set()  # names / self.fields that hold elements (as items, or directly for self.fields)
        self.handlers = []
        self.find_handlers()
        self.propagate()

    def find_handlers(self):
        seen = set()

        def add(fn):
            if id(fn) in seen:
                return
            args = fn.args.args
            if not args:
                return
            p = args[1].arg if args[0].arg == "self" and len(args) > 1 else (args[0].arg if args[0].arg != "self" else None)
            if p is None:
                return
            seen.add(id(fn))
            self.handlers.append(fn)
            self.local[id(fn)].add(p)
        for n in ast.walk(self.tree):
            if isinstance(n, ast.Call):
                f = n.func
                is_sub = isinstance(f, ast.Attribute) and f.attr in ("subscribe", "subscribe_")
                is_ctor = isinstance(f, ast.Name) and f.id in OBSERVER_CTORS
                if is_sub or is_ctor:
                    a = n.args[0] if n.args else next((k.value for k in n.keywords if k.arg == "on_next"), None)
                    if isinstance(a, ast.Name):
                        for d in self.defs.get(a.id, []):
                            add(d)
                    elif isinstance(a, ast.Lambda):
                        add(a)
        for n in self.fns:
            if isinstance(n, ast.FunctionDef) and n.name in ON_NEXT_NAMES and n.args.args and n.args.args[0].arg == "self":
                add(n)

    def is_elem(self, e, loc):
        if isinstance(e, ast.Name):
            return e.id in loc or e.id in self.cells
        if isinstance(e, ast.Attribute):
            n = name_of(e)
            return n is not None and n in self.containers
        if isinstance(e, ast.Subscript):
            n = name_of(e.value)
            return n is not None and n in self.containers and not isinstance(e.slice, ast.Slice)
        if isinstance(e, ast.Call) and isinstance(e.func, ast.Attribute) and e.func.attr in CONTAINER_TAKE:
            n = name_of(e.func.value)
            return n is not None and n in self.containers
        if isinstance(e, ast.IfExp):
            return self.is_elem(e.body, loc) or self.is_elem(e.orelse, loc)
        if isinstance(e, ast.BoolOp):
            return any(self.is_elem(v, loc) for v in e.values)
        if isinstance(e, ast.NamedExpr):
            return self.is_elem(e.value, loc)
        return False

    def own_nodes(self, f):
        """nodes of f's body that are not inside a nested function"""
        body = f.body if isinstance(f.body, list) else [f.body]
        stack = list(body)
        while stack:
            n = stack.pop()
            if isinstance(n, (ast.FunctionDef, ast.AsyncFunctionDef, ast.Lambda, ast.ClassDef)):
                continue
            yield n
            for ch in ast.iter_child_nodes(n):
                if isinstance(ch, (ast.FunctionDef, ast.AsyncFunctionDef, ast.Lambda, ast.ClassDef)):
                    continue
                stack.append(ch)

    def propagate(self):
        changed = True
        nonlocals = {id(f): {x for n in self.own_nodes(f) if isinstance(n, ast.Nonlocal) for x in n.names} for f in self.fns}
        while changed:
            changed = False
            for f in self.fns:
                loc = self.local[id(f)]

                def taint_target(t):
                    nonlocal changed
                    if isinstance(t, ast.Name):
                        if t.id in nonlocals[id(f)]:
                            if t.id not in self.cells:
                                self.cells.add(t.id)
                                changed = True
                        elif t.id not in loc:
                            loc.add(t.id)
                            changed = True
                    elif isinstance(t, ast.Attribute):
                        n = name_of(t)
                        if n and n not in self.containers:
                            self.containers.add(n)
                            changed = True
                    elif isinstance(t, ast.Subscript):
                        n = name_of(t.value)
                        if n and n not in self.containers:
                            self.containers.add(n)
                            changed = True
                for n in self.own_nodes(f):
                    if isinstance(n, ast.Assign) and self.is_elem(n.value, loc):
                        for t in n.targets:
                            taint_target(t)
                    elif isinstance(n, ast.AnnAssign) and n.value is not None and self.is_elem(n.value, loc):
                        taint_target(n.target)
                    elif isinstance(n, ast.NamedExpr) and self.is_elem(n.value, loc):
                        taint_target(n.target)
                    elif isinstance(n, ast.For):
                        cn = name_of(n.iter)
                        if cn in self.containers and isinstance(n.target, ast.Name) and n.target.id not in loc:
                            loc.add(n.target.id)
                            changed = True
                    elif isinstance(n, ast.Call) and isinstance(n.func, ast.Attribute) and n.func.attr in CONTAINER_ADD and n.args:
                        if self.is_elem(n.args[-1], loc):
                            cn = name_of(n.func.value)
                            if cn and cn not in self.containers:
                                self.containers.add(cn)
                                changed = True
                    if isinstance(n, ast.Call) and isinstance(n.func, ast.Name) and n.func.id in self.defs:
                        # an element handed to a helper function of the module (`_next(i, x)`): the helper's parameter holds it
                        for d in self.defs[n.func.id]:
                            ps = [a.arg for a in d.args.posonlyargs + d.args.args]
                            for k, a in enumerate(n.args):
                                if k < len(ps) and self.is_elem(a, loc) and ps[k] not in self.local[id(d)]:
                                    self.local[id(d)].add(ps[k])
                                    changed = True
                            for kw in n.keywords:
                                if kw.arg in ps and self.is_elem(kw.value, loc) and kw.arg not in self.local[id(d)]:
                                    self.local[id(d)].add(kw.arg)
                                    changed = True

    def sites(self):
        """(function, line, kind, expression, is_element) for every condition-like use in element-handling functions"""
        out = []
        # module-wide: filter(any) / map(bool) / filter(all) - a truthiness test handed on as the callback of another operator; it will be
        # applied to the elements (or to buffers of them: any([0, None]) is False) of the stream, wherever in the module the pipeline is built
        for n in ast.walk(self.tree):
            if isinstance(n, ast.Call):
                for a in list(n.args) + [k.value for k in n.keywords]:
                    if isinstance(a, ast.Name) and a.id in ("any", "all", "bool") and a.id not in self.defs:
                        out.append(("<module>", n.lineno, f"the builtin {a.id} handed on as a callback in", n, True))
        for f in self.fns:
            loc = self.local[id(f)]
            touches = bool(loc) or any(isinstance(n, ast.Name) and n.id in self.cells for n in self.own_nodes(f)) or any(
                name_of(n) in self.containers for n in self.own_nodes(f) if isinstance(n, (ast.Attribute, ast.Name)))
            if not touches:
                continue
            fname = getattr(f, "name", f"<lambda:{f.lineno}>")
            for n in self.own_nodes(f):
                if isinstance(n, (ast.If, ast.While, ast.IfExp)):
                    out.append((fname, n.test.lineno, "condition", n.test, self.is_elem(n.test, loc)))
                elif isinstance(n, ast.Assert):
                    out.append((fname, n.test.lineno, "assert", n.test, self.is_elem(n.test, loc)))
                elif isinstance(n, ast.comprehension):
                    for c in n.ifs:
                        out.append((fname, c.lineno, "comprehension filter", c, self.is_elem(c, loc)))
                elif isinstance(n, ast.BoolOp):
                    for v in n.values[:-1] if False else n.values:
                        out.append((fname, v.lineno, "and/or operand", v, self.is_elem(v, loc)))
                elif isinstance(n, ast.UnaryOp) and isinstance(n.op, ast.Not):
                    out.append((fname, n.operand.lineno, "not operand", n.operand, self.is_elem(n.operand, loc)))
                elif isinstance(n, ast.Call) and isinstance(n.func, ast.Name) and n.func.id == "bool" and n.args:
                    out.append((fname, n.lineno, "bool() argument", n.args[0], self.is_elem(n.args[0], loc)))
                elif isinstance(n, ast.Call) and isinstance(n.func, ast.Name) and n.func.id in ("all", "any") and n.args:
                    # all(values) / any(values): the truth value of every ITEM of the container
                    a = n.args[0]
                    cn = name_of(a)
                    items_are_elements = cn is not None and cn in self.containers
                    if isinstance(a, (ast.GeneratorExp, ast.ListComp)) and len(a.generators) == 1:
                        g = a.generators[0]
                        it_name = name_of(g.iter)
                        if it_name in self.containers and isinstance(g.target, ast.Name):
                            items_are_elements = self.is_elem(a.elt, loc | {g.target.id})
                    out.append((fname, n.lineno, f"{n.func.id}() over", a, items_are_elements))
                elif (isinstance(n, ast.Call) and isinstance(n.func, ast.Name) and n.func.id == "filter" and len(n.args) == 2
                      and isinstance(n.args[0], ast.Constant) and n.args[0].value is None):
                    cn = name_of(n.args[1])
                    out.append((fname, n.lineno, "filter(None, ...) over", n.args[1], cn is not None and cn in self.containers))
                elif isinstance(n, ast.Compare) and len(n.ops) == 1 and isinstance(n.ops[0], (ast.Is, ast.IsNot, ast.Eq, ast.NotEq)):
                    c = n.comparators[0]
                    if isinstance(c, ast.Constant) and c.value is None:
                        out.append((fname, n.lineno, "compared with None", n.left, self.is_elem(n.left, loc)))
                    elif isinstance(n.left, ast.Constant) and n.left.value is None:
                        out.append((fname, n.lineno, "compared with None", c, self.is_elem(c, loc)))
        return out


def target_files(loader):
    fs = (repo_py_files(loader.repo, "reactivex/operators") + repo_py_files(loader.repo, "reactivex/observable")
          + repo_py_files(loader.repo, "reactivex/subject"))
    return sorted(f for f in fs if not f.endswith("__init__.py") and "/mixins/" not in f)


def run_unit(desc):
    t0 = time.time()
    loader = Loader()
    results, functions = [], {}
    n_handlers = 0
    for rel in target_files(loader):
        m = loader.load_file(rel)
        mt = ModuleTaint(rel, m.tree)
        n_handlers += len(mt.handlers)
        counters = {}
        for (fname, line, kind, expr, bad) in mt.sites():
            k = counters.get((fname, kind), 0)
            counters[(fname, kind)] = k + 1
            functions.setdefault(f"{rel}::{fname}", "")
            r = {"id": f"{rel}::{fname}/opacity/{kind.replace(' ', '-')}#{k}/operand-is-not-an-element",
                 "verdict": "refuted" if bad else "proved", "backend": "opacity-analysis", "model": {}, "path": [],
                 "detail": (f"`{ast.unparse(expr)[:60]}` (line {line}) is element-valued and is used as {kind}: a falsy or None element "
                            f"is mistaken for the absence of a value") if bad else f"line {line}: `{ast.unparse(expr)[:50]}`",
                 "seconds": 0.0, "kind": "opacity"}
            if bad:
                r["replay_info"] = {"runner": "falsyrun.py", "module": "-", "name": rel, "mode": "replay"}
            results.append(r)
    for k in list(functions):
        rel, q = k.split("::")
        try:
            functions[k] = loader.sha(rel, q.split(".")[0]) if not q.startswith("<lambda") else "lambda"
        except Exception:  # noqa: BLE001
            functions[k] = "nested"
    rep = {
        "unit": "opacity-conditions/C08",
        "kind": "K-opacity: element values never reach a truthiness or None test (taint analysis on the AST)",
        "functions": functions,
        "results": results,
        "unsupported": None if n_handlers > 50 else f"only {n_handlers} element handlers recognised (drift of the recognition rules)",
        "spec_validation": [],
        "bounded": [],
        "seconds": time.time() - t0,
    }
    if desc.get("tier") == "thorough" or rep["unsupported"]:
        import json
        import os
        from .report import native, VERIF, REPLAY_DIR
        res, err = native([os.path.join(VERIF, "rxvc", "falsyrun.py"), "replay", "-", "all",
                           json.dumps({"replay_path": os.path.join(REPLAY_DIR, "C08-standin.py"), "prop": "C08"})], timeout=250)
        st = res if res is not None else {"found": [], "error": err, "cases": 0}
        rep["bounded"].append({"function": "falsyrun table", "bound": "operators and subjects of the table on sequences over {None, 0, '', (), [], {}} against the "
                               "same run on distinct truthy tokens", "cases": st.get("cases", 0), "mismatches": len(st.get("found", [])),
                               "role": "stand-in" if rep["unsupported"] else "cross-check of the taint analysis against CPython"})
        if rep["unsupported"]:
            rep["standin"] = st
        elif st.get("found") and all(r["verdict"] == "proved" for r in results):
            rep["crash"] = f"cross-check failed: the opacity analysis passed but the native run found {st['found'][0]}"
    return rep
