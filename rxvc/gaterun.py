"""Native replay runner for the observer gates (C01/C03): AutoDetachObserver and Observer.

Every call sequence up to a length bound over on_next/on_error/on_completed/dispose/fail
(+ set_disposable), with user callbacks that raise at a chosen call, is run on the REAL class and
on the executable twin of the spec (specs/c01.py); the sequences of user-callback invocations,
subscription disposals, raised exceptions and results are compared.  BOUNDED.

usage: gaterun.py replay <contracts module> <class contract name> '<json opts>'
"""
from __future__ import annotations

import importlib
import itertools
import json
import os
import sys

VERIF = os.path.dirname(os.path.dirname(os.path.abspath(__file__)))
if VERIF not in sys.path:
    sys.path.insert(0, VERIF)
REPO = os.environ.get("RXVC_REPO", "/repo")  # the tree under test (the checks run on /repo; scratch copies are used by my own side runs only)
if REPO not in sys.path:
    sys.path.insert(0, REPO)

OPS = ["on_next", "on_error", "on_completed", "dispose", "fail"]


class Boom(Exception):
    pass


class Sub:
    def __init__(self, log):
        self.log = log
        self.is_disposed = False

    def dispose(self):
        self.log.append("sub.dispose")

    def _set(self, v):
        self.log.append("sub.set")

    disposable = property(fset=_set)


def callbacks(log, raise_at):
    n = [0]

    def mk(name):
        def f(*a):
            log.append(name)
            n[0] += 1
            if n[0] == raise_at:
                raise Boom()
        return f
    return mk("cb_next"), mk("cb_error"), mk("cb_completed")


def drive(obj, seq, log):
    out = []
    for op in seq:
        try:
            if op == "on_next":
                r = obj.on_next(1)
            elif op == "on_error":
                r = obj.on_error(Boom("src"))
            elif op == "on_completed":
                r = obj.on_completed()
            elif op == "dispose":
                r = obj.dispose()
            elif op == "fail":
                r = obj.fail(Boom("f"))
            elif op == "set_disposable":
                r = obj.set_disposable(Sub([]))
            out.append(("ret", r))
        except Exception as e:
            out.append(("raised", type(e).__name__))
    return out, list(log)


def make_real(c, raise_at):
    log = []
    n, e, d = callbacks(log, raise_at)
    if c.cls == "AutoDetachObserver":
        from reactivex.observer import AutoDetachObserver

        o = AutoDetachObserver(n, e, d)
        o._subscription = Sub(log)
    else:
        from reactivex.observer import Observer

        o = Observer(n, e, d)
    return o, log


def make_spec(c, raise_at):
    smod, scls = c.spec.split(":")
    cls = getattr(importlib.import_module(smod), scls)
    log = []
    s = cls.__new__(cls)
    s.cb_next, s.cb_error, s.cb_completed = callbacks(log, raise_at)
    s.sub = Sub(log)
    s.stopped = False
    s.term = False
    return s, log


def search(modname, name, max_len=4):
    mod = importlib.import_module(modname)
    c = next(x for x in mod.CLASSES if x.name == name)
    ops = OPS + (["set_disposable"] if c.cls == "AutoDetachObserver" else [])
    cases = 0
    for n in range(1, max_len + 1):
        for seq in itertools.product(ops, repeat=n):
            for raise_at in (0, 1, 2):
                cases += 1
                o, lo = make_real(c, raise_at)
                s, ls = make_spec(c, raise_at)
                real = drive(o, seq, lo)
                spec = drive(s, seq, ls)
                if real != spec:
                    return cases, {"sequence": list(seq), "raise_at": raise_at, "real": repr(real), "spec": repr(spec)}
    return cases, None


REPLAY_TEMPLATE = '''#!/venv/bin/python
"""Replay of a counter-example found for property {prop}.
obligation: {oid}
The real {cls} and the gate specification disagree on this call sequence
(the {raise_at}-th user callback invocation raises; 0 = none)."""
import sys
sys.path.insert(0, {verif!r})
from rxvc import gaterun
import importlib
c = next(x for x in importlib.import_module({mod!r}).CLASSES if x.name == {name!r})
o, lo = gaterun.make_real(c, {raise_at})
s, ls = gaterun.make_spec(c, {raise_at})
real = gaterun.drive(o, {seq}, lo)
spec = gaterun.drive(s, {seq}, ls)
print("sequence:", {seq})
print("real    :", real)
print("expected:", spec)
sys.exit(1 if real != spec else 0)
'''


def main(argv):
    mode, modname, name = argv[:3]
    opts = json.loads(argv[3]) if len(argv) > 3 else {}
    cases, found = search(modname, name, opts.get("max_len", 4))
    res = {"cases": cases, "found": [found] if found else []}
    if found and "replay_path" in opts:
        mod = importlib.import_module(modname)
        c = next(x for x in mod.CLASSES if x.name == name)
        os.makedirs(os.path.dirname(opts["replay_path"]), exist_ok=True)
        with open(opts["replay_path"], "w") as f:
            f.write(REPLAY_TEMPLATE.format(prop=opts.get("prop", "?"), oid=opts.get("oid", "?"), cls=c.cls, verif=VERIF,
                                           mod=modname, name=name, seq=found["sequence"], raise_at=found["raise_at"]))
        res["replay"] = opts["replay_path"]
    print(json.dumps(res, default=repr))


if __name__ == "__main__":
    main(sys.argv[1:])
