"""C28 / C29: the two subclasses of VirtualTimeScheduler the property names - function contracts on the real code.  Everything else they do is
the inherited run loop (vts.py); what they add must not change virtual time:

  HistoricalScheduler.__init__(initial)   the clock starts at `initial`, or at UTC_ZERO when none is given; the class defines nothing else
                                          (no override of the run loop, the clock or `add`).
  TestScheduler.schedule_absolute(t, action, state)
                                          one call of the inherited schedule_absolute with the SAME action and state and the due time as
                                          seconds: `t` itself when it is a float, self.to_seconds(t) otherwise; its result is returned.
  TestScheduler overrides, of the scheduler interface, only schedule_absolute and start (AST obligation) - `start(create, ...)` is the test
  harness entry point, not part of virtual time (it schedules create / subscribe / dispose and calls the inherited start()).
"""
from __future__ import annotations

import ast
import time

import z3

from . import smt
from .interp import NOTSET, Interp, World, explore
from .loader import Loader, all_functions
from .refine import Result
from .values import SV, BoundMethod, Closure, Obj, Opaque, PyExc, Unsupported

HFILE = "reactivex/scheduler/historicalscheduler.py"
TFILE = "reactivex/testing/testscheduler.py"
SCHED_INTERFACE = {"schedule", "schedule_relative", "schedule_absolute", "schedule_periodic", "start", "stop", "advance_to", "advance_by", "sleep",
                   "add", "now", "clock", "_get_clock", "invoke_action", "to_seconds", "to_datetime", "to_timedelta"}


class SubWorld(World):
    def __init__(self):
        super().__init__()
        self.log = []

    def isinstance(self, it, o, cls):
        n = (getattr(cls, "name", "") or "").split(".")[-1]
        if o.kind == "abs_time":
            return n == "datetime"
        return super().isinstance(it, o, cls)

    def truthy(self, it, o):
        return True

    def call(self, it, o, method, args, kwargs):
        if o.kind in ("lock", "logger"):
            return None
        return super().call(it, o, method, args, kwargs)


class VtSubHarness:
    def __init__(self, loader=None):
        self.loader = loader or Loader()
        self.results = []
        self.unsupported = None
        self.functions = {}

    def rec(self, ctx, oid, goal, detail=""):
        t0 = time.time()
        if isinstance(goal, bool):
            goal = z3.BoolVal(goal)
        v, m, b = smt.prove(ctx.pc, goal)
        ctx.results.append(Result(oid, v, b, smt.model_to_dict(m), list(ctx.branch_log), detail, time.time() - t0, "post"))

    def run_historical(self, ctx):
        uid = f"{HFILE}::HistoricalScheduler.__init__"
        w = SubWorld()
        it = Interp(self.loader, ctx, w)
        inits = []

        def hook(it_, f, args, kwargs):
            fn = f.func if isinstance(f, BoundMethod) else f
            q = getattr(fn, "qualname", None) if isinstance(fn, Closure) else None
            if q == "VirtualTimeScheduler.__init__":
                inits.append((list(args), dict(kwargs)))
                return None
            return NOTSET
        it.call_hook = hook
        from .values import Native
        # UTC_ZERO = datetime.fromtimestamp(0, tz=timezone.utc): an opaque instant (the epoch)
        it.externals["datetime.datetime.fromtimestamp"] = Native("fromtimestamp", lambda it_, a, k: Opaque("abs_time", "epoch"))
        cls = it.module_get("reactivex.scheduler.historicalscheduler", "HistoricalScheduler")
        given = ctx.choose(2, "an initial clock is given") == 1
        t0 = Opaque("abs_time", "initial")
        try:
            it.call(cls, [t0] if given else [], {})
        except PyExc as e:
            self.rec(ctx, uid + "/no-exception", False, detail=repr(e.value))
            return
        utc0 = it.module_get("reactivex.scheduler.scheduler", "UTC_ZERO")
        ok = len(inits) == 1 and not inits[0][1] and len([x for x in inits[0][0] if not isinstance(x, Obj)]) == 1
        self.rec(ctx, uid + "/initialises-the-virtual-time-scheduler-exactly-once", ok, detail=f"{inits}")
        if ok:
            got = [x for x in inits[0][0] if not isinstance(x, Obj)][0]
            self.rec(ctx, uid + ("/the-clock-starts-at-the-given-instant" if given else "/the-clock-starts-at-the-epoch-when-none-is-given"),
                     got is (t0 if given else utc0), detail=f"initial clock handed to VirtualTimeScheduler: {got!r}")
        node = self.loader.find(HFILE, "HistoricalScheduler")
        defs = [n.name for n in node.body if isinstance(n, (ast.FunctionDef, ast.AsyncFunctionDef))] + \
               [t.id for n in node.body if isinstance(n, ast.Assign) for t in n.targets if isinstance(t, ast.Name)]
        self.rec(ctx, f"{HFILE}::HistoricalScheduler/overrides-nothing-of-virtual-time", sorted(defs) == ["__init__"], detail=f"defines: {defs}")

    def run_test_schedule_absolute(self, ctx):
        uid = f"{TFILE}::TestScheduler.schedule_absolute"
        w = SubWorld()
        it = Interp(self.loader, ctx, w)
        supers, convs = [], []
        result = Opaque("disposable", "scheduled")

        def hook(it_, f, args, kwargs):
            fn = f.func if isinstance(f, BoundMethod) else f
            q = getattr(fn, "qualname", None) if isinstance(fn, Closure) else None
            if q == "VirtualTimeScheduler.schedule_absolute":
                supers.append((list(args), dict(kwargs)))
                return result
            if q == "Scheduler.to_seconds":
                convs.append(list(args))
                r = Opaque("seconds", f"to_seconds#{len(convs)}", of=args[-1])
                return r
            return NOTSET
        it.call_hook = hook
        from .values import Native
        it.externals["datetime.datetime.fromtimestamp"] = Native("fromtimestamp", lambda it_, a, k: Opaque("abs_time", "epoch"))
        cls = it.module_get("reactivex.testing.testscheduler", "TestScheduler")
        o = Obj(cls)
        is_float = ctx.choose(2, "the due time is a float") == 1
        due = 12.5 if is_float else Opaque("abs_time", "due")
        action = Opaque("callback", "action")
        state = ctx.fresh("state", "val")
        kw = ctx.choose(2, "state by keyword") == 1
        try:
            r = it.call(BoundMethod(o, it.class_lookup(cls, "schedule_absolute")), [due, action] + ([] if kw else [state]), {"state": state} if kw else {})
        except PyExc as e:
            self.rec(ctx, uid + "/no-exception", False, detail=repr(e.value))
            return
        ok = len(supers) == 1
        self.rec(ctx, uid + "/one-call-of-the-inherited-schedule_absolute", ok, detail=f"{len(supers)} calls")
        if not ok:
            return
        a, k = supers[0]
        a = [x for x in a if x is not o]
        got = dict(zip(["duetime", "action", "state"], a))
        got.update(k)
        self.rec(ctx, uid + "/same-action-and-state", got.get("action") is action and isinstance(got.get("state"), SV) and got["state"].t.eq(state.t))
        if is_float:
            self.rec(ctx, uid + "/a-float-due-time-is-handed-on-unchanged", got.get("duetime") == 12.5 and isinstance(got.get("duetime"), float) and not convs)
        else:
            d = got.get("duetime")
            self.rec(ctx, uid + "/any-other-due-time-is-handed-on-as-its-seconds", isinstance(d, Opaque) and d.kind == "seconds" and d.attrs.get("of") is due and len(convs) == 1,
                     detail=f"due time handed on: {d!r}")
        self.rec(ctx, uid + "/returns-what-the-inherited-method-returned", r is result)
        node = self.loader.find(TFILE, "TestScheduler")
        over = sorted(n.name for n in node.body if isinstance(n, (ast.FunctionDef, ast.AsyncFunctionDef)) and n.name in SCHED_INTERFACE
                      and not any(isinstance(d, ast.Name) and d.id == "overload" for d in n.decorator_list))
        self.rec(ctx, f"{TFILE}::TestScheduler/overrides-only-schedule_absolute-and-start-of-the-scheduler-interface", sorted(set(over)) == ["schedule_absolute", "start"],
                 detail=f"overrides: {over}")

    def run(self):
        t0 = time.time()
        try:
            for f, c in ((HFILE, "HistoricalScheduler"), (TFILE, "TestScheduler")):
                node = self.loader.find(f, c)
                for q, n in all_functions(node, c):
                    if c == "TestScheduler" and not q.endswith(".schedule_absolute"):
                        continue
                    self.functions[f"{f}::{q}"] = self.loader.sha(f, q)
            for f in (self.run_historical, self.run_test_schedule_absolute):
                for p in explore(f):
                    self.results.extend(p.results)
        except Unsupported as e:
            self.unsupported = str(e)
        except PyExc as e:
            self.unsupported = f"interpreter-level exception: {e.value!r} {getattr(e.value, 'fields', '')}"
        self.seconds = time.time() - t0
        return self


MUTANTS = {
    HFILE: {"initial clock ignored": ("super().__init__(initial_clock or UTC_ZERO)", "super().__init__(UTC_ZERO)")},
    TFILE: {"due time not converted": ("duetime = duetime if isinstance(duetime, float) else self.to_seconds(duetime)", "duetime = duetime"),
            "state dropped": ("return super().schedule_absolute(duetime, action, state)", "return super().schedule_absolute(duetime, action)")},
}


def must_fail():
    out = {"mutants": 0, "killed": 0, "survivors": []}
    for rel, ms in MUTANTS.items():
        src = Loader().load_file(rel).src
        for name, (a, b) in ms.items():
            if a not in src:
                continue
            ld = Loader()
            ld.overrides = {rel: src.replace(a, b, 1)}
            h = VtSubHarness(ld).run()
            out["mutants"] += 1
            if h.unsupported or any(r.verdict == "refuted" for r in h.results):
                out["killed"] += 1
            else:
                out["survivors"].append(name)
    return out


def run_unit(desc):
    import json
    import os
    from .report import REPLAY_DIR, VERIF, native
    h = VtSubHarness().run()
    prop = desc.get("prop", "C28")
    rep = {"unit": f"{HFILE}::HistoricalScheduler+{TFILE}::TestScheduler.schedule_absolute", "kind": "function contracts of the virtual-time subclasses",
           "functions": h.functions, "results": [r.as_dict() for r in h.results], "unsupported": h.unsupported, "spec_validation": [], "bounded": [],
           "replayable": {"runner": "vtsrun.py", "module": "-", "name": prop if prop in ("C28", "C29") else "C28"}}
    if h.unsupported:
        r, err = native([os.path.join(VERIF, "rxvc", "vtsrun.py"), "replay", "-", prop if prop in ("C28", "C29") else "C28",
                         json.dumps({"replay_path": os.path.join(REPLAY_DIR, f"{prop}-standin-virtualtime-subclasses.py"), "prop": prop,
                                     "oid": rep["unit"] + "/bounded-standin"})], timeout=900)
        st = r if r is not None else {"found": [], "error": err, "cases": 0}
        rep["standin"] = st
        rep["bounded"].append({"function": rep["unit"], "bound": "vtsrun.py table on the test / historical schedulers", "cases": st.get("cases", 0),
                               "mismatches": len(st.get("found", [])), "role": "stand-in (out of subset)"})
    if desc.get("tier") == "thorough" and not h.unsupported:
        mf = must_fail()
        rep["must_fail"] = dict(mf, unit=rep["unit"])
        if mf["mutants"] and mf["killed"] < mf["mutants"]:
            rep["crash"] = f"vacuity: must-fail mutants survived: {mf['survivors']}"
    return rep
