"""Audit of the harnesses that start a closure "from an arbitrary state": which variables of the enclosing scopes ARE state?

A harness that proves a clause about a subscribe function "for every value of the counters" sets the closure cells it knows to fresh symbolic
values.  A cell it does not know stays at its initial value - and a clause proved from `connectable_subscription = None` says nothing about the
second connection (seed C24-g was missed that way).  `shared_cells(closure)` computes, from the AST of the real function, the variables of the
enclosing function scopes that the function (or a function nested in it) both can reach and that are MUTATED by code that runs after the closure was
made - the closure itself, its nested functions, its sibling closures (the straight-line bodies of the enclosing functions are set-up):
    x[...] = v / x[...] op= v / del x[...]          (one-element-list cells)
    nonlocal x ... x = v                            (plain closure variables)
    x.append / add / clear / pop / popleft / remove / discard / update / extend / insert / setdefault / appendleft (...)
`require_known(closure, known, where)` raises Unsupported (the unit drifts to its bounded stand-in) when there is such a cell the harness neither
sets nor lists as deliberately left alone."""
from __future__ import annotations

import ast

from .values import Unsupported

MUTATORS = {"append", "add", "clear", "pop", "popleft", "remove", "discard", "update", "extend", "insert", "setdefault", "appendleft", "popitem", "sort", "reverse"}


def _locals_of(fn):
    """names bound in the function's own scope (parameters, assignments, defs, imports, for / with / except targets), nested defs excluded"""
    out = set()
    a = fn.args
    for x in a.posonlyargs + a.args + a.kwonlyargs:
        out.add(x.arg)
    for x in (a.vararg, a.kwarg):
        if x is not None:
            out.add(x.arg)
    declared = set()

    def visit(n):
        for c in ast.iter_child_nodes(n):
            if isinstance(c, (ast.FunctionDef, ast.AsyncFunctionDef, ast.ClassDef)):
                out.add(c.name)
                continue
            if isinstance(c, ast.Lambda):
                continue
            if isinstance(c, (ast.Nonlocal, ast.Global)):
                declared.update(c.names)
            if isinstance(c, ast.Name) and isinstance(c.ctx, (ast.Store, ast.Del)):
                out.add(c.id)
            if isinstance(c, ast.alias):
                out.add((c.asname or c.name).split(".")[0])
            if isinstance(c, ast.ExceptHandler) and c.name:
                out.add(c.name)
            visit(c)
    visit(fn)
    return out - declared, declared


def _functions(node):
    yield node
    for c in ast.walk(node):
        if c is not node and isinstance(c, (ast.FunctionDef, ast.AsyncFunctionDef)):
            yield c


def shared_cells(closure):
    """{name: how it is mutated} for the enclosing-scope variables that `closure` (with its nested functions) reaches and that are mutated in the
    enclosing function(s) or in any function nested there"""
    fn = closure.node
    # names used inside closure.node (at any depth) that are not local at the depth they are used
    used_free = set()

    def collect(f, outer_locals):
        loc, declared = _locals_of(f)
        here = outer_locals | loc
        for c in ast.walk(f):
            if isinstance(c, ast.Name) and c.id not in loc:
                # is it local to a function between closure.node and here? then not free in closure.node
                if c.id not in outer_locals:
                    used_free.add(c.id)
        for c in ast.iter_child_nodes(f):
            pass
        for g in ast.walk(f):
            if g is not f and isinstance(g, (ast.FunctionDef, ast.AsyncFunctionDef)):
                collect(g, here)
    collect(fn, set())
    # the enclosing function scopes, from the environment chain of the closure
    scopes = []
    e = closure.env
    while e is not None:
        if getattr(e, "fn", None) is not None and not e.cls_env:
            node = getattr(e.fn, "node", None)
            if isinstance(node, (ast.FunctionDef, ast.AsyncFunctionDef)):
                scopes.append((e, node))
        e = e.parent
    out = {}
    chain = {id(node) for _e, node in scopes}

    def direct(f):
        """nodes of f's own body, nested function bodies excluded"""
        stack = list(ast.iter_child_nodes(f))
        while stack:
            c = stack.pop()
            yield c
            if not isinstance(c, (ast.FunctionDef, ast.AsyncFunctionDef, ast.Lambda, ast.ClassDef)):
                stack.extend(ast.iter_child_nodes(c))
    for env, node in scopes:
        names = {n for n in used_free if n in env.vars}
        if not names:
            continue
        for f in _functions(node):
            if id(f) in chain:
                continue  # the straight-line body of an enclosing function ran BEFORE the closure existed / was handed out: set-up, not state change
            loc, declared = _locals_of(f)
            for c in direct(f):
                tgt = None
                how = None
                if isinstance(c, ast.Subscript) and isinstance(c.ctx, (ast.Store, ast.Del)) and isinstance(c.value, ast.Name):
                    tgt, how = c.value.id, "item assignment"
                elif isinstance(c, ast.AugAssign) and isinstance(c.target, ast.Subscript) and isinstance(c.target.value, ast.Name):
                    tgt, how = c.target.value.id, "item update"
                elif isinstance(c, ast.Call) and isinstance(c.func, ast.Attribute) and c.func.attr in MUTATORS and isinstance(c.func.value, ast.Name):
                    tgt, how = c.func.value.id, f".{c.func.attr}()"
                elif isinstance(c, ast.Name) and isinstance(c.ctx, ast.Store) and c.id in declared:
                    tgt, how = c.id, "nonlocal assignment"
                if tgt in names and (tgt not in loc or tgt in declared):
                    out.setdefault(tgt, f"{how} in {f.name}")
    return out


def require_known(closure, known, where, left_alone=()):
    cells = shared_cells(closure)
    unknown = sorted(n for n in cells if n not in known and n not in left_alone)
    if unknown:
        raise Unsupported(f"{where}: the closure reads state the harness leaves at its initial value: "
                          + ", ".join(f"{n} ({cells[n]})" for n in unknown))
    return cells
