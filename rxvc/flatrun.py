"""Native virtual-time runner for the higher-order operators of C11 / C12 (replay of violations; bounded stand-in on drift;
thorough cross-check of the K1 contracts and the wiring contracts against CPython).

Runs under /venv/bin/python on reactivex.testing.TestScheduler.  The outer sequence is a hot observable of small integers
(subscription at 200), each mapped to a member of a pool of inner sequences (cold timelines, one that emits and completes from
inside subscribe, one that fails, one that never ends; the SAME member may be picked twice):
  merge_all / flat_map / flat_map_indexed / reactivex.merge / ops.merge(others)   every inner is subscribed when it arrives
  merge(max_concurrent=n) / concat_map (n = 1)   at most n inners are subscribed, the others wait and start in arrival order when
                                                  a live one completes
  switch_latest / switch_map / switch_map_indexed / flat_map_latest   only the most recent inner is subscribed
The recorded output (time, notification) and the subscription intervals of every pool member are compared with a reference
written from the property text: an event simulation with the scheduler's ordering rule (due time, then scheduling order; the
outer's messages are scheduled first, an inner's when it is subscribed).
BOUNDED.

usage: flatrun.py replay - <operator | C11 | C12 | all> '<json opts>'
       flatrun.py case '<json case>'
"""
from __future__ import annotations

import heapq
import itertools
import json
import os
import sys
import time

VERIF = os.path.dirname(os.path.dirname(os.path.abspath(__file__)))
REPO = os.environ.get("RXVC_REPO", "/repo")
if REPO not in sys.path:
    sys.path.insert(0, REPO)

SUB, END = 200, 1000

#: the pool of inner sequences: relative timelines; "sync" notifies from inside subscribe
POOL = [
    ("cold", [(10, "N", "a1"), (30, "N", "a2"), (40, "C", None)]),
    ("cold", [(5, "N", "b1"), (25, "C", None)]),
    ("sync", [(0, "N", "s"), (0, "C", None)]),
    ("cold", [(15, "E", "x")]),
    ("cold", [(10, "N", "v1")]),
]
#: the operators that take a FUTURE wherever they take an inner observable; with par["futures"] the pool members 1 and 3 are futures (a new
#: one per arrival, resolved 20 / failed 15 ticks after it was handed over): `from_future` of it is the inner sequence
FUTURE_OPS = ("merge_all", "flat_map", "flat_map_indexed", "switch_latest", "switch_map", "switch_map_indexed", "flat_map_latest")
FUTURES = {1: [(20, "N", "f1"), (20, "C", None)], 3: [(15, "E", "xf")]}  # (truthy: concurrent.futures itself tests `if self._exception`)


def pool_of(par):
    if not par.get("futures"):
        return POOL
    return [("future", FUTURES[i]) if i in FUTURES else m for i, m in enumerate(POOL)]


class Boom(Exception):
    def __eq__(self, o):
        return isinstance(o, Boom) and o.args == self.args

    def __hash__(self):
        return hash(self.args)

    def __bool__(self):
        # the inner sequences fail with an exception object that is falsy (an aggregate error without details, say), the outer with a truthy one
        return self.args != ("x",)


def pick(op, v, i):
    return (v + i) % len(POOL) if op in ("flat_map_indexed", "switch_map_indexed") else v % len(POOL)


KIND = {"merge_all": ("merge", None), "flat_map": ("merge", None), "flat_map_indexed": ("merge", None), "merge_nary": ("merge", None),
        "merge_with": ("merge", None), "merge_concurrent": ("merge", "n"), "concat_map": ("merge", 1),
        "switch_latest": ("switch", None), "switch_map": ("switch", None), "switch_map_indexed": ("switch", None), "flat_map_latest": ("switch", None)}
PROP = {k: ("C11" if v[0] == "merge" else "C12") for k, v in KIND.items()}
FILES = {"merge_all": "_merge.py::merge_all_", "merge_concurrent": "_merge.py::merge_", "switch_latest": "_switchlatest.py::switch_latest_"}


def run_real(op, tl, par):
    import reactivex as rx
    from reactivex import operators as ops
    from reactivex.disposable import Disposable
    from reactivex.testing import ReactiveTest, TestScheduler
    s = TestScheduler()
    pool = []
    cancels = {}

    class Pool(list):
        def __getitem__(self, i):
            m = list.__getitem__(self, i)
            return m() if callable(m) else m
    pool = Pool()

    def future_member(pi, msgs):
        import concurrent.futures

        class F(concurrent.futures.Future):
            def cancel(self_):
                r = super().cancel() if not self_.done() else False
                if r:
                    cancels.setdefault(pi, []).append(int(s.clock))
                return r

        def make():
            f = F()
            (rt, k, v) = msgs[0]
            s.schedule_relative(rt, lambda *_: None if f.done() else (f.set_result(v) if k == "N" else f.set_exception(Boom(v))))
            return f
        return make
    for pi_, (kind, msgs) in enumerate(pool_of(par)):
        if kind == "future":
            pool.append(future_member(pi_, msgs))
            continue
        if kind == "sync":
            def sub(o, sch=None, _m=msgs):
                for (_t, k, v) in _m:
                    if k == "N":
                        o.on_next(v)
                    elif k == "C":
                        o.on_completed()
                return Disposable()
            pool.append(rx.create(sub))
        else:
            ms = []
            for (t, k, v) in msgs:
                ms.append(ReactiveTest.on_next(t, v) if k == "N" else (ReactiveTest.on_error(t, Boom(v)) if k == "E" else ReactiveTest.on_completed(t)))
            pool.append(s.create_cold_observable(*ms))
    msgs = []
    for (t, k, v) in tl:
        msgs.append(ReactiveTest.on_next(t, v) if k == "N" else (ReactiveTest.on_error(t, Boom("src")) if k == "E" else ReactiveTest.on_completed(t)))
    xs = s.create_hot_observable(*msgs)
    if par.get("sync_outer"):
        # the outer sequence notifies from INSIDE its subscribe call (a created observable that pushes at once): every inner - and the outer's
        # terminal - arrives before the operator has got the outer's subscription handle back
        def sub_outer(o, sch=None, _tl=list(tl)):
            for (_t, k, v) in _tl:
                if k == "N":
                    o.on_next(v)
                elif k == "E":
                    o.on_error(Boom("src"))
                else:
                    o.on_completed()
            return Disposable()
        xs = rx.create(sub_outer)
    of_inner = xs.pipe(ops.map(lambda v: pool[pick(op, v, 0)]))
    if op == "merge_all":
        o = of_inner.pipe(ops.merge_all())
    elif op == "merge_concurrent":
        o = of_inner.pipe(ops.merge(max_concurrent=par["n"]))
    elif op == "concat_map":
        o = xs.pipe(ops.concat_map(lambda v: pool[pick(op, v, 0)]))
    elif op == "flat_map":
        o = xs.pipe(ops.flat_map(lambda v: pool[pick(op, v, 0)]))
    elif op == "flat_map_indexed":
        o = xs.pipe(ops.flat_map_indexed(lambda v, i: pool[pick(op, v, i)]))
    elif op == "merge_nary":
        o = rx.merge(*[pool[pick(op, v, 0)] for (t, k, v) in tl if k == "N"])
    elif op == "merge_with":
        vs = [pool[pick(op, v, 0)] for (t, k, v) in tl if k == "N"]
        o = vs[0].pipe(ops.merge(*vs[1:])) if vs else rx.merge()
    elif op == "switch_latest":
        o = of_inner.pipe(ops.switch_latest())
    elif op == "switch_map":
        o = xs.pipe(ops.switch_map(lambda v: pool[pick(op, v, 0)]))
    elif op == "switch_map_indexed":
        o = xs.pipe(ops.switch_map_indexed(lambda v, i: pool[pick(op, v, i)]))
    elif op == "flat_map_latest":
        o = xs.pipe(ops.flat_map_latest(lambda v: pool[pick(op, v, 0)]))
    else:
        raise SystemExit(f"unknown operator {op}")
    res = s.start(lambda: o, created=100, subscribed=SUB, disposed=END)
    out = []
    for m in res.messages:
        k = m.value.kind
        out.append((int(m.time), k, m.value.value if k == "N" else (m.value.exception.args[0] if k == "E" else None)))
    subs = {}
    for i, p in enumerate(list.__iter__(pool)):
        if hasattr(p, "subscriptions"):
            subs[i] = sorted((int(x.subscribe), int(x.unsubscribe) if x.unsubscribe < 10 ** 9 else END) for x in p.subscriptions)
    return {"out": out, "subs": subs, "cancels": {k: sorted(v) for k, v in cancels.items()}}


def reference(op, tl, par):
    mode, n = KIND[op]
    if n == "n":
        n = par["n"]
    seq = itertools.count()
    q = []
    if op in ("merge_nary", "merge_with"):
        # the outer sequence is the argument list: every source arrives in the instant of the subscription, then it ends
        vs = [v for (t, k, v) in tl if k == "N"]
        for v in vs:
            heapq.heappush(q, (SUB, next(seq), "outer", ("N", v)))
        heapq.heappush(q, (SUB, next(seq), "outer", ("C", None)))
    elif par.get("sync_outer"):
        for (t, k, v) in tl:
            heapq.heappush(q, (SUB, next(seq), "outer", (k, v)))
    else:
        for (t, k, v) in tl:
            heapq.heappush(q, (t, next(seq), "outer", (k, v)))
    out, subs, cancels = [], {}, {}
    pool_ = pool_of(par)
    futs, resolved = {}, set()
    st = {"term": False, "outer_done": False, "active": 0, "queue": [], "latest": 0, "has": False, "live": {}, "i": 0, "ids": 0}

    def end_all(t):
        for sid in list(st["live"]):
            end_inner(sid, t)

    def emit(t, k, v=None):
        if st["term"]:
            return
        out.append((t, k, v))
        if k in ("E", "C"):
            st["term"] = True
            end_all(t)

    def end_inner(sid, t):
        if sid in st["live"]:
            pi, t0 = st["live"].pop(sid)
            if sid in futs:
                if sid not in resolved:
                    cancels.setdefault(futs[sid], []).append(t)  # a future that is still pending is cancelled when its subscription is released
            else:
                subs.setdefault(pi, []).append((t0, t))

    def inner_event(sid, t, k, v):
        if st["term"] or sid not in st["live"]:
            return
        resolved.add(sid)
        if mode == "switch" and sid != st["latest"]:
            return
        if k == "N":
            emit(t, "N", v)
        elif k == "E":
            emit(t, "E", v)
        else:
            end_inner(sid, t)
            if mode == "merge":
                if n is not None and st["queue"]:
                    subscribe(st["queue"].pop(0), t)
                else:
                    st["active"] -= 1
                    if st["outer_done"] and st["active"] == 0:
                        emit(t, "C")
            else:
                st["has"] = False
                if st["outer_done"]:
                    emit(t, "C")

    def subscribe(pi, t):
        st["ids"] += 1
        sid = st["ids"]
        if mode == "switch":
            st["latest"] = sid
        kind, msgs = pool_[pi]
        if kind == "future":
            futs[sid] = pi
        if kind in ("cold", "future"):
            st["live"][sid] = (pi, t)
            for (rt, k, v) in msgs:
                heapq.heappush(q, (t + rt, next(seq), "inner", (sid, k, v)))
        else:
            st["live"][sid] = (-1, t)  # not a recording pool member
            for (_rt, k, v) in msgs:
                inner_event(sid, t, k, v)
        return sid

    while q:
        t, _s, who, payload = heapq.heappop(q)
        if t >= END or st["term"]:
            break
        if who == "inner":
            inner_event(payload[0], t, payload[1], payload[2])
            continue
        k, v = payload
        if k == "N":
            pi = pick(op, v, st["i"])
            st["i"] += 1
            if mode == "merge":
                if n is None or st["active"] < n:
                    st["active"] += 1
                    subscribe(pi, t)
                else:
                    st["queue"].append(pi)
            else:
                prev = st["latest"]
                st["has"] = True
                if prev in st["live"]:
                    end_inner(prev, t)
                st["latest"] = -1
                subscribe(pi, t)
        elif k == "E":
            emit(t, "E", "src")
        else:
            st["outer_done"] = True
            if mode == "merge" and st["active"] == 0:
                emit(t, "C")
            if mode == "switch" and not st["has"]:
                emit(t, "C")
    if not st["term"]:
        end_all(END)
    subs = {pi: sorted(v) for pi, v in subs.items() if pi >= 0}
    return {"out": out, "subs": subs, "cancels": {k: sorted(v) for k, v in cancels.items()}}


def timelines(max_len, values=(0, 1, 2, 3, 4)):
    out = []
    for n in range(0, max_len + 1):
        for vals in itertools.product(values, repeat=n):
            for gaps in itertools.product((10, 20), repeat=n):
                t, tl = SUB, []
                for v, g in zip(vals, gaps):
                    t += g
                    tl.append((t, "N", v))
                for end in ("C", "E", None, "C@"):
                    if end is None:
                        out.append(list(tl))
                    elif end == "C@":
                        if tl:
                            out.append(tl + [(t, "C", None)])  # the outer completes in the instant of its last element
                    else:
                        out.append(tl + [(t + 10, end, None)])
    return out


PARS = {"merge_concurrent": [{"n": 1}, {"n": 2}, {"n": 3}]}


def check(op, tl, par):
    if op in ("merge_nary", "merge_with") and any(k != "N" for (_t, k, _v) in tl):
        return None
    if op == "merge_with" and not tl:
        return None
    try:
        real = run_real(op, tl, par)
    except Exception as e:  # noqa: BLE001
        real = {"out": [("raised", type(e).__name__, str(e)[:100])], "subs": {}, "cancels": {}}
    ref = reference(op, tl, par)
    real_subs = {int(k): [tuple(x) for x in v] for k, v in real["subs"].items() if v}
    ref_subs = {int(k): [tuple(x) for x in v] for k, v in ref["subs"].items() if v}
    if [tuple(x) for x in real["out"]] != [tuple(x) for x in ref["out"]]:
        return {"what": "output", "got": real["out"], "expected": ref["out"]}
    if real_subs != ref_subs:
        return {"what": "subscriptions of the inner sequences (pool index -> [subscribe, unsubscribe])", "got": real_subs, "expected": ref_subs}
    rc, fc = ({int(k): list(v) for k, v in d.get("cancels", {}).items() if v} for d in (real, ref))
    if rc != fc:
        return {"what": "futures cancelled while pending (pool index -> times): a future whose subscription is released before it resolved is cancelled then", "got": rc, "expected": fc}
    return None


REPLAY_TEMPLATE = '''#!/venv/bin/python
"""Replay of a violation of property {prop} ({op}).
obligation: {oid}
case: {case}
{what}
Exit 1 when it reproduces on the tree under RXVC_REPO (default /repo)."""
import subprocess, sys
r = subprocess.run(["/venv/bin/python", "{verif}/rxvc/flatrun.py", "case", {case!r}])
sys.exit(r.returncode)
'''


def main(argv):
    if argv[0] == "case":
        c = json.loads(argv[1])
        r = check(c["op"], [tuple(e) for e in c["timeline"]], c.get("par", {}))
        print(json.dumps({"violation": r}, default=repr))
        sys.exit(1 if r else 0)
    target = argv[2]
    opts = json.loads(argv[3]) if len(argv) > 3 else {}
    oid = opts.get("oid", "")
    names = list(KIND)
    if target in names:
        order = [target]
    elif target in ("C11", "C12"):
        order = [n for n in names if PROP[n] == target]
    else:
        order = [n for n in names if n in FILES and (FILES[n] in oid or FILES[n] in target)] or (
            [n for n in names if n in oid or n.replace("_nary", "") + "_" in oid] or names)
    n, found = 0, None
    t_end = time.time() + min(float(opts.get("budget_s", 300)), 600)
    tls = timelines(min(opts.get("max_len", 2), 3))
    for op in order:
        pars = list(PARS.get(op, [{}]))
        if op not in ("merge_nary", "merge_with"):
            pars += [dict(p_, sync_outer=True) for p_ in pars]
        if op in FUTURE_OPS:
            pars += [dict(p_, futures=True) for p_ in pars]
        for par in pars:
            if time.time() > t_end:
                break
            for tl in tls:
                r = check(op, tl, par)
                if r is None and op in ("merge_nary", "merge_with") and any(k != "N" for (_t, k, _v) in tl):
                    continue
                n += 1
                if r:
                    found = {"case": {"op": op, "par": par, "timeline": [list(e) for e in tl]}, "disagreement": r}
                    break
            if found:
                break
        if found:
            break
    res = {"cases": n, "found": [found] if found else []}
    if found and "replay_path" in opts:
        os.makedirs(os.path.dirname(opts["replay_path"]), exist_ok=True)
        with open(opts["replay_path"], "w") as f:
            f.write(REPLAY_TEMPLATE.format(prop=opts.get("prop", PROP[found["case"]["op"]]), oid=oid, verif=VERIF, op=found["case"]["op"],
                                           case=json.dumps(found["case"]), what=json.dumps(found["disagreement"], default=repr)[:900]))
        res["replay"] = opts["replay_path"]
    print(json.dumps(res, default=repr))


if __name__ == "__main__":
    main(sys.argv[1:])
