"""K3: monitor invariants, rely/guarantee interference and token accounting for the lock-protected
classes (DESIGN §3 K3).  One method of the REAL class is executed symbolically as thread T against
an arbitrary environment of other threads:

  * the object's shared fields start arbitrary under the monitor invariant I;
  * whenever T does not hold the object's lock (before acquiring it, at every unlocked read or
    write of a shared field, at method exit) the other threads may have run any number of their
    critical sections: the fields are havocked subject to I and the rely R(old,new);
  * every critical section of T (and every unlocked store, atomic by A-gil) must re-establish I and
    satisfy the guarantee G = R, which is what justifies R for everybody;
  * tokens: each item handed to the container carries one dispose-obligation token that is, at any
    instant, in exactly one of {container, a thread's locals, consumed}.  Storing an item into a
    held slot moves the token T -> container; overwriting/removing moves it container -> T;
    `item.dispose()` requires T to hold the token and consumes it; leaving the method with a token
    is a leak (item never disposed); named tokens (the action of a Disposable, the underlying
    resource of a RefCountDisposable) are minted by a critical section that makes the mint
    condition true and must be spent exactly once.
Discharged obligations hold for any number of threads and every interleaving (given A-gil and the
Lock/RLock contract).
"""
from __future__ import annotations

import time

import z3

from . import natives, smt
from .contract import MonitorContract  # noqa: F401
from .interp import NOTSET, Env, Interp, World, explore
from .loader import Loader, all_functions
from .refine import SPEC_HELPERS, Result
from .values import (
    SV,
    BoolSV,
    BoundMethod,
    Closure,
    ListObj,
    Obj,
    Opaque,
    OpaqueMethod,
    PathEnd,
    PyExc,
    Unsupported,
    ValSV,
)


class Escape(Exception):
    """the rest of this path is meaningless after a failed obligation"""


class MonWorld(World):
    def __init__(self, h):
        super().__init__()
        self.h = h
        self.depth = 0
        self.tokens = []  # ('ref', val_term, origin) | ('chunk', seq_term) | ('named', name)
        self.at_acquire = None
        self.effects = []

    # -- symbolic references ---------------------------------------------------
    def new_ref(self, it, base, role="disposable", token=None):
        t = it.ctx.fresh(base, "val").t
        it.ctx.assume(t != smt.NONE)
        return Opaque("symref", base, term=t, role=role, token=token)

    def deref(self, it, role, t):
        return Opaque("symref", "elt", term=t, role=role, token=None)

    def truthy(self, it, o):
        if o.kind == "symref":
            # a disposable may define __len__/__bool__ (CompositeDisposable does): truthiness is unknown
            f = z3.Function("truthy_ref", smt.Val, z3.BoolSort())
            return f(o.attrs["term"])
        return True

    def hasattr(self, it, o, name):
        if o.kind == "symref":
            return name in ("dispose",)
        return super().hasattr(it, o, name)

    def isinstance(self, it, o, cls):
        if o.kind == "symref":
            return getattr(cls, "name", "") in ("DisposableBase",)
        return super().isinstance(it, o, cls)

    # -- locks ---------------------------------------------------------------------
    def is_obj_lock(self, o):
        return o is self.h.lock_obj

    def enter(self, it, o):
        if o.kind == "lock" and self.is_obj_lock(o):
            if self.depth > 0 and not o.attrs.get("reentrant", True):
                self.h.fail(it.ctx, self.h.oid("no-self-deadlock"), "re-acquires a non-reentrant Lock it already holds", kind="lock")
                raise Escape()
            if self.depth == 0:
                self.h.interfere(it, "acquire")
                self.at_acquire = dict(self.h.obj.fields)
                self.at_acquire_terms = self.h.snapshot_terms(it)
            self.depth += 1
            return o
        if o.kind == "lock":
            return o
        return super().enter(it, o)

    def exit(self, it, o):
        if o.kind == "lock" and self.is_obj_lock(o):
            self.depth -= 1
            if self.depth == 0:
                self.h.end_section(it, self.at_acquire_terms, "critical-section")
            return
        if o.kind == "lock":
            return
        return super().exit(it, o)

    # -- calls -----------------------------------------------------------------------
    def call(self, it, o, method, args, kwargs):
        h = self.h
        if o.kind == "symref" and method in ("dispose", "release"):
            tok = o.attrs.get("token")
            if tok:
                if not self.spend_named(tok):
                    h.fail(it.ctx, h.oid(f"effect-{tok}-requires-token"),
                           f"calls {method}() on the {tok} resource without having claimed it (may run more than once / too early)", kind="token")
                    raise Escape()
                self.effects.append((tok, method))
                return None
            if not self.spend_ref(it, o.attrs["term"]):
                h.fail(it.ctx, h.oid("dispose-requires-token"),
                       "disposes an item whose token it does not hold: another thread may dispose it too (double dispose) "
                       "or a live container still holds it", kind="token")
                raise Escape()
            self.effects.append(("dispose", o.attrs["term"]))
            return None
        if o.kind == "callback" and o.attrs.get("token"):
            tok = o.attrs["token"]
            if not self.spend_named(tok):
                h.fail(it.ctx, h.oid(f"effect-{tok}-requires-token"), f"runs the {tok} without having claimed it (may run twice)", kind="token")
                raise Escape()
            self.effects.append((tok, "call"))
            # the action is user code: it may raise (the exception then unwinds through the method's own handlers, whose
            # critical sections are checked like any other; the claimed token stays spent - the action did run)
            if it.ctx.choose(2, f"the {tok} raises") == 1:
                from .refine import fresh_exc

                self.callback_exc = fresh_exc(it.ctx, f"{tok}_error")
                raise PyExc(self.callback_exc)
            return None
        if o.kind == "scheduler" and method == "schedule":
            # the scheduler contract: runs the action once
            self.effects.append(("schedule", args[0]))
            return it.call(args[0], [o, args[1] if len(args) > 1 else None], {})
        if o.kind == "lock":
            return None
        return super().call(it, o, method, args, kwargs)

    def broadcast(self, it, lst, method, args):
        if method != "dispose":
            raise Unsupported(f"broadcast {method}")
        for i, tk in enumerate(self.tokens):
            if tk[0] == "chunk":
                v, _, _ = smt.prove(it.ctx.pc, tk[1] == lst.term)
                if v == "proved":
                    del self.tokens[i]
                    self.effects.append(("dispose*", lst.term))
                    return
        self.h.fail(it.ctx, self.h.oid("dispose-all-requires-token"),
                    "disposes a list of items it did not take out of the container", kind="token")
        raise Escape()

    def spend_named(self, name):
        for i, tk in enumerate(self.tokens):
            if tk[0] == "named" and tk[1] == name:
                del self.tokens[i]
                return True
        return False

    def spend_ref(self, it, term):
        for i, tk in enumerate(self.tokens):
            if tk[0] == "ref":
                if z3.eq(tk[1], term):
                    del self.tokens[i]
                    return True
        for i, tk in enumerate(self.tokens):
            if tk[0] == "ref":
                v, _, _ = smt.prove(it.ctx.pc, tk[1] == term)
                if v == "proved":
                    del self.tokens[i]
                    return True
        return False

    def current_thread(self, it):
        return Opaque("thread", "T")


class MonitorHarness:
    def __init__(self, contract, loader=None):
        self.c = contract
        self.loader = loader or Loader()
        self.results = []
        self.unsupported = None
        self.functions = {}
        self.method = None

    def oid(self, label):
        return f"{self.c.uid}.{self.method}/{label}"

    # shared with OpHarness
    def record(self, ctx, oid, goal, kind="post", detail=""):
        t0 = time.time()
        if isinstance(goal, bool):
            goal = z3.BoolVal(goal)
        v, m, b = smt.prove(ctx.pc, goal)
        r = Result(oid, v, b, smt.model_to_dict(m), list(ctx.branch_log), detail, time.time() - t0, kind)
        ctx.results.append(r)
        return v == "proved"

    def fail(self, ctx, oid, detail, kind="post"):
        v, m, b = smt.check_sat(ctx.pc)
        if v == "unsat":
            raise PathEnd()
        ctx.results.append(Result(oid, "refuted" if v == "sat" else "unknown", b, smt.model_to_dict(m),
                                  list(ctx.branch_log), detail, 0.0, kind))

    # -- fields ---------------------------------------------------------------------------
    def havoc_field(self, it, name, kind, tag):
        ctx = it.ctx
        w = self.w
        if kind == "bool":
            return ctx.fresh(f"{name}_{tag}", "bool")
        if kind == "int":
            return ctx.fresh(f"{name}_{tag}", "int")
        if kind == "nat":
            v = ctx.fresh(f"{name}_{tag}", "int")
            ctx.assume(v.t >= 0)
            return v
        if kind == "optref":
            if ctx.choose(2, f"{name}_{tag}_is_none") == 0:
                return None
            return w.new_ref(it, f"{name}_{tag}")
        if kind == "ref":
            return w.new_ref(it, f"{name}_{tag}")
        if kind == "reflist":
            return ListObj(term=ctx.fresh(f"{name}_{tag}", "seq").t, elem="ref:disposable")
        raise Unsupported(f"field kind {kind}")

    def snapshot_terms(self, it):
        from .values import frozen_copy
        return {k: frozen_copy(v) for k, v in self.obj.fields.items()}

    def ns(self, it, fields):
        o = Obj(self.cls)
        o.fields = dict(fields)
        return o

    def eval_spec(self, it, src, env_vars):
        import ast

        env = Env(None, self.loader.load(self.modname))
        env.vars.update(env_vars)
        for n, f in SPEC_HELPERS.items():
            env.vars[n] = f
        it.ctx.spec += 1
        try:
            t = it.truth_term(it.eval(ast.parse(src, mode="eval").body, env))
        finally:
            it.ctx.spec -= 1
        return t

    def inv_term(self, it, fields):
        vars_ = {k: v for k, v in fields.items()}
        vars_["self"] = self.ns(it, fields)
        return self.eval_spec(it, self.c.inv, vars_)

    def rely_term(self, it, old, new):
        if not self.c.rely:
            return True
        return self.eval_spec(it, self.c.rely, {"old": self.ns(it, old), "new": self.ns(it, new)})

    def interfere(self, it, why):
        """other threads ran: shared fields change arbitrarily under I and the rely"""
        ctx = it.ctx
        self.n_interf += 1
        old = dict(self.obj.fields)
        for name, kind in self.c.fields.items():
            if kind.startswith(("callback", "effectref", "const", "lock", "scheduler")):
                continue
            cur = old.get(name)
            if kind == "reflist" and isinstance(cur, ListObj):
                # same list object may have been mutated, or replaced: model as mutated-in-place term
                cur_new = ListObj(term=ctx.fresh(f"{name}_i{self.n_interf}", "seq").t, elem="ref:disposable")
                self.obj.fields[name] = cur_new
            else:
                self.obj.fields[name] = self.havoc_field(it, name, kind, f"i{self.n_interf}")
        new = dict(self.obj.fields)
        i = self.inv_term(it, new)
        r = self.rely_term(it, self.for_rely(old), self.for_rely(new))
        ctx.assume(natives.mk_and(i, r) if not isinstance(natives.mk_and(i, r), bool) else z3.BoolVal(natives.mk_and(i, r)))
        # thread-local stable facts (justified by tokens the caller holds)
        st = self.c.stable_requires.get(self.method)
        if st:
            t = self.eval_spec(it, st, dict(new))
            ctx.assume(t if not isinstance(t, bool) else z3.BoolVal(t))

    def for_rely(self, fields):
        out = {}
        for k, v in fields.items():
            if isinstance(v, ListObj):
                out[k] = SV(natives.seq_of(it=None, v=v) if v.symbolic else z3.Empty(smt.SeqVal), "seq") if v.symbolic or not v.items else v
            else:
                out[k] = v
        return out

    def end_section(self, it, at_acquire, label):
        """lock released (or an unlocked atomic store finished): I and the guarantee must hold"""
        ctx = it.ctx
        self.n_sections += 1
        new = dict(self.obj.fields)
        oid = self.oid(f"{label}#{self.n_sections}")
        self.record(ctx, oid + "/monitor-invariant", self.inv_term(it, new), kind="inv")
        if self.c.rely:
            self.record(ctx, oid + "/guarantee", self.rely_term(it, self.for_rely(at_acquire), self.for_rely(new)), kind="rely")
        for tok, cond in self.c.mint:
            t = self.eval_spec(it, cond, {"old": self.ns(it, self.for_rely(at_acquire)), "new": self.ns(it, self.for_rely(new))})
            if t if isinstance(t, bool) else ctx.branch(t, f"mint {tok}"):
                self.w.tokens.append(("named", tok))

    # -- hooks -------------------------------------------------------------------------------
    def on_read(self, it, obj, name):
        if obj is not self.obj or it.ctx.spec or self.busy:
            return
        kind = self.c.fields.get(name)
        if kind is None or kind.startswith(("callback", "effectref", "const", "lock", "scheduler")):
            return
        if self.w.depth == 0:
            self.busy = True
            try:
                self.interfere(it, f"read {name}")
            finally:
                self.busy = False

    def on_write(self, it, obj, name, old, new):
        if obj is not self.obj or self.busy:
            obj.fields[name] = new
            return
        kind = self.c.fields.get(name)
        if kind is None:
            if name not in self.c.private:
                self.fail(it.ctx, self.oid(f"frame/{name}"), f"writes field {name} that the contract does not declare", kind="frame")
                raise Escape()
            obj.fields[name] = new
            return
        unlocked = self.w.depth == 0
        self.busy = True
        try:
            if unlocked:
                self.interfere(it, f"write {name}")
                before = dict(self.obj.fields)
                old = self.obj.fields.get(name)
            self.transfer(it, name, old, new)
            obj.fields[name] = new
            if unlocked:
                self.end_section(it, before, f"unlocked-store:{name}")
        finally:
            self.busy = False

    def transfer(self, it, name, old, new):
        hk = self.c.held.get(name)
        if hk is None:
            return
        w = self.w
        if hk.startswith("slot"):
            if isinstance(old, Opaque) and old.kind == "symref":
                if hk == "slot:replace-drops" and new is not None:
                    pass  # the class does not promise to dispose a replaced item: ownership returns to the environment
                else:
                    w.tokens.append(("ref", old.attrs["term"], "taken"))
            if isinstance(new, Opaque) and new.kind == "symref":
                if not w.spend_ref(it, new.attrs["term"]):
                    self.fail(it.ctx, self.oid(f"store-requires-token/{name}"), "stores an item it does not own into the container", kind="token")
                    raise Escape()
        elif hk == "list":
            if isinstance(old, ListObj):
                w.tokens.append(("chunk", natives.seq_of(it, old) if (old.symbolic or old.items) else z3.Empty(smt.SeqVal)))
            if isinstance(new, ListObj):
                if new.symbolic:
                    # putting a whole list back: must hold its chunk token
                    for i, tk in enumerate(w.tokens):
                        if tk[0] == "chunk" and smt.prove(it.ctx.pc, tk[1] == new.term)[0] == "proved":
                            del w.tokens[i]
                            break
                    else:
                        self.fail(it.ctx, self.oid(f"store-requires-token/{name}"), "stores a list of items it does not own", kind="token")
                        raise Escape()
                else:
                    for x in new.items:
                        if isinstance(x, Opaque) and x.kind == "symref" and not w.spend_ref(it, x.attrs["term"]):
                            self.fail(it.ctx, self.oid(f"store-requires-token/{name}"), "stores an item it does not own", kind="token")
                            raise Escape()

    def on_list(self, it, lst, op, args):
        held_lists = [n for n, k in self.c.held.items() if k == "list" and self.obj.fields.get(n) is lst]
        if not held_lists:
            return
        w = self.w
        name = held_lists[0]
        if w.depth == 0:
            self.fail(it.ctx, self.oid(f"unlocked-mutation/{name}"), f"mutates the shared list {name} without holding the lock", kind="lock")
            raise Escape()
        if op == "append":
            x = args[0]
            if isinstance(x, Opaque) and x.kind == "symref":
                if not w.spend_ref(it, x.attrs["term"]):
                    self.fail(it.ctx, self.oid(f"store-requires-token/{name}"), "appends an item it does not own", kind="token")
                    raise Escape()
        elif op == "remove":
            x = args[0]
            if isinstance(x, Opaque) and x.kind == "symref":
                # token moves to T only if the item is actually there (list.remove raises otherwise)
                self.pending_remove = x
                w.tokens.append(("ref", x.attrs["term"], "removed"))
        elif op == "clear":
            w.tokens.append(("chunk", natives.seq_of(it, lst)))
        else:
            raise Unsupported(f"list op {op} on a held list")

    # -- one method ---------------------------------------------------------------------------------
    def run_method(self, ctx, mname, argkinds):
        c = self.c
        self.method = mname
        self.n_interf = 0
        self.n_sections = 0
        self.busy = False
        w = self.w = MonWorld(self)
        it = Interp(self.loader, ctx, w)
        self.modname = c.file[:-3].replace("/", ".")
        cls = None
        for part in c.cls.split("."):
            cls = it.module_get(self.modname, part) if cls is None else it.get_attr(cls, part)
        self.cls = cls
        o = self.obj = Obj(cls)
        self.lock_obj = Opaque("lock", "self.lock", reentrant=c.lock_reentrant)
        arg_tokens = []
        for name, kind in c.fields.items():
            if kind == "lock":
                o.fields[name] = self.lock_obj
            elif kind.startswith("callback:"):
                o.fields[name] = Opaque("callback", name, token=kind.split(":")[1], may_be_default="noop")
            elif kind.startswith("effectref:"):
                o.fields[name] = w.new_ref(it, name, token=kind.split(":")[1])
            elif kind == "scheduler":
                o.fields[name] = Opaque("scheduler", name)
            elif kind.startswith("const:"):
                o.fields[name] = eval(kind[6:], {})
            elif kind.startswith("obj:"):
                o.fields[name] = self.make_inner(it, kind[4:])
            else:
                o.fields[name] = self.havoc_field(it, name, kind, "0")
        i0 = self.inv_term(it, dict(o.fields))
        ctx.assume(i0 if not isinstance(i0, bool) else z3.BoolVal(i0))
        st = c.stable_requires.get(mname)
        if st:
            t = self.eval_spec(it, st, dict(o.fields))
            ctx.assume(t if not isinstance(t, bool) else z3.BoolVal(t))
        args = []
        for k, kind in enumerate(argkinds):
            if kind == "item":
                r = w.new_ref(it, f"arg{k}")
                w.tokens.append(("ref", r.attrs["term"], "arg"))
                arg_tokens.append(r.attrs["term"])
                args.append(r)
            elif kind == "ref":
                args.append(w.new_ref(it, f"arg{k}"))  # a reference the caller does not own
            elif kind == "val":
                args.append(ctx.fresh(f"arg{k}", "val"))
            else:
                raise Unsupported(f"arg kind {kind}")
        it.attr_read_hook = self.on_read
        it.attr_write_hook = self.on_write
        it.list_hook = self.on_list
        m = it.class_lookup(cls, mname)
        if m is None:
            raise Unsupported(f"{c.cls} has no method {mname} (drift)")
        target = m.fget if hasattr(m, "fget") else m
        raised = None
        try:
            it.call(BoundMethod(o, target), args, {})
        except Escape:
            return
        except PyExc as e:
            raised = e.value
        # exit
        if w.depth != 0:
            self.fail(ctx, self.oid("lock-released"), "leaves the method holding the lock")
            return
        by_callback = raised is not None and raised is getattr(w, "callback_exc", None)
        if by_callback:
            # an exception of the user's action may propagate to the caller of dispose(); everything else still holds
            self.record(ctx, self.oid("the-user-action-raised/only-its-own-exception-leaves-the-method"), True, kind="exc")
            raised = None
        if raised is not None:
            name = raised.cls.name if isinstance(raised, Obj) else "?"
            allowed = c.may_raise.get(mname, [])
            if name not in allowed:
                self.fail(ctx, self.oid("no-exception"), f"raises {name}", kind="exc")
                return
            # a rejected call hands its argument tokens back to the caller
            w.tokens = [tk for tk in w.tokens if not (tk[0] == "ref" and tk[2] == "arg")]
        # leftover tokens = leaked obligations
        left = []
        for tk in w.tokens:
            if tk[0] == "chunk":
                v, _, _ = smt.prove(ctx.pc, z3.Length(tk[1]) == 0)
                if v == "proved":
                    continue
            left.append(tk)
        if left:
            self.fail(ctx, self.oid("no-token-left"),
                      "leaves the method still holding dispose obligations: " + ", ".join(f"{t[0]}:{t[1]}" + (f"({t[2]})" if len(t) > 2 else "") for t in left)[:300]
                      + " -- the item/resource is never disposed (or a claimed action is never run)", kind="token")
            return
        self.record(ctx, self.oid("tokens-balanced"), True, kind="token")
        ens = c.ensures.get(mname)
        if ens and raised is None:
            self.busy = True
            self.interfere(it, "exit")
            self.busy = False
            t = self.eval_spec(it, ens, dict(o.fields))
            self.record(ctx, self.oid("ensures"), t)

    def make_inner(self, it, spec):
        raise Unsupported("inner objects")

    def run(self):
        c = self.c
        t0 = time.time()
        try:
            node = self.loader.find(c.file, c.cls)
            self.functions[f"{c.file}::{c.cls}"] = self.loader.sha(c.file, c.cls)
            for q, n in all_functions(node, c.cls):
                self.functions[f"{c.file}::{q}"] = self.loader.sha(c.file, q)
            for mname, argkinds in c.methods.items():
                paths = explore(lambda ctx, _m=mname, _a=argkinds: self.run_method(ctx, _m, _a))
                for p in paths:
                    self.results.extend(p.results)
        except Unsupported as e:
            self.unsupported = str(e)
        except PyExc as e:
            self.unsupported = f"interpreter-level exception: {e.value!r} {getattr(e.value, 'fields', '')}"
        self.seconds = time.time() - t0
        return self


def run_unit(desc):
    import importlib

    mod = importlib.import_module(desc["module"])
    c = next(x for x in mod.MONITORS if x.name == desc["name"])
    h = MonitorHarness(c).run()
    return {
        "unit": c.uid,
        "kind": "K3 monitor invariant + rely/guarantee + tokens",
        "functions": h.functions,
        "results": [r.as_dict() for r in h.results],
        "unsupported": h.unsupported,
        "spec_validation": [],
        "bounded": [],
        "replayable": ({"runner": "threadrun.py", "module": desc["module"], "name": c.name} if c.witness else None),
    }
