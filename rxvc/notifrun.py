"""Native stand-in / replay for the Notification contracts (bounded: three kinds x a table of payloads, falsy ones included, x the accept forms,
to_observable on the immediate scheduler and on a virtual-time scheduler bound at creation / passed at subscription, from_notifier).
usage: notifrun.py replay - notifications '<json opts>'"""
from __future__ import annotations

import itertools
import json
import os
import sys

VERIF = os.path.dirname(os.path.dirname(os.path.abspath(__file__)))
REPO = os.environ.get("RXVC_REPO", "/repo")
if REPO not in sys.path:
    sys.path.insert(0, REPO)

PAYLOADS = [1, 0, None, "", False, [], 0.0, "x", (1, 2)]


def run_case(kind, pi, form):
    from reactivex import Observer
    from reactivex.notification import OnCompleted, OnError, OnNext, from_notifier
    from reactivex.testing import TestScheduler
    v = PAYLOADS[pi]
    e = ValueError("boom")
    n = {"N": lambda: OnNext(v), "E": lambda: OnError(e), "C": lambda: OnCompleted()}[kind]()
    want = {"N": [("N", v)], "E": [("E", e)], "C": [("C",)]}[kind]
    if n.kind != kind or bool(n.has_value) != (kind == "N"):
        return f"kind {n.kind!r} has_value {n.has_value!r}"
    if kind == "N" and n.value is not v:
        return f"value {n.value!r} is not the payload {v!r}"
    if kind == "E" and n.exception is not e:
        return "the exception is not the one given"
    log = []
    f, g, h = (lambda x: log.append(("N", x))), (lambda x: log.append(("E", x))), (lambda: log.append(("C",)))

    def same(a, b):
        return len(a) == len(b) and all(len(x) == len(y) and all(p is q or (p == q and type(p) is type(q)) for p, q in zip(x, y)) for x, y in zip(a, b))
    if form == "observer":
        n.accept(Observer(f, g, h))
        if not same(log, want):
            return f"accept(observer) replayed {log!r}, expected {want!r}"
    elif form == "callbacks":
        n.accept(f, g, h)
        if not same(log, want):
            return f"accept(f, g, h) called {log!r}, expected {want!r}"
    elif form == "on_next only":
        n.accept(f)
        w2 = want if kind == "N" else []
        if not same(log, w2):
            return f"accept(f) called {log!r}, expected {w2!r}"
    elif form in ("to_observable immediate", "to_observable bound", "to_observable at subscribe"):
        if form == "to_observable immediate":
            n.to_observable().subscribe(Observer(f, g, h))
        else:
            s1, s2 = TestScheduler(), TestScheduler()
            if form == "to_observable bound":
                n.to_observable(s1).subscribe(Observer(f, g, h))
                runs, idle = s1, s2
            else:
                n.to_observable(s1).subscribe(Observer(f, g, h), scheduler=s2)
                runs, idle = s2, s1
            if log:
                return f"emitted {log!r} at subscription, before the scheduler ran"
            idle.start()
            if log:
                return "the action was scheduled on the wrong scheduler"
            runs.start()
        w2 = want + ([("C",)] if kind == "N" else [])
        if not same(log, w2):
            return f"{form}: observer saw {log!r}, expected {w2!r}"
    else:  # from_notifier
        got = []
        ob = from_notifier(got.append)
        if kind == "N":
            ob.on_next(v)
        elif kind == "E":
            ob.on_error(e)
        else:
            ob.on_completed()
        if len(got) != 1 or got[0].kind != kind or (kind == "N" and got[0].value is not v) or (kind == "E" and got[0].exception is not e):
            return f"from_notifier handed on {[(x.kind, getattr(x, 'value', None)) for x in got]!r}"
    return None


FORMS = ["observer", "callbacks", "on_next only", "to_observable immediate", "to_observable bound", "to_observable at subscribe", "from_notifier"]


def main(argv):
    opts = json.loads(argv[3]) if len(argv) > 3 else {}
    n, found = 0, None
    for kind, pi, form in itertools.product("NEC", range(len(PAYLOADS)), FORMS):
        if kind != "N" and pi:
            continue
        n += 1
        try:
            r = run_case(kind, pi, form)
        except Exception as e:  # noqa: BLE001
            r = f"the case raised {e!r}"
        if r:
            found = {"case": {"kind": kind, "payload": pi, "form": form}, "disagreement": r}
            break
    res = {"cases": n, "found": [found] if found else []}
    if found and "replay_path" in opts:
        os.makedirs(os.path.dirname(opts["replay_path"]), exist_ok=True)
        c = found["case"]
        with open(opts["replay_path"], "w") as f:
            f.write(f'#!/venv/bin/python\n"""Replay of a violation of property {opts.get("prop", "C05")} (notification classes).\nobligation: {opts.get("oid", "?")}\n'
                    f'case: {c} (payload {PAYLOADS[c["payload"]]!r})\n{found["disagreement"]}\nExit 1 when it reproduces on the tree under RXVC_REPO (default /repo)."""\n'
                    f'import sys\nsys.path.insert(0, {VERIF!r})\nfrom rxvc import notifrun\nr = notifrun.run_case({c["kind"]!r}, {c["payload"]}, {c["form"]!r})\n'
                    f'print(r)\nsys.exit(1 if r else 0)\n')
        res["replay"] = opts["replay_path"]
    print(json.dumps(res))


if __name__ == "__main__":
    main(sys.argv[1:])
