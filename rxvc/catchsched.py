"""C42: function and closure contracts for CatchScheduler, discharged on the real code.

Class invariant I(o):  o._handler is H,  and the cached recursive wrapper, if any, is a CatchScheduler with
handler H whose wrapped scheduler is o._recursive_original (and satisfies I itself).  Every obligation
starts from an ARBITRARY object satisfying I (cache empty / hit / miss; every state field the contract does
not name is arbitrary within its __init__ type), so it holds after any history of calls.

  __init__                 establishes I
  _get_recursive_wrapper   returns R: CatchScheduler, R._handler is H, R._scheduler is the argument, I(R); I(o) kept
  _wrap(action) -> W       W(s, st): calls action exactly once, with (R, st) where R wraps s with the SAME handler
                           (so whatever the action schedules through R is caught again: the class contract is
                           what R obeys - a coinductive argument over the tree of recursive scheduling);
                           action returned v  => W returns v, handler not called ("exactly as on the wrapped
                           scheduler"); action raised e => handler called exactly once with e; truthy verdict
                           => swallowed (W returns a Disposable), falsy => the same e propagates
  schedule / schedule_relative / schedule_absolute
                           exactly one call of the same method on the wrapped scheduler, same due time and
                           state, the action replaced by a W satisfying the contract above; its result is
                           returned; nothing is invoked while scheduling
  schedule_periodic -> D   one call of schedule_periodic(period, P, state) on the wrapped scheduler; D holds its
                           result.  P, by FRAME INDUCTION (no cell is named): a fresh P calls the action;
                           a successful call returns the action's value, calls no handler and leaves every
                           closure cell and every field of o and D unchanged (so P stays live after any number
                           of successes); action raised e => handler called once with e; truthy => returns
                           None, D and the inner subscription are disposed, and from that state P never calls
                           the action again and changes nothing (stopped for good); falsy => e propagates.
Opaque: the wrapped scheduler (its methods are recorded), actions (may return anything or raise anything,
may re-enter the scheduler they are given), the handler (any verdict).  A-sched-eq: schedulers compare by
identity (`!=` in _get_recursive_wrapper).
"""
from __future__ import annotations

import time

import z3

from . import smt
from .interp import Interp, World, explore
from .loader import Loader, all_functions
from .refine import Result
from .values import SV, BoundMethod, Closure, Obj, Opaque, PathEnd, PyExc, Unsupported, ValSV

CFILE = "reactivex/scheduler/catchscheduler.py"
DECLARED = {"_scheduler", "_handler", "_recursive_original", "_recursive_wrapper"}


class CatchWorld(World):
    def __init__(self):
        super().__init__()
        self.log = []
        self.n = 0

    def call(self, it, o, method, args, kwargs):
        ctx = it.ctx
        if o.kind == "scheduler":
            self.n += 1
            d = Opaque("disposable", f"{o.name}.{method}#{self.n}")
            self.log.append(("inner", o, method, list(args), dict(kwargs), d))
            return d
        if o.kind == "callback" and o.name == "handler":
            v = ctx.fresh("verdict", "val")
            self.log.append(("handler", list(args), v))
            return v
        if o.kind == "callback":
            k = sum(1 for e in self.log if e[0] == "action")
            if ctx.choose(2, f"{o.name}#{k} raises") == 1:
                e = SV(ctx.fresh("exc", "val").t, "val", tag="exc")
                self.log.append(("action", o, list(args), ("raise", e)))
                raise PyExc(e)
            v = ctx.fresh("ret", "val")
            self.log.append(("action", o, list(args), ("return", v)))
            return v
        if o.kind == "disposable":
            self.log.append(("dispose", o))
            return None
        if o.kind in ("lock", "logger"):
            return None
        return super().call(it, o, method, args, kwargs)


def same(a, b):
    """-> True / False / z3 term: the two values are the same"""
    if isinstance(a, SV) and isinstance(b, SV):
        if a.t.sort() != b.t.sort():
            return False
        return True if a.t.eq(b.t) else a.t == b.t
    if isinstance(a, SV) or isinstance(b, SV):
        return False
    if isinstance(a, (bool, int, str, float, type(None))) or isinstance(b, (bool, int, str, float, type(None))):
        return type(a) is type(b) and a == b
    return a is b


def conj(xs):
    if any(x is False for x in xs):
        return False
    ts = [x for x in xs if x is not True]
    return z3.And(*ts) if ts else True


class CatchHarness:
    def __init__(self, loader=None):
        self.loader = loader or Loader()
        self.results = []
        self.unsupported = None
        self.functions = {}

    def rec(self, ctx, oid, goal, detail=""):
        t0 = time.time()
        if isinstance(goal, bool):
            goal = z3.BoolVal(goal)
        v, m, b = smt.prove(ctx.pc, goal)
        ctx.results.append(Result(oid, v, b, smt.model_to_dict(m), list(ctx.branch_log), detail, time.time() - t0, "post"))

    # -- states ------------------------------------------------------------------------------------------
    def new_obj(self, it, sched, handler, tag):
        """a CatchScheduler built by the real __init__"""
        return it.call(self.cls, [sched, handler], {})

    def setup(self, ctx, cache=True):
        w = self.w = CatchWorld()
        it = Interp(self.loader, ctx, w)
        self.cls = it.module_get("reactivex.scheduler.catchscheduler", "CatchScheduler")
        self.inner = Opaque("scheduler", "inner")
        self.handler = Opaque("callback", "handler")
        o = self.obj = self.new_obj(it, self.inner, self.handler, "o")
        self.orig = None
        if cache:
            # arbitrary cache state permitted by I
            k = ctx.choose(3, "cache")  # 0: empty, 1: wrapper caching itself (as built), 2: wrapper with its own empty cache
            if k:
                self.orig = Opaque("scheduler", "orig")
                rw = self.new_obj(it, self.orig, self.handler, "rw")
                if k == 1:
                    rw.fields["_recursive_original"] = self.orig
                    rw.fields["_recursive_wrapper"] = rw
                o.fields["_recursive_original"] = self.orig
                o.fields["_recursive_wrapper"] = rw
            elif ctx.choose(2, "stale original") == 1:
                o.fields["_recursive_original"] = Opaque("scheduler", "stale")
        w.log.clear()
        return it

    def havoc_undeclared(self, it, o, tag):
        """state the contract does not name: arbitrary within the type __init__ gave it"""
        for name, v in list(o.fields.items()):
            if name in DECLARED:
                continue
            if isinstance(v, bool):
                o.fields[name] = it.ctx.fresh(f"{name}_{tag}", "bool")
            elif isinstance(v, int):
                o.fields[name] = it.ctx.fresh(f"{name}_{tag}", "int")

    def inv1(self, o):
        """I at depth 1 (python bool: all parts are object identities)"""
        if not (isinstance(o, Obj) and o.cls is self.cls and o.fields.get("_handler") is self.handler):
            return False
        rw = o.fields.get("_recursive_wrapper")
        if rw is None:
            return True
        return (isinstance(rw, Obj) and rw.cls is self.cls and rw.fields.get("_handler") is self.handler
                and rw.fields.get("_scheduler") is o.fields.get("_recursive_original"))

    def inv(self, o):
        rw = o.fields.get("_recursive_wrapper")
        return self.inv1(o) and (rw is None or self.inv1(rw))

    # -- the contract of a wrapped action ------------------------------------------------------------------
    def check_wrapped(self, it, ctx, uid, W, action):
        w = self.w
        o = self.obj
        if not isinstance(W, (Closure, BoundMethod)):
            self.rec(ctx, uid + "/wrapped/is-a-function", False, detail=f"the action handed to the wrapped scheduler is {W!r}")
            return
        choices = [Opaque("scheduler", "s_new")] + ([self.orig] if self.orig is not None else [])
        s = choices[ctx.choose(len(choices), "scheduler handed to the action")]
        st = ctx.fresh("st", "val")
        self.havoc_undeclared(it, o, "w")
        w.log.clear()
        raised, res = None, None
        try:
            res = it.call(W, [s, st], {})
        except PyExc as e:
            raised = e.value
        acts = [e for e in w.log if e[0] == "action"]
        hs = [e for e in w.log if e[0] == "handler"]
        ok = len(acts) == 1 and acts[0][1] is action
        self.rec(ctx, uid + "/wrapped/calls-the-action-exactly-once", ok, detail=f"action calls: {len(acts)}")
        if not ok:
            return
        args, outcome = acts[0][2], acts[0][3]
        R = args[0] if args else None
        self.rec(ctx, uid + "/wrapped/action-gets-a-catching-scheduler-with-the-same-handler",
                 len(args) == 2 and isinstance(R, Obj) and R.cls is self.cls and R.fields.get("_handler") is self.handler,
                 detail="recursive scheduling must go through a CatchScheduler with this handler")
        if isinstance(R, Obj):
            self.rec(ctx, uid + "/wrapped/that-scheduler-wraps-the-one-the-action-was-run-on", R.fields.get("_scheduler") is s)
            self.rec(ctx, uid + "/wrapped/that-scheduler-satisfies-the-class-invariant", self.inv(R))
        self.rec(ctx, uid + "/wrapped/action-gets-the-state", len(args) == 2 and same(args[1], st))
        if outcome[0] == "return":
            self.rec(ctx, uid + "/wrapped/no-raise/returns-what-the-action-returned", raised is None and same(res, outcome[1]))
            self.rec(ctx, uid + "/wrapped/no-raise/handler-not-called", not hs)
        else:
            e = outcome[1]
            okh = len(hs) == 1 and len(hs[0][1]) == 1 and same(hs[0][1][0], e)
            self.rec(ctx, uid + "/wrapped/raise/handler-called-exactly-once-with-the-exception", okh, detail=f"handler calls: {len(hs)}")
            if len(hs) == 1:
                verdict = smt.truthy(hs[0][2].t)
                if raised is None:
                    self.rec(ctx, uid + "/wrapped/raise/swallowed-only-on-a-true-verdict", verdict)
                    self.rec(ctx, uid + "/wrapped/raise/swallowed-returns-a-disposable",
                             isinstance(res, Obj) and res.cls.name == "Disposable")
                else:
                    self.rec(ctx, uid + "/wrapped/raise/propagates-only-on-a-falsy-verdict", z3.Not(verdict))
                    self.rec(ctx, uid + "/wrapped/raise/propagates-the-same-exception", same(raised, e))
        self.rec(ctx, uid + "/wrapped/class-invariant-kept", self.inv(o))

    # -- scenarios -------------------------------------------------------------------------------------
    def run_init(self, ctx):
        it = self.setup(ctx, cache=False)
        o = self.obj
        uid = f"{CFILE}::CatchScheduler.__init__"
        self.rec(ctx, uid + "/wraps-the-given-scheduler", o.fields.get("_scheduler") is self.inner)
        self.rec(ctx, uid + "/keeps-the-given-handler", o.fields.get("_handler") is self.handler)
        self.rec(ctx, uid + "/establishes-the-class-invariant", self.inv(o) and o.fields.get("_recursive_wrapper") is None)

    def run_get_wrapper(self, ctx):
        it = self.setup(ctx)
        o = self.obj
        uid = f"{CFILE}::CatchScheduler._get_recursive_wrapper"
        choices = [Opaque("scheduler", "s_new")] + ([self.orig] if self.orig is not None else [])
        s = choices[ctx.choose(len(choices), "argument")]
        self.havoc_undeclared(it, o, "g")
        R = it.call(it.get_attr(o, "_get_recursive_wrapper"), [s], {})
        self.rec(ctx, uid + "/returns-a-catching-scheduler-with-the-same-handler",
                 isinstance(R, Obj) and R.cls is self.cls and R.fields.get("_handler") is self.handler)
        if isinstance(R, Obj):
            self.rec(ctx, uid + "/it-wraps-the-argument", R.fields.get("_scheduler") is s)
            self.rec(ctx, uid + "/it-satisfies-the-class-invariant", self.inv(R))
        self.rec(ctx, uid + "/class-invariant-kept", self.inv(o))
        self.rec(ctx, uid + "/frame", o.fields.get("_scheduler") is self.inner and o.fields.get("_handler") is self.handler)
        self.rec(ctx, uid + "/calls-nothing", not self.w.log)

    def run_wrap(self, ctx):
        it = self.setup(ctx)
        o = self.obj
        uid = f"{CFILE}::CatchScheduler._wrap"
        action = Opaque("callback", "action")
        if ctx.choose(2, "another CatchScheduler wrapped the same action before") == 1:
            # the contract is per scheduler object: what another CatchScheduler (another handler) did with the same action callable
            # earlier in the process changes nothing here
            sibling = self.new_obj(it, Opaque("scheduler", "other_inner"), Opaque("callback", "other_handler"), "sib")
            it.call(it.get_attr(sibling, "_wrap"), [action], {})
            self.w.log.clear()
        W = it.call(it.get_attr(o, "_wrap"), [action], {})
        self.rec(ctx, uid + "/calls-nothing", not self.w.log)
        self.check_wrapped(it, ctx, uid, W, action)

    def run_schedule(self, ctx, mname):
        it = self.setup(ctx)
        o = self.obj
        w = self.w
        uid = f"{CFILE}::CatchScheduler.{mname}"
        action = Opaque("callback", "action")
        st = ctx.fresh("state", "val")
        due = ctx.fresh("due", "val")
        self.havoc_undeclared(it, o, "s")
        args = ([due] if mname != "schedule" else []) + [action, st]
        res = it.call(it.get_attr(o, mname), args, {})
        calls = [e for e in w.log if e[0] == "inner"]
        others = [e for e in w.log if e[0] != "inner"]
        ok = len(calls) == 1 and calls[0][1] is self.inner and calls[0][2] == mname
        self.rec(ctx, uid + "/one-call-of-the-same-method-on-the-wrapped-scheduler", ok,
                 detail=f"calls on the wrapped scheduler: {[(c[1].name, c[2]) for c in calls]}")
        self.rec(ctx, uid + "/invokes-nothing-while-scheduling", not others)
        if not ok:
            return
        names = (["duetime"] if mname != "schedule" else []) + ["action", "state"]
        a, kw = calls[0][3], calls[0][4]
        got = dict(zip(names, a))
        got.update(kw)
        self.rec(ctx, uid + "/arguments-well-formed", set(got) == set(names) and len(a) + len(kw) == len(names))
        if "duetime" in names:
            self.rec(ctx, uid + "/same-due-time", "duetime" in got and same(got["duetime"], due))
        self.rec(ctx, uid + "/same-state", "state" in got and same(got["state"], st))
        self.rec(ctx, uid + "/returns-the-wrapped-scheduler's-disposable", res is calls[0][5])
        self.rec(ctx, uid + "/class-invariant-kept", self.inv(o))
        if "action" in got:
            self.check_wrapped(it, ctx, uid, got["action"], action)

    def snapshot(self, P, D):
        """every closure cell P can see in its defining scope, and every field of o and D"""
        snap = {}
        env = P.env if isinstance(P, Closure) else None
        if env is not None:
            for k, v in env.vars.items():
                snap[f"cell:{k}"] = v
        for k, v in self.obj.fields.items():
            snap[f"self.{k}"] = v
        if isinstance(D, Obj):
            for k, v in D.fields.items():
                snap[f"disp.{k}"] = v
        return snap

    def unchanged(self, before, after):
        parts = []
        diff = []
        for k in set(before) | set(after):
            if k not in before or k not in after:
                parts.append(False)
                diff.append(k)
                continue
            r = same(before[k], after[k])
            parts.append(r)
            if r is False:
                diff.append(k)
        return conj(parts), diff

    def run_periodic(self, ctx):
        it = self.setup(ctx)
        o = self.obj
        w = self.w
        uid = f"{CFILE}::CatchScheduler.schedule_periodic"
        action = Opaque("callback", "periodic_action")
        st = ctx.fresh("state", "val")
        period = ctx.fresh("period", "val")
        self.havoc_undeclared(it, o, "p0")
        D = it.call(it.get_attr(o, "schedule_periodic"), [period, action, st], {})
        calls = [e for e in w.log if e[0] == "inner"]
        others = [e for e in w.log if e[0] != "inner"]
        ok = len(calls) == 1 and calls[0][1] is self.inner and calls[0][2] == "schedule_periodic"
        self.rec(ctx, uid + "/one-call-of-schedule_periodic-on-the-wrapped-scheduler", ok)
        self.rec(ctx, uid + "/invokes-nothing-while-scheduling", not others)
        if not ok:
            return
        a, kw = calls[0][3], calls[0][4]
        got = dict(zip(["period", "action", "state"], a))
        got.update(kw)
        self.rec(ctx, uid + "/same-period-and-state", set(got) == {"period", "action", "state"} and same(got["period"], period) is not False
                 and same(got["state"], st) is not False and conj([same(got["period"], period), same(got["state"], st)]))
        inner_d = calls[0][5]
        self.rec(ctx, uid + "/returns-a-disposable-holding-the-inner-subscription",
                 isinstance(D, Obj) and D.fields.get("current") is inner_d and D.fields.get("is_disposed") is False)
        P = got.get("action")
        if not isinstance(P, Closure):
            self.rec(ctx, uid + "/periodic/is-a-function", False)
            return
        # ---- a fresh P, the object's unnamed state arbitrary (other periodic work may have failed meanwhile)
        self.havoc_undeclared(it, o, "p1")
        s0 = self.snapshot(P, D)
        s1 = ctx.fresh("s1", "val")
        w.log.clear()
        raised, res = None, None
        try:
            res = it.call(P, [s1], {})
        except PyExc as e:
            raised = e.value
        acts = [e for e in w.log if e[0] == "action"]
        hs = [e for e in w.log if e[0] == "handler"]
        ok = len(acts) == 1 and acts[0][1] is action and len(acts[0][2]) == 1 and same(acts[0][2][0], s1) is not False
        self.rec(ctx, uid + "/periodic/live/calls-the-action-exactly-once-with-the-state",
                 ok and same(acts[0][2][0], s1), detail=f"action calls: {len(acts)} (a fresh periodic subscription must run its action whatever "
                                                          f"happened to other work on this scheduler)")
        if not ok:
            return
        outcome = acts[0][3]
        if outcome[0] == "return":
            self.rec(ctx, uid + "/periodic/live/no-raise/returns-the-action's-new-state", raised is None and same(res, outcome[1]))
            self.rec(ctx, uid + "/periodic/live/no-raise/handler-not-called", not hs)
            un, diff = self.unchanged(s0, self.snapshot(P, D))
            self.rec(ctx, uid + "/periodic/live/no-raise/frame-nothing-changed-so-it-stays-live", un, detail=f"changed: {diff}")
            self.rec(ctx, uid + "/periodic/live/no-raise/subscription-kept", not [e for e in w.log if e[0] == "dispose"])
            return
        e = outcome[1]
        okh = len(hs) == 1 and len(hs[0][1]) == 1 and same(hs[0][1][0], e)
        self.rec(ctx, uid + "/periodic/live/raise/handler-called-exactly-once-with-the-exception", okh, detail=f"handler calls: {len(hs)}")
        if len(hs) != 1:
            return
        verdict = smt.truthy(hs[0][2].t)
        if raised is not None:
            self.rec(ctx, uid + "/periodic/live/raise/propagates-only-on-a-falsy-verdict", z3.Not(verdict))
            self.rec(ctx, uid + "/periodic/live/raise/propagates-the-same-exception", same(raised, e))
            return
        self.rec(ctx, uid + "/periodic/live/raise/swallowed-only-on-a-true-verdict", verdict)
        self.rec(ctx, uid + "/periodic/live/raise/swallowed-returns-None", res is None)
        disposed = [x for x in w.log if x[0] == "dispose"]
        self.rec(ctx, uid + "/periodic/live/raise/swallowed-disposes-the-periodic-subscription",
                 len(disposed) == 1 and disposed[0][1] is inner_d and D.fields.get("is_disposed") is True)
        # ---- stopped for good: from the state after a handled failure
        self.havoc_undeclared(it, o, "p2")
        s2 = self.snapshot(P, D)
        w.log.clear()
        raised, res = None, None
        try:
            res = it.call(P, [ctx.fresh("s2", "val")], {})
        except PyExc as ex:
            raised = ex.value
        self.rec(ctx, uid + "/periodic/stopped/never-calls-the-action-again", not [x for x in w.log if x[0] in ("action", "handler")])
        self.rec(ctx, uid + "/periodic/stopped/returns-None", raised is None and res is None)
        un, diff = self.unchanged(s2, self.snapshot(P, D))
        self.rec(ctx, uid + "/periodic/stopped/frame-nothing-changed-so-it-stays-stopped", un, detail=f"changed: {diff}")

    def run(self):
        t0 = time.time()
        try:
            node = self.loader.find(CFILE, "CatchScheduler")
            for q, n in all_functions(node, "CatchScheduler"):
                self.functions[f"{CFILE}::{q}"] = self.loader.sha(CFILE, q)
            scen = [self.run_init, self.run_get_wrapper, self.run_wrap, self.run_periodic]
            for m in ("schedule", "schedule_relative", "schedule_absolute"):
                scen.append(lambda ctx, _m=m: self.run_schedule(ctx, _m))
            for f in scen:
                for p in explore(f):
                    self.results.extend(p.results)
        except Unsupported as e:
            self.unsupported = str(e)
        except PyExc as e:
            self.unsupported = f"interpreter-level exception: {e.value!r} {getattr(e.value, 'fields', '')}"
        self.seconds = time.time() - t0
        return self


#: must-fail mutants (thorough tier, in memory): each must break at least one obligation
MUTANTS = {
    "action handed the bare scheduler": ("return action(parent._get_recursive_wrapper(self), state)", "return action(self, state)"),
    "inverted verdict": ("                if not parent._handler(ex):\n                    raise\n                return Disposable()",
                         "                if parent._handler(ex):\n                    raise\n                return Disposable()"),
    "periodic failure not latched": ("                failed = True\n", "                pass\n"),
    "periodic subscription not disposed": ("                disp.dispose()\n", ""),
    "wrapper cache ignores the scheduler": ("if self._recursive_wrapper is None or self._recursive_original != scheduler:",
                                            "if self._recursive_wrapper is None:"),
    "schedule_absolute unwrapped": ("        action = self._wrap(action)\n        return self._scheduler.schedule_absolute",
                                    "        return self._scheduler.schedule_absolute"),
    "clone loses the handler": ("return CatchScheduler(scheduler, self._handler)", "return CatchScheduler(scheduler, lambda ex: False)"),
    "handler asked twice": ("                if not parent._handler(ex):\n                    raise\n                return Disposable()",
                            "                parent._handler(ex)\n                if not parent._handler(ex):\n                    raise\n                return Disposable()"),
}


def must_fail():
    base = Loader()
    src = base.load_file(CFILE).src
    out = {"mutants": 0, "killed": 0, "survivors": []}
    for name, (a, b) in MUTANTS.items():
        if a not in src:
            continue  # the text drifted: this mutant no longer applies
        ld = Loader()
        ld.overrides = {CFILE: src.replace(a, b, 1)}
        h = CatchHarness(ld).run()
        out["mutants"] += 1
        if h.unsupported or any(r.verdict == "refuted" for r in h.results):
            out["killed"] += 1
        else:
            out["survivors"].append(name)
    return out


def run_unit(desc):
    h = CatchHarness().run()
    res = [r.as_dict() for r in h.results]
    extra = {}
    bounded = []
    if desc.get("tier") == "thorough" and not h.unsupported:
        import json
        import os
        from .report import native, VERIF
        mf = must_fail()
        extra["must_fail"] = dict(mf, unit=f"{CFILE}::CatchScheduler")
        if mf["mutants"] and mf["killed"] < mf["mutants"]:
            extra["crash"] = f"vacuity: must-fail mutants survived: {mf['survivors']}"
        r, err = native([os.path.join(VERIF, "rxvc", "catchrun.py"), "replay", "-", "C42", json.dumps({})])
        if r is None:
            bounded.append({"function": f"{CFILE}::CatchScheduler", "bound": "catchrun did not run: " + str(err)[:200], "cases": 0})
        else:
            bounded.append({"function": f"{CFILE}::CatchScheduler", "bound": "scenario trees <= 3 nodes / depth 2, <= 2 periodic subscriptions, 4 ticks",
                            "cases": r.get("cases", 0), "mismatches": len(r.get("found", [])), "role": "cross-check of the contracts against CPython"})
            if r.get("found") and all(x["verdict"] == "proved" for x in res):
                extra["crash"] = f"cross-check failed: contracts proved but the native scenario run disagrees: {r['found'][0]}"
    rep = {
        "unit": f"{CFILE}::CatchScheduler",
        "kind": "function and closure contracts with a class invariant (frame induction for the periodic closure)",
        "functions": h.functions,
        "results": res,
        "unsupported": h.unsupported,
        "spec_validation": [],
        "bounded": bounded,
        "replayable": {"runner": "catchrun.py", "module": "-", "name": "C42"},
    }
    rep.update(extra)
    return rep
