"""Native history runner for multicasting (replay of C24 violations; bounded).

Runs under /venv/bin/python.  A history is a sequence of subscribe(i) / unsubscribe(i) / connect / disconnect / emit(v)
calls against publish, share, replay(2), publish_value(v0) and auto_connect(n) over an instrumented source (hot, or
"cold" = emits two elements synchronously at every subscription and stays open).  Oracle = the property: the source is
subscribed once per connect() and only while connected (share: exactly while there is a subscriber; auto_connect: once
the n-th subscriber arrived); every subscriber receives what the shared subject receives from its subscription onwards,
plus the replayed / current values.  BOUNDED: all histories up to length 5 over 2 subscribers.

usage: mcastrun.py replay - C24 '<json opts>'
       mcastrun.py case '<json case>'
"""
from __future__ import annotations

import itertools
import json
import os
import sys

VERIF = os.path.dirname(os.path.dirname(os.path.abspath(__file__)))
REPO = os.environ.get("RXVC_REPO", "/repo")
if REPO not in sys.path:
    sys.path.insert(0, REPO)


def make_source(cold):
    from reactivex import Observable
    from reactivex.disposable import Disposable

    class Src(Observable):
        def __init__(self):
            self.observers = []
            self.total = 0
            super().__init__(self._sub)

        def _sub(self, observer, scheduler=None):
            self.total += 1
            self.observers.append(observer)
            if cold:
                observer.on_next("c1")
                observer.on_next("c2")
            return Disposable(lambda: self.observers.remove(observer) if observer in self.observers else None)

        def emit(self, v):
            for o in list(self.observers):
                o.on_next(v)
    return Src()


def run(c):
    from reactivex import operators as ops
    if c["kind"] == "reentrant":
        return reentrant_case(c)
    kind, cold, hist = c["kind"], c["cold"], c["history"]
    src = make_source(cold)
    n_auto = c.get("n", 2)
    if kind == "publish":
        obs = src.pipe(ops.publish())
    elif kind == "share":
        obs = src.pipe(ops.share())
    elif kind == "replay":
        obs = src.pipe(ops.replay(buffer_size=2))
    elif kind == "publish_value":
        obs = src.pipe(ops.publish_value("v0"))
    else:
        conn = src.pipe(ops.publish())
        obs = conn.auto_connect(n_auto)
    connectable = obs if kind in ("publish", "replay", "publish_value") else None
    got = {0: [], 1: []}
    subs = {}
    connection = [None]
    # ---- reference model
    m_connected = False
    m_subs = set()
    m_total = 0  # subscriptions made to the source
    m_live = 0   # live subscriptions to the source
    m_buf = []   # what the subject has seen (for replay / current value)
    m_value = "v0"
    want = {0: [], 1: []}
    arrived = 0
    auto_done = (kind == "auto" and n_auto == 0)
    if auto_done:
        m_total, m_live = 1, 1

    def deliver(v):
        nonlocal m_value
        m_buf.append(v)
        m_value = v
        for i in sorted(m_subs):
            want[i].append(v)

    def source_subscribed():
        nonlocal m_total, m_live
        m_total += 1
        m_live += 1
        if cold:
            deliver("c1")
            deliver("c2")
    if auto_done and cold:
        m_buf += ["c1", "c2"]
    for step in hist:
        a = step[0]
        if a == "sub":
            i = step[1]
            if i in subs:
                continue
            subs[i] = obs.subscribe(got[i].append)
            # model
            if kind == "replay":
                want[i] += m_buf[-2:]
            if kind == "publish_value":
                want[i].append(m_value)
            m_subs.add(i)
            if kind == "share" and len(m_subs) == 1:
                source_subscribed()
            if kind == "auto":
                arrived += 1
                if arrived == n_auto and not auto_done:
                    auto_done = True
                    source_subscribed()
        elif a == "unsub":
            i = step[1]
            if i not in subs:
                continue
            subs.pop(i).dispose()
            m_subs.discard(i)
            if kind == "share" and not m_subs:
                m_live -= 1
            if kind == "auto":
                arrived -= 1
        elif a == "connect":
            if connectable is None:
                continue
            connection[0] = connectable.connect()
            if not m_connected:
                m_connected = True
                source_subscribed()
        elif a == "disconnect":
            if connectable is None or connection[0] is None:
                continue
            connection[0].dispose()
            connection[0] = None
            if m_connected:
                m_connected = False
                m_live -= 1
        elif a == "emit":
            src.emit(step[1])
            if m_live > 0:
                deliver(step[1])
    if src.total != m_total:
        return {"what": f"the source was subscribed {src.total} time(s), expected {m_total}", "history": hist}
    if len(src.observers) != m_live:
        return {"what": f"{len(src.observers)} live subscription(s) to the source at the end, expected {m_live}", "history": hist}
    for i in (0, 1):
        if got[i] != want[i]:
            return {"what": f"subscriber {i} received {got[i]}, expected {want[i]}", "history": hist}
    return None


def reentrant_case(c):
    """a subscriber that subscribes a second observer from inside on_next of the current / replayed value (ref_count)"""
    from reactivex import operators as ops
    src = make_source(False)
    base = ops.publish_value("v0") if c["subject"] == "behavior" else ops.replay(buffer_size=1)
    conn = src.pipe(base)
    if c["subject"] == "replay":
        # give the replay subject something to replay
        d0 = conn.connect()
        src.emit("r0")
        d0.dispose()
    shared = conn.pipe(ops.ref_count())
    got = {0: [], 1: []}
    inner = []

    def first(v):
        got[0].append(v)
        if not inner:
            inner.append(shared.subscribe(got[1].append))
    shared.subscribe(first)
    before = src.total
    src.emit("x")
    if len(src.observers) != 1:
        return {"what": f"after two (nested) subscriptions through ref_count the source has {len(src.observers)} live subscription(s), expected 1",
                "source_subscriptions_made": before}
    if "x" not in got[0] or "x" not in got[1]:
        return {"what": "a subscriber did not receive the element emitted after both had subscribed", "got": got}
    return None


def histories(kind, max_len):
    acts = [("sub", 0), ("sub", 1), ("unsub", 0), ("unsub", 1), ("emit", "x")]
    if kind in ("publish", "replay", "publish_value"):
        acts += [("connect",), ("disconnect",)]
    for n in range(1, max_len + 1):
        for h in itertools.product(acts, repeat=n):
            yield [list(a) for a in h]


def cases(max_len=5):
    for subj in ("behavior", "replay"):
        yield {"kind": "reentrant", "subject": subj}
    for kind in ("share", "publish", "replay", "publish_value", "auto"):
        for cold in (False, True):
            L = max_len if kind in ("share", "auto") else max_len - 1
            for h in histories(kind, L):
                if kind == "auto":
                    for n in (0, 1, 2):
                        yield {"kind": kind, "cold": cold, "history": h, "n": n}
                else:
                    yield {"kind": kind, "cold": cold, "history": h}


REPLAY_TEMPLATE = '''#!/venv/bin/python
"""Replay of a violation of property {prop} (multicasting).
obligation: {oid}
case: {case}
{what}
Exit 1 when it reproduces on the tree under RXVC_REPO (default /repo)."""
import subprocess, sys
r = subprocess.run(["/venv/bin/python", "{verif}/rxvc/mcastrun.py", "case", {case!r}])
sys.exit(r.returncode)
'''


def main(argv):
    if argv[0] == "case":
        r = run(json.loads(argv[1]))
        print(json.dumps({"violation": r}, default=repr))
        sys.exit(1 if r else 0)
    opts = json.loads(argv[3]) if len(argv) > 3 else {}
    n, found = 0, None
    for c in cases(opts.get("max_len", 5)):
        n += 1
        r = run(c)
        if r:
            found = {"case": c, "disagreement": r}
            break
    res = {"cases": n, "found": [found] if found else []}
    if found and "replay_path" in opts:
        os.makedirs(os.path.dirname(opts["replay_path"]), exist_ok=True)
        with open(opts["replay_path"], "w") as f:
            f.write(REPLAY_TEMPLATE.format(prop=opts.get("prop", "C24"), oid=opts.get("oid", "?"), verif=VERIF,
                                           case=json.dumps(found["case"]), what=json.dumps(found["disagreement"], default=repr)[:600]))
        res["replay"] = opts["replay_path"]
    print(json.dumps(res, default=repr))


if __name__ == "__main__":
    main(sys.argv[1:])
