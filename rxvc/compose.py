"""K8 (ii) - composition lemmas for C02 / C03: the paper argument "these contracts imply the property for pipelines of any depth"
as SMT obligations.  The hypotheses are the clauses of contracts proved by OTHER units of the same check (named below); they appear
here over uninterpreted predicates, so a hypothesis that is missing or too weak makes the conclusion unprovable.  Pipelines of any
depth are handled by induction over the level L (0 = the subscriber's end): base and step are discharged by the solver, the
induction schema itself is applied by the generator (recorded as an assumption, as for the other K8 lemmas).

  level L      an operator application; root(L) is the disposable its subscribe function returned; the subscriber of level L is
               wrapped by an AutoDetachObserver (Observable.subscribe contract, C01 unit `subscribe_unit`)
  made(L, d)   the subscribe function of level L (or a handler / action it registered) made the subscription d
  owned(r, d)  d is reachable from r through containers / Disposable(f) / scheduled items        (ownership contract, own.py)
  upstream     root(L + 1) is one of the subscriptions level L made (it subscribes to its source through Observable.subscribe)

  H-own   made(L, d) => owned(root(L), d)                                   own.py: every subscription stands in an owning position
  H-cont  owned(r, d) and disposed(r) => disposed(d)                        C26 / C27 container contracts (dispose disposes what is held;
                                                                            an item handed over after disposal is disposed at once)
  H-ado   terminal(L) => disposed(root(L))                                  AutoDetachObserver: the subscription is disposed on normal and
                                                                            exceptional exit of a terminal callback (C01 class unit)
  H-unsub unsubscribed => disposed(root(0)) and stopped(0)                  Observable.subscribe returns Disposable(ado.dispose); ADO.dispose
  H-gate  stopped(L) => no callback of level L's subscriber runs            AutoDetachObserver gate (C01)
  H-prop  disposed(root(L)) => stopped(L + 1) ... (the upstream wrapper is the root's content)  ADO.dispose via the owned subscription

  L02  terminal(0) => for every level L: disposed(root(L))        (every source subscription is released)
  L03  unsubscribed => for every level L: disposed(root(L)) and no callback of any level runs afterwards
"""
from __future__ import annotations

import time

import z3

from . import smt
from .refine import Result

Sub = z3.DeclareSort("Subscription")
root = z3.Function("root", z3.IntSort(), Sub)
made = z3.Function("made", z3.IntSort(), Sub, z3.BoolSort())
owned = z3.Function("owned", Sub, Sub, z3.BoolSort())
disposed = z3.Function("disposed", Sub, z3.BoolSort())
terminal = z3.Function("terminal", z3.IntSort(), z3.BoolSort())
stopped = z3.Function("stopped", z3.IntSort(), z3.BoolSort())
callback_runs = z3.Function("callback_runs", z3.IntSort(), z3.BoolSort())
unsubscribed = z3.Bool("unsubscribed")


def lemmas(drop=None):
    """(name, text, hypotheses, goal); `drop` removes one hypothesis (must-fail)"""
    L = z3.Int("L")
    d = z3.Const("d", Sub)
    up = root(L + 1)
    H = {
        # instances of the contract clauses at the terms the step needs (quantifier-free: the instantiation IS the proof)
        "H-own": z3.Implies(made(L, up), owned(root(L), up)),
        "H-cont": z3.Implies(z3.And(owned(root(L), up), disposed(root(L))), disposed(up)),
        "upstream": made(L, up),
        "H-ado": z3.Implies(terminal(0), disposed(root(0))),
        "H-unsub": z3.Implies(unsubscribed, z3.And(disposed(root(0)), stopped(0))),
        "H-prop": z3.Implies(disposed(up), stopped(L + 1)),
        "H-gate": z3.Implies(stopped(L + 1), z3.Not(callback_runs(L + 1))),
        "H-gate0": z3.Implies(stopped(0), z3.Not(callback_runs(0))),
    }
    if drop:
        H = {k: v for k, v in H.items() if k != drop}
    hs = list(H.values())
    _ = d
    return [
        ("L02/base", "terminal(0) => disposed(root(0))", hs + [terminal(0)], disposed(root(0))),
        ("L02/step", "disposed(root(L)) => disposed(root(L+1))   (for an arbitrary level L >= 0)", hs + [L >= 0, disposed(root(L))], disposed(up)),
        ("L03/base", "unsubscribed => disposed(root(0)) and no callback of the subscriber runs", hs + [unsubscribed], z3.And(disposed(root(0)), z3.Not(callback_runs(0)))),
        ("L03/step", "disposed(root(L)) => disposed(root(L+1)) and no callback of level L+1 runs", hs + [L >= 0, disposed(root(L))],
         z3.And(disposed(up), z3.Not(callback_runs(L + 1)))),
    ]


def run_unit(desc):
    t0 = time.time()
    results = []
    for (name, text, pc, goal) in lemmas():
        t1 = time.time()
        v, m, bk = smt.prove(pc, goal)
        results.append(Result(f"composition/{name}", v, bk, smt.model_to_dict(m), [], text, time.time() - t1, "lemma"))
        v2, _m, bk2 = smt.check_sat(pc)
        results.append(Result(f"composition/{name}/hypotheses-consistent", "proved" if v2 == "sat" else ("refuted" if v2 == "unsat" else "unknown"), bk2, {}, [],
                              "the contract clauses used as hypotheses have a model", 0.0, "vacuity"))
    rep = {"unit": "composition-lemmas/C02-C03", "kind": "K8 composition lemmas over the contracts' clauses (induction over the pipeline depth: base + step)",
           "functions": {}, "results": [r.as_dict() for r in results], "unsupported": None, "spec_validation": [], "bounded": [], "seconds": time.time() - t0}
    if desc.get("tier") == "thorough":
        # must-fail: without the ownership clause / the container clause / the upstream link the step is NOT provable
        muts = killed = 0
        surv = []
        for dropped in ("H-own", "H-cont", "upstream", "H-ado"):
            muts += 1
            ok = False
            for (name, text, pc, goal) in lemmas(drop=dropped):
                v, m, bk = smt.prove(pc, goal)
                ok = ok or v != "proved"
            killed += ok
            if not ok:
                surv.append(f"without {dropped}")
        rep["must_fail"] = {"mutants": muts, "killed": killed, "unit": rep["unit"], "survivors": surv}
        if killed < muts:
            rep["crash"] = f"vacuity: the composition is provable without a hypothesis it should need: {surv}"
    return rep
