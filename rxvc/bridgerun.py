"""Native runner for C41 (replay / bounded cross-check of the bridge contracts).

Runs under /venv/bin/python on the real from_future, to_future / await / run(), start, to_async, start_async and
from_callback.  Oracle = the property.  BOUNDED: sequences of <= 3 elements over {None, 0, '', 1} ending completed or with
an error (a normal one and one whose truth value is False), future outcomes (result / exception / cancelled / unsubscribed
first), callbacks with 0..3 arguments with and without a mapper (also a raising one).

usage: bridgerun.py replay - C41 '<json opts>'
       bridgerun.py case '<json case>'
"""
from __future__ import annotations

import asyncio
import concurrent.futures
import itertools
import json
import os
import sys

VERIF = os.path.dirname(os.path.dirname(os.path.abspath(__file__)))
REPO = os.environ.get("RXVC_REPO", "/repo")
if REPO not in sys.path:
    sys.path.insert(0, REPO)

VALUES = [None, 0, "", 1]


class Boom(Exception):
    pass


class FalsyBoom(Exception):
    """an error whose truth value is False"""
    def __bool__(self):
        return False


def mk_error(kind):
    return {"E": Boom("source failed"), "F": FalsyBoom("source failed (falsy)")}[kind]


def source(seq, term):
    import reactivex as rx
    from reactivex import operators as ops
    o = rx.from_iterable(list(seq))
    if term != "C":
        o = o.pipe(ops.concat(rx.throw(mk_error(term))))
    return o


def expect(seq, term):
    if term != "C":
        return ("raise", type(mk_error(term)).__name__)
    if not seq:
        return ("raise", "SequenceContainsNoElementsError")
    return ("value", repr(seq[-1]))


def outcome(fn):
    try:
        return ("value", repr(fn()))
    except BaseException as e:  # noqa: BLE001
        return ("raise", type(e).__name__)


def case_sequence(c):
    import reactivex as rx
    from reactivex import operators as ops
    from reactivex.scheduler import ImmediateScheduler
    seq, term, how = c["seq"], c["term"], c["how"]
    want = expect(seq, term)
    if how == "run":
        got = outcome(lambda: source(seq, term).run())
    elif how == "run_immediate":
        got = outcome(lambda: source(seq, term).run(ImmediateScheduler()))
    elif how == "to_future":
        f = source(seq, term).pipe(ops.to_future(concurrent.futures.Future))
        got = outcome(lambda: f.result(5))
    elif how == "await":
        async def main():
            return await source(seq, term)
        got = outcome(lambda: asyncio.run(main()))
    else:
        raise ValueError(how)
    if got != want:
        return f"{how} of the sequence {seq!r} ending with {term}: {got}, the property says {want}"
    return None


def collect(o):
    got = []
    o.subscribe(lambda v: got.append(("N", repr(v))), lambda e: got.append(("E", type(e).__name__)), lambda: got.append(("C",)))
    return got


def case_from_future(c):
    import reactivex as rx
    f = concurrent.futures.Future()
    k = c["outcome"]
    got = []
    if k == "unsubscribe_first":
        d = rx.from_future(f).subscribe(lambda v: got.append(("N", repr(v))), lambda e: got.append(("E", type(e).__name__)), lambda: got.append(("C",)))
        d.dispose()
        if not f.cancelled():
            return "from_future: unsubscribing before the future is done must cancel the future"
        return None
    if c.get("subscribe_first", True):
        rx.from_future(f).subscribe(lambda v: got.append(("N", repr(v))), lambda e: got.append(("E", type(e).__name__)), lambda: got.append(("C",)))
    if k == "result":
        f.set_result(c["value"])
        want = [("N", repr(c["value"])), ("C",)]
    elif k == "exception":
        f.set_exception(Boom("future failed"))
        want = [("E", "Boom")]
    else:
        f.cancel()
        want = [("E", "CancelledError")]
    if not c.get("subscribe_first", True):
        rx.from_future(f).subscribe(lambda v: got.append(("N", repr(v))), lambda e: got.append(("E", type(e).__name__)), lambda: got.append(("C",)))
    if got != want:
        return f"from_future, future outcome {k} ({'subscribed before' if c.get('subscribe_first', True) else 'subscribed after'} it was done): received {got}, expected {want}"
    return None


def case_start(c):
    import reactivex as rx
    from reactivex.scheduler import ImmediateScheduler
    calls = []

    def f(*a):
        calls.append(a)
        if c["raises"]:
            raise Boom("function failed")
        return c["value"]
    if c["how"] == "start":
        o = rx.start(f, ImmediateScheduler())
        want_args = ()
    else:
        o = rx.to_async(f, ImmediateScheduler())(1, 2)
        want_args = (1, 2)
    got = collect(o)
    want = [("E", "Boom")] if c["raises"] else [("N", repr(c["value"])), ("C",)]
    if got != want or calls != [want_args]:
        return f"{c['how']}: received {got} (function called with {calls}), expected {want} and one call with {want_args}"
    got2 = collect(o)
    if got2 != want or calls != [want_args]:
        return f"{c['how']}: a second subscriber received {got2} (function calls {calls}): the function's single result must be shared"
    return None


def case_start_async(c):
    import reactivex as rx
    f = concurrent.futures.Future()

    def factory():
        if c["factory_raises"]:
            raise Boom("factory failed")
        return f
    o = rx.start_async(factory)
    if not c["factory_raises"]:
        f.set_result(c["value"])
    got = collect(o)
    want = [("E", "Boom")] if c["factory_raises"] else [("N", repr(c["value"])), ("C",)]
    if got != want:
        return f"start_async: received {got}, expected {want}"
    return None


def case_from_callback(c):
    import reactivex as rx
    n, mapper = c["n"], c["mapper"]
    cbargs = [VALUES[i % len(VALUES)] if c.get("falsy") else i + 1 for i in range(n)]
    escaped = []

    def api(x, cb):
        try:
            cb(*cbargs)
        except BaseException as e:  # noqa: BLE001
            escaped.append(type(e).__name__)
    m = None
    if mapper == "ok":
        m = lambda args: ("mapped", tuple(args))  # noqa: E731
    elif mapper == "raises":
        def m(args):
            raise Boom("mapper failed")
    got = collect(rx.from_callback(api, m)("x"))
    if escaped:
        return f"from_callback ({n} callback arguments, mapper {mapper}): {escaped[0]} escaped into the caller of the callback; received {got}"
    if mapper == "ok":
        want = [("N", repr(("mapped", tuple(cbargs)))), ("C",)]
    elif mapper == "raises":
        want = [("E", "Boom")]
    elif n == 0:
        want = [("N", repr(None)), ("C",)]
    elif n == 1:
        want = [("N", repr(cbargs[0])), ("C",)]
    else:
        want = [("N", repr(cbargs)), ("C",)]
    if got != want:
        return f"from_callback ({n} callback arguments {cbargs}, mapper {mapper}): received {got}, expected {want}"
    return None


FUN = {"sequence": case_sequence, "from_future": case_from_future, "start": case_start, "start_async": case_start_async, "from_callback": case_from_callback}


def cases():
    for n in range(0, 4):
        for seq in itertools.product(VALUES, repeat=n):
            if n == 3 and seq[0] != 1:
                continue
            for term in ("C", "E", "F"):
                for how in ("run", "run_immediate", "to_future", "await"):
                    if how in ("run",) and n > 1:
                        continue
                    if how == "to_future" and term == "F":
                        continue  # concurrent.futures.Future.result() itself tests `if self._exception:` - CPython's business
                    yield {"kind": "sequence", "seq": list(seq), "term": term, "how": how}
    for k in ("result", "exception", "cancelled", "unsubscribe_first"):
        for v in (VALUES if k == "result" else [None]):
            for first in (True, False):
                if k == "unsubscribe_first" and not first:
                    continue
                yield {"kind": "from_future", "outcome": k, "value": v, "subscribe_first": first}
    for how in ("start", "to_async"):
        for raises in (False, True):
            for v in (VALUES if not raises else [None]):
                yield {"kind": "start", "how": how, "raises": raises, "value": v}
    for fr in (False, True):
        for v in (VALUES if not fr else [None]):
            yield {"kind": "start_async", "factory_raises": fr, "value": v}
    for n in range(0, 4):
        for mapper in (None, "ok", "raises"):
            for falsy in (False, True):
                yield {"kind": "from_callback", "n": n, "mapper": mapper, "falsy": falsy}


REPLAY_TEMPLATE = '''#!/venv/bin/python
"""Replay of a violation of property {prop} (future / callback / blocking bridges).
obligation: {oid}
case: {case}
{what}
Exit 1 when it reproduces on the tree under RXVC_REPO (default /repo)."""
import subprocess, sys
r = subprocess.run(["/venv/bin/python", "{verif}/rxvc/bridgerun.py", "case", {case!r}])
sys.exit(r.returncode)
'''


def main(argv):
    if argv[0] == "case":
        c = json.loads(argv[1])
        try:
            r = FUN[c["kind"]](c)
        except Exception as e:  # noqa: BLE001
            r = f"the case raised {e!r}"
        print(json.dumps({"violation": r}))
        sys.stdout.flush()
        os._exit(1 if r else 0)
    opts = json.loads(argv[3]) if len(argv) > 3 else {}
    n, found, all_found = 0, None, []
    for c in cases():
        n += 1
        try:
            r = FUN[c["kind"]](c)
        except Exception as e:  # noqa: BLE001
            r = f"the case raised {e!r}"
        if r:
            all_found.append({"case": c, "disagreement": r})
            if found is None:
                found = all_found[-1]
            if not opts.get("all"):
                break
    res = {"cases": n, "found": ([found] if found else []) if not opts.get("all") else all_found}
    if found and "replay_path" in opts:
        os.makedirs(os.path.dirname(opts["replay_path"]), exist_ok=True)
        with open(opts["replay_path"], "w") as f:
            f.write(REPLAY_TEMPLATE.format(prop=opts.get("prop", "C41"), oid=opts.get("oid", "?"), verif=VERIF, case=json.dumps(found["case"]), what=found["disagreement"]))
        res["replay"] = opts["replay_path"]
    print(json.dumps(res, default=repr))
    sys.stdout.flush()
    os._exit(0)


if __name__ == "__main__":
    main(sys.argv[1:])
