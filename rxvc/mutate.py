"""Must-fail obligations (vacuity guard, DESIGN §2.8): in-memory AST mutants of the function under
contract are verified and MUST fail - an engine or a contract that proves too much is exposed.
Nothing is written to /repo: the mutated source is handed to the Loader as an override."""
from __future__ import annotations

import ast
import copy
import random

from .loader import Loader

FLIP = {ast.Gt: ast.GtE, ast.GtE: ast.Gt, ast.Lt: ast.LtE, ast.LtE: ast.Lt, ast.Eq: ast.NotEq, ast.NotEq: ast.Eq,
        ast.Is: ast.IsNot, ast.IsNot: ast.Is}


def candidates(fn):
    """(description, mutator(tree_copy_node)) pairs for nodes inside fn"""
    out = []
    for n in ast.walk(fn):
        if isinstance(n, ast.Compare) and len(n.ops) == 1 and type(n.ops[0]) in FLIP:
            out.append(("flip-compare", n, None))
        elif isinstance(n, ast.UnaryOp) and isinstance(n.op, ast.Not):
            out.append(("drop-not", n, None))
        elif isinstance(n, ast.Expr) and isinstance(n.value, ast.Call) and isinstance(n.value.func, ast.Attribute) \
                and n.value.func.attr in ("on_next", "on_error", "on_completed", "dispose", "append", "pop", "clear", "remove"):
            out.append(("drop-call", n, None))
        elif isinstance(n, (ast.Assign, ast.AugAssign)) and not isinstance(getattr(n, "value", None), (ast.List, ast.Dict)):
            tg = n.targets[0] if isinstance(n, ast.Assign) else n.target
            if isinstance(tg, (ast.Name, ast.Subscript, ast.Attribute)) and isinstance(getattr(n, "value", None), (ast.Constant, ast.BinOp, ast.Name, ast.UnaryOp)):
                out.append(("drop-assign", n, None))
        elif isinstance(n, ast.BoolOp):
            out.append(("swap-boolop", n, None))
    return out


def mutants(loader: Loader, relpath: str, qualname: str, k: int, seed: int):
    """yield up to k (description, mutated source) of the file with one mutation inside the function"""
    m = loader.load_file(relpath)
    fn = loader.find(relpath, qualname)
    cands = candidates(fn)
    rnd = random.Random(f"{seed}:{relpath}:{qualname}")
    rnd.shuffle(cands)
    done = 0
    for kind, node, _ in cands:
        if done >= k:
            break
        tree = copy.deepcopy(m.tree)
        target = None
        for n in ast.walk(tree):
            if type(n) is type(node) and getattr(n, "lineno", None) == node.lineno and getattr(n, "col_offset", None) == node.col_offset:
                target = n
                break
        if target is None:
            continue
        if kind == "flip-compare":
            target.ops = [FLIP[type(target.ops[0])]()]
        elif kind == "drop-not":
            parent_fix = _replace(tree, target, target.operand)
            if not parent_fix:
                continue
        elif kind in ("drop-call", "drop-assign"):
            if not _replace(tree, target, ast.Pass()):
                continue
        elif kind == "swap-boolop":
            target.op = ast.Or() if isinstance(target.op, ast.And) else ast.And()
        try:
            src = ast.unparse(ast.fix_missing_locations(tree))
        except Exception:
            continue
        done += 1
        yield f"{kind}@{node.lineno}:{ast.unparse(node)[:60]}", src


def _replace(tree, old, new):
    for parent in ast.walk(tree):
        for field, value in ast.iter_fields(parent):
            if isinstance(value, list):
                for i, v in enumerate(value):
                    if v is old:
                        value[i] = new
                        return True
            elif value is old:
                setattr(parent, field, new)
                return True
    return False


def must_fail(make_harness, relpath, qualname, k=3, seed=0):
    """run `make_harness(loader)` on k mutants; returns dict(mutants, killed, survivors)"""
    base = Loader()
    res = {"mutants": 0, "killed": 0, "survivors": []}
    for desc, src in mutants(base, relpath, qualname, k, seed):
        ld = Loader()
        ld.overrides = {relpath: src}
        h = make_harness(ld).run()
        res["mutants"] += 1
        if h.unsupported or any(r.verdict != "proved" for r in h.results):
            res["killed"] += 1
        else:
            res["survivors"].append(desc)
    return res
