"""K7 lock-set conditions (C43): unit runner.  Re-runs the K1 harness of a combinator with lock-set
obligations switched on and reports only those: every call on the downstream observer, on every path
of every handler (pass-through handlers included), is made while the operator's one lock is held - or
under an exclusive guard (amb: pairwise exclusive, stable, written only under the lock) - and every
mutation of a state cell list happens under that lock; so two sources emitting from different threads
are never inside the downstream observer at the same time (given the RLock contract), and the notification
grammar under concurrency follows from the sequential K1 proof because the critical sections serialise.

A refuted obligation is replayed natively by racerun.py (two real threads, one held inside the downstream
observer).  In the thorough tier the same runner also searches all event pairs as a bounded cross-check."""
from __future__ import annotations

import importlib
import json
import os

#: K1 contract name -> racerun operator name
RACE_NAME = {"merge_all": "merge_all", "merge_concurrent": "merge(max_concurrent)", "amb": "amb"}


def race_name(cname):
    return RACE_NAME.get(cname, cname.split("/")[0])


def race_search(name, prop, budget_s=60):
    from .report import native, VERIF
    res, err = native([os.path.join(VERIF, "rxvc", "racerun.py"), "replay", "-", name,
                       json.dumps({"budget_s": budget_s, "prop": prop})], timeout=budget_s + 60)
    return res, err


def bounded_entry(results, bounded, label, name, prop):
    """thorough tier: the native race search as a bounded cross-check of the proved discipline"""
    res, err = race_search(name, prop)
    if res is None:
        bounded.append({"function": label, "bound": "native race search did not run: " + str(err)[:200], "cases": 0})
        return
    if res.get("found"):
        results.append({"id": f"{label}/race-search/no-two-threads-inside-downstream", "verdict": "refuted", "backend": "racerun (native)",
                        "model": res["found"][0], "path": [], "detail": json.dumps(res["found"][0], default=repr)[:400],
                        "seconds": 0.0, "kind": "lockset",
                        "replay_info": {"runner": "racerun.py", "module": "-", "name": name, "mode": "replay"}})
    else:
        bounded.append({"function": label, "bound": "racerun: all ordered pairs of one event each from two different sources "
                                                    "(or the pending timer) after each listed prefix, thread A held inside the downstream "
                                                    "observer while thread B runs", "cases": res.get("cases", 0)})


def standin(rep, label, name, prop):
    """the unit drifted out of the verifier's subset: the bounded native race search decides this run (never counted as proved)"""
    from .report import native, VERIF, REPLAY_DIR
    path = os.path.join(REPLAY_DIR, f"{prop}-standin-{name.replace('/', '_').replace('(', '_').replace(')', '').replace('*', '')}.py")
    res, err = native([os.path.join(VERIF, "rxvc", "racerun.py"), "replay", "-", name,
                       json.dumps({"budget_s": 60, "prop": prop, "oid": label + "/bounded-standin", "replay_path": path})], timeout=150)
    st = res if res is not None else {"found": [], "error": err, "cases": 0}
    rep["standin"] = st
    rep["bounded"].append({"function": label, "bound": "racerun: ordered pairs of one event each from two different sources after each listed prefix",
                           "cases": st.get("cases", 0), "mismatches": len(st.get("found", [])), "role": "stand-in (out of subset)"})


def run_unit(desc):
    from . import registry
    from .refine import OpHarness

    mod = importlib.import_module(desc["module"])
    c = next(x for x in mod.CONTRACTS if x.name == desc["name"])
    callees = []
    for m in registry.OP_MODULES:
        callees.extend(getattr(importlib.import_module(m), "CONTRACTS", []))
    h = OpHarness(c, callees=callees)
    h.lockset = True
    h.run()
    res = [r.as_dict() for r in h.results if r.kind == "lockset"]
    label = c.uid + (f"[{c.name}]" if "/" in c.name else "")
    rinfo = {"runner": "racerun.py", "module": "-", "name": race_name(c.name), "mode": "replay"}
    for r in res:
        if r["verdict"] == "refuted":
            r["replay_info"] = rinfo
    bounded = []
    rep = {
        "unit": label,
        "kind": "K7 lock-set conditions (symbolic, path-sensitive)",
        "functions": h.functions,
        "results": res,
        "unsupported": h.unsupported,
        "spec_validation": [],
        "bounded": bounded,
    }
    if h.unsupported:
        standin(rep, label, race_name(c.name), desc.get("prop", "C43"))
    elif desc.get("tier") == "thorough":
        bounded_entry(res, bounded, label, race_name(c.name), desc.get("prop", "C43"))
    return rep
