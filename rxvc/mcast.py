"""C24: contracts for multicasting, discharged on the real code.

The source and the subscribers are opaque (subscribe calls are recorded, a subscription is an opaque disposable), subjects
are opaque objects except where the code constructs them (then the real class is instantiated and only its class and
constructor arguments matter - what a subject delivers to whom is C20-C23), the library's Disposable / CompositeDisposable
run for real.  Call-outs may RE-ENTER the operator (a subscriber that subscribes or unsubscribes from inside subscribe):
after every call-out the counters of ref_count / auto_connect are arbitrary.

  ConnectableObservable.connect    (state: connected with subscription D0 / not connected)
        not connected: subscribes the SUBJECT to the source exactly once, marks itself connected and returns a disposable
        that holds that subscription; disposing it disposes the source subscription once and marks it disconnected (so the
        next connect subscribes again);  connected: subscribes nothing and returns the SAME disposable D0.
  ConnectableObservable._subscribe_core    subscribes the observer to the subject, nothing else (a subscriber sees exactly what
        the subject gives it from then on).
  ref_count    (any count >= 0) subscribes the observer to the connectable once and BEFORE connecting; connects iff the count
        was 0 when this subscription started - decided before any call-out; the returned disposable unsubscribes, decrements,
        and disconnects iff the count returned to 0; a second dispose does nothing.
  auto_connect(n)    n == 0: connects at once, before any subscriber; otherwise the k-th subscription connects iff k == n and
        it is not connected; every subscription subscribes the observer to the connectable exactly once.
  multicast_    subject form: ConnectableObservable(source, that subject);  no subject and no factory: ValueError;
        factory form, per subscription: ONE subject from the factory (called with the scheduler), a connectable over it, the
        mapper's result subscribed with the observer and THEN connect; both are held by the returned disposable.
  publish_ / replay_ / publish_value_ / share_    multicast over Subject() / ReplaySubject(buffer_size, window, scheduler) /
        BehaviorSubject(initial_value), created per application (or per subscription in the mapper form); share = publish
        followed by ref_count.
"""
from __future__ import annotations

import time

import z3

from . import smt
from .interp import NOTSET, Interp, World, explore
from .loader import Loader, all_functions
from .refine import Result
from .values import SV, BoundMethod, Closure, IntSV, ListObj, Native, Obj, Opaque, PathEnd, PyExc, Unsupported
from .catchsched import conj, same

CFILE = "reactivex/observable/connectableobservable.py"
RFILE = "reactivex/operators/connectable/_refcount.py"
OPS = "reactivex/operators/"


class MWorld(World):
    def __init__(self):
        super().__init__()
        self.log = []
        self.n = 0
        self.reenter = None

    def truthy(self, it, o):
        return True

    def call(self, it, o, method, args, kwargs):
        if o.kind in ("source", "subject", "connectable", "mapped") and method == "subscribe":
            self.n += 1
            d = Opaque("disposable", f"sub:{o.name}#{self.n}")
            self.log.append(("subscribe", o, list(args), dict(kwargs), d))
            if getattr(self, "probe", None) is not None:
                self.__dict__.setdefault("probes", []).append(self.probe())
            if self.reenter is not None:
                self.reenter(it)
            return d
        if o.kind == "connectable" and method == "connect":
            self.n += 1
            d = Opaque("disposable", f"connection#{self.n}")
            self.log.append(("connect", o, list(args), dict(kwargs), d))
            if self.reenter is not None:
                self.reenter(it)
            return d
        if o.kind == "source" and method == "pipe":
            r = o
            for op in args:
                r = it.call(op, [r], {})
            return r
        if o.kind == "disposable" and method == "dispose":
            self.log.append(("dispose", o))
            if self.reenter is not None:
                self.reenter(it)
            return None
        if o.kind == "callback":
            self.log.append(("call", o, list(args)))
            r = o.attrs.get("returns")
            return r(it, args) if callable(r) else r
        if o.kind in ("lock", "logger"):
            return None
        return super().call(it, o, method, args, kwargs)


class McastHarness:
    def __init__(self, loader=None):
        self.loader = loader or Loader()
        self.results = []
        self.unsupported = None
        self.functions = {}

    def rec(self, ctx, oid, goal, detail=""):
        t0 = time.time()
        if isinstance(goal, bool):
            goal = z3.BoolVal(goal)
        v, m, b = smt.prove(ctx.pc, goal)
        ctx.results.append(Result(oid, v, b, smt.model_to_dict(m), list(ctx.branch_log), detail, time.time() - t0, "post"))

    def setup(self, ctx):
        w = self.w = MWorld()
        it = Interp(self.loader, ctx, w)
        self.observer = Opaque("observer", "observer")
        self.sched = Opaque("scheduler", "sched")
        return it

    def ev(self, kind):
        return [e for e in self.w.log if e[0] == kind]

    def sub_fn(self, obs):
        sub = obs.fields.get("_subscribe") if isinstance(obs, Obj) else None
        if not isinstance(sub, Closure):
            raise Unsupported("the operator did not return Observable(subscribe)")
        return sub

    # -- ConnectableObservable ----------------------------------------------------------------------------------
    def make_connectable(self, it):
        cls = it.module_get("reactivex.observable.connectableobservable", "ConnectableObservable")
        self.src = Opaque("source", "source")
        self.subject = Opaque("subject", "subject")
        return it.call(cls, [self.src, self.subject], {})

    def run_connect(self, ctx):
        it = self.setup(ctx)
        w = self.w
        uid = f"{CFILE}::ConnectableObservable.connect"
        c = self.make_connectable(it)
        self.rec(ctx, f"{CFILE}::ConnectableObservable.__init__/starts-disconnected-over-the-given-source-and-subject",
                 c.fields.get("has_subscription") is False and c.fields.get("source") is self.src and c.fields.get("subject") is self.subject)
        connected = ctx.choose(2, "already connected") == 0
        D0 = Opaque("disposable", "existing_connection")
        c.fields["has_subscription"] = connected
        c.fields["subscription"] = D0 if connected else (None if ctx.choose(2, "stale subscription") == 0 else Opaque("disposable", "stale"))
        w.log.clear()
        w.probes = []
        w.probe = lambda: c.fields.get("has_subscription")
        D = it.call(it.get_attr(c, "connect"), [self.sched], {})
        w.probe = None
        subs = self.ev("subscribe")
        if connected:
            self.rec(ctx, uid + "/connected/subscribes-nothing", not subs)
            self.rec(ctx, uid + "/connected/returns-the-same-connection", D is D0 and c.fields.get("has_subscription") is True)
            return
        ok = len(subs) == 1 and subs[0][1] is self.src and subs[0][2] and subs[0][2][0] is self.subject and subs[0][3].get("scheduler") is self.sched
        self.rec(ctx, uid + "/disconnected/subscribes-the-subject-to-the-source-exactly-once", ok)
        self.rec(ctx, uid + "/disconnected/marks-itself-connected-and-keeps-the-connection", c.fields.get("has_subscription") is True and c.fields.get("subscription") is D)
        # call-out discipline: the source may emit from inside subscribe and a subscriber may call connect() again from there -
        # the 'already connected' guard has to be armed before the call-out
        self.rec(ctx, uid + "/disconnected/is-marked-connected-before-the-source-is-subscribed", w.probes == [True],
                 detail="has_subscription is still False while source.subscribe runs: a nested connect() subscribes the source a second time")
        if not ok:
            return
        w.log.clear()
        it.call(it.get_attr(D, "dispose"), [], {})
        self.rec(ctx, uid + "/disconnect/disposes-the-source-subscription-once-and-marks-itself-disconnected",
                 [e[1] for e in self.ev("dispose")] == [subs[0][4]] and c.fields.get("has_subscription") is False)
        w.log.clear()
        it.call(it.get_attr(D, "dispose"), [], {})
        self.rec(ctx, uid + "/disconnect/a-second-dispose-does-nothing", not w.log)

    def run_subscribe_core(self, ctx):
        it = self.setup(ctx)
        uid = f"{CFILE}::ConnectableObservable._subscribe_core"
        c = self.make_connectable(it)
        self.w.log.clear()
        r = it.call(it.get_attr(c, "_subscribe_core"), [self.observer, self.sched], {})
        subs = self.ev("subscribe")
        self.rec(ctx, uid + "/subscribes-the-observer-to-the-subject-and-nothing-else",
                 len(subs) == 1 and subs[0][1] is self.subject and subs[0][2][0] is self.observer and len(self.w.log) == 1 and r is subs[0][4])

    # -- ref_count -------------------------------------------------------------------------------------------------
    def run_ref_count(self, ctx):
        it = self.setup(ctx)
        w = self.w
        uid = f"{RFILE}::ref_count_"
        conn = Opaque("connectable", "connectable")
        f = it.module_get("reactivex.operators.connectable._refcount", "ref_count_")
        obs = it.call(it.call(f, [], {}), [conn], {})
        sub = self.sub_fn(obs)
        env = sub.env
        e_count, e_cs = env.lookup_env("count"), env.lookup_env("connectable_subscription")
        if e_count is None or e_cs is None:
            raise Unsupported("ref_count_: no `count` / `connectable_subscription` cells (drift)")
        from .cells import require_known
        require_known(sub, {"count", "connectable_subscription"}, uid)
        self.rec(ctx, uid + "/application/starts-with-no-subscriber-and-no-connection", e_count.vars["count"] == 0 and e_cs.vars["connectable_subscription"] is None)
        n0 = ctx.fresh("count", "int")
        ctx.assume(n0.t >= 0)
        e_count.vars["count"] = n0
        existing = Opaque("disposable", "existing_connection")
        zero = ctx.branch(n0.t == 0, "no subscriber yet")
        e_cs.vars["connectable_subscription"] = None if zero else existing

        def reenter(it_):
            # a call-out may subscribe / unsubscribe others: the count is arbitrary afterwards
            v = ctx.fresh("count_after_callout", "int")
            ctx.assume(v.t >= 0)
            e_count.vars["count"] = v
        w.reenter = reenter
        w.log.clear()
        D = it.call(sub, [self.observer, self.sched], {})
        w.reenter = None
        subs, conns = self.ev("subscribe"), self.ev("connect")
        ok = len(subs) == 1 and subs[0][1] is conn and subs[0][2][0] is self.observer
        self.rec(ctx, uid + "/subscribe/subscribes-the-observer-to-the-connectable-exactly-once", ok)
        self.rec(ctx, uid + "/subscribe/an-arriving-subscriber-disposes-nothing", not self.ev("dispose"),
                 detail=f"disposed while subscribing: {[getattr(e[1], 'name', e[1]) for e in self.ev('dispose')]!r}")
        self.rec(ctx, uid + "/subscribe/connects-iff-this-is-the-first-subscriber", len(conns) == (1 if zero else 0),
                 detail="decided from the count as it was when the subscription started, not after a call-out")
        if conns and subs:
            self.rec(ctx, uid + "/subscribe/subscribes-before-connecting", w.log.index(subs[0]) < w.log.index(conns[0]))
            self.rec(ctx, uid + "/subscribe/keeps-the-connection", e_cs.vars["connectable_subscription"] is conns[0][4])
        if not ok:
            return
        # dispose from an arbitrary later count >= 1
        n1 = ctx.fresh("count_at_dispose", "int")
        ctx.assume(n1.t >= 1)
        e_count.vars["count"] = n1
        connection = Opaque("disposable", "connection")
        e_cs.vars["connectable_subscription"] = connection
        last = ctx.branch(n1.t == 1, "last subscriber")
        w.log.clear()
        it.call(it.get_attr(D, "dispose"), [], {})
        disposed = [e[1] for e in self.ev("dispose")]
        self.rec(ctx, uid + "/dispose/unsubscribes-this-observer", any(d is subs[0][4] for d in disposed))
        self.rec(ctx, uid + "/dispose/decrements-the-count", it.to_int(e_count.vars["count"]) == n1.t - 1)
        self.rec(ctx, uid + "/dispose/disconnects-iff-it-was-the-last-subscriber", any(d is connection for d in disposed) == last)
        w.log.clear()
        cnt = e_count.vars["count"]
        it.call(it.get_attr(D, "dispose"), [], {})
        self.rec(ctx, uid + "/dispose/a-second-dispose-does-nothing", not w.log and same(e_count.vars["count"], cnt) is not False)

    # -- auto_connect -----------------------------------------------------------------------------------------------
    def run_auto_connect(self, ctx):
        it = self.setup(ctx)
        w = self.w
        uid = f"{CFILE}::ConnectableObservable.auto_connect"
        c = self.make_connectable(it)
        # observe connect() / subscribe() of the connectable itself
        connects, csubs = [], []

        def hook(it_, f, args, kwargs):
            fn = f.func if isinstance(f, BoundMethod) else f
            q = getattr(fn, "qualname", None) if isinstance(fn, Closure) else None
            if isinstance(f, BoundMethod) and f.self_val is c and q == "ConnectableObservable.connect":
                d = Opaque("disposable", f"connection#{len(connects)}")
                connects.append((list(args), d, len(w.log)))
                w.log.append(("connect", c))
                return d
            if isinstance(f, BoundMethod) and f.self_val is c and q == "Observable.subscribe":
                d = Opaque("disposable", f"csub#{len(csubs)}")
                csubs.append((list(args), d))
                w.log.append(("csubscribe", c))
                return d
            return NOTSET
        it.call_hook = hook
        n = ctx.fresh("n", "int")
        ctx.assume(n.t >= 0)
        zero = ctx.branch(n.t == 0, "auto_connect(0)")
        obs = it.call(it.get_attr(c, "auto_connect"), [n], {})
        self.rec(ctx, uid + "/application/connects-at-once-iff-the-count-is-zero", len(connects) == (1 if zero else 0))
        sub = self.sub_fn(obs)
        env = sub.env
        e_count, e_conn = env.lookup_env("count"), env.lookup_env("is_connected")
        if e_count is None or e_conn is None:
            raise Unsupported("auto_connect: no `count` / `is_connected` cells (drift)")
        from .cells import require_known
        self.cells_seen = require_known(sub, {"count", "is_connected", "connectable_subscription"}, uid)
        k = ctx.fresh("arrived", "int")
        ctx.assume(k.t >= 0)

        # the cells are one-element lists or plain closure variables (`nonlocal`): either way "the value of the cell"
        def cell_set(e, name, val):
            cur = e.vars[name]
            if isinstance(cur, ListObj) and not cur.symbolic and len(cur.items) == 1:
                cur.items[0] = val
            else:
                e.vars[name] = val

        def cell_get(e, name):
            cur = e.vars[name]
            return cur.items[0] if isinstance(cur, ListObj) and not cur.symbolic and len(cur.items) == 1 else cur
        cell_set(e_count, "count", k)
        was_connected = ctx.choose(2, "already connected") == 0
        cell_set(e_conn, "is_connected", was_connected)
        # the handle of an earlier connection may be held (the count went up to n, down, and comes up again): arbitrary, like the counters
        e_held = env.lookup_env("connectable_subscription")
        earlier = Opaque("disposable", "connection-made-earlier")
        if e_held is not None and ctx.choose(2, "a connection made earlier is held") == 0:
            cell_set(e_held, "connectable_subscription", earlier)
        del connects[:]
        w.log.clear()
        D = it.call(sub, [self.observer, self.sched], {})
        self.rec(ctx, uid + "/subscribe/subscribes-the-observer-to-the-connectable-exactly-once", len(csubs) == 1 and csubs[0][0] and csubs[0][0][0] is self.observer)
        self.rec(ctx, uid + "/subscribe/an-arriving-subscriber-disposes-nothing (stays connected indefinitely)", not self.ev("dispose"),
                 detail=f"disposed while subscribing: {[getattr(e[1], 'name', e[1]) for e in self.ev('dispose')]!r}")
        should = ctx.branch(z3.And(k.t + 1 == n.t, z3.BoolVal(not was_connected)), "the n-th subscriber and not yet connected")
        self.rec(ctx, uid + "/subscribe/connects-exactly-when-the-n-th-subscriber-arrives", len(connects) == (1 if should else 0))
        self.rec(ctx, uid + "/subscribe/counts-the-subscriber", it.to_int(cell_get(e_count, "count")) == k.t + 1)
        if csubs:
            w.log.clear()
            orig = self.w.call
            it.call(it.get_attr(D, "dispose"), [], {})
            self.rec(ctx, uid + "/dispose/unsubscribes-this-observer-once", [e[1] for e in self.ev("dispose")] == [csubs[0][1]])
            _ = orig

    # -- multicast and friends ----------------------------------------------------------------------------------------
    def run_multicast(self, ctx):
        it = self.setup(ctx)
        w = self.w
        uid = OPS + "_multicast.py::multicast_"
        f = it.module_get("reactivex.operators._multicast", "multicast_")
        src = Opaque("source", "source")
        form = ctx.choose(3, "form")  # subject / factory + mapper / nothing
        if form == 0:
            subj = Opaque("subject", "subject")
            r = it.call(it.call(f, [subj], {}), [src], {})
            self.rec(ctx, uid + "/subject-form/is-a-connectable-over-the-source-and-that-subject",
                     isinstance(r, Obj) and r.cls.name == "ConnectableObservable" and r.fields.get("source") is src and r.fields.get("subject") is subj
                     and r.fields.get("has_subscription") is False)
            return
        if form == 2:
            raised = None
            try:
                it.call(it.call(f, [None], {}), [src], {})
            except PyExc as e:
                raised = e.value
            self.rec(ctx, uid + "/no-subject/raises-ValueError", isinstance(raised, Obj) and raised.cls.name == "ValueError")
            return
        made = []

        def fresh_subject(it_, args):
            s = Opaque("subject", f"subject#{len(made)}")
            made.append((s, list(args)))
            return s
        factory = Opaque("callback", "subject_factory", returns=fresh_subject)
        mapped = Opaque("mapped", "mapped")
        seen = []

        def mapper_fn(it_, args):
            seen.append(args[0])
            return mapped
        mapper = Opaque("callback", "mapper", returns=mapper_fn)
        obs = it.call(it.call(f, [], {"subject_factory": factory, "mapper": mapper}), [src], {})
        self.rec(ctx, uid + "/factory-form/nothing-happens-at-application", not w.log)
        sub = self.sub_fn(obs)
        connects = []

        def hook(it_, fn_, args, kwargs):
            fn = fn_.func if isinstance(fn_, BoundMethod) else fn_
            q = getattr(fn, "qualname", None) if isinstance(fn, Closure) else None
            if q == "ConnectableObservable.connect" and isinstance(fn_, BoundMethod):
                d = Opaque("disposable", "connection")
                connects.append((fn_.self_val, list(args), d))
                w.log.append(("connect", fn_.self_val))
                return d
            return NOTSET
        it.call_hook = hook
        w.log.clear()
        D = it.call(sub, [self.observer, self.sched], {})
        self.rec(ctx, uid + "/factory-form/one-subject-from-the-factory-called-with-the-scheduler", len(made) == 1 and made[0][1] == [self.sched])
        ok = len(seen) == 1 and isinstance(seen[0], Obj) and seen[0].cls.name == "ConnectableObservable" and made and seen[0].fields.get("subject") is made[0][0] \
            and seen[0].fields.get("source") is src
        self.rec(ctx, uid + "/factory-form/the-mapper-gets-a-connectable-over-the-source-and-that-subject", ok)
        subs = self.ev("subscribe")
        self.rec(ctx, uid + "/factory-form/the-mapper's-result-is-subscribed-with-the-observer", len(subs) == 1 and subs[0][1] is mapped and subs[0][2][0] is self.observer)
        self.rec(ctx, uid + "/factory-form/connects-that-connectable-after-subscribing", len(connects) == 1 and ok and connects[0][0] is seen[0]
                 and bool(subs) and w.log.index(subs[0]) < [i for i, e in enumerate(w.log) if e[0] == "connect"][0])
        if subs and connects:
            w.log.clear()
            it.call(it.get_attr(D, "dispose"), [], {})
            got = [e[1] for e in self.ev("dispose")]
            self.rec(ctx, uid + "/factory-form/the-result-holds-the-subscription-and-the-connection",
                     len(got) == 2 and any(g is subs[0][4] for g in got) and any(g is connects[0][2] for g in got))

    def run_friends(self, ctx):
        it = self.setup(ctx)
        w = self.w
        src = Opaque("source", "source")
        which = ("publish", "replay", "publish_value", "share", "mapper-forms")[ctx.choose(5, "operator")]
        if which == "mapper-forms":
            # publish(mapper) / publish_value(v, mapper) / replay(mapper, n, w): multicast(subject_factory=F, mapper=mapper) where every call of F
            # makes a NEW subject of the operator's kind with the operator's arguments (one subject per subscription of the result)
            op = ("publish", "publish_value", "replay")[ctx.choose(3, "which mapper form")]
            mapper = Opaque("callback", "mapper")
            seen = []

            def hook(it_, fn_, args, kwargs):
                fn = fn_.func if isinstance(fn_, BoundMethod) else fn_
                if isinstance(fn, Closure) and fn.module is not None and fn.module.name == "reactivex.operators" and fn.qualname == "multicast":
                    seen.append((list(args), dict(kwargs)))
                    return lambda_op
                if getattr(fn_, "name", None) == "ReplaySubject" and hasattr(fn_, "node"):
                    s_ = Opaque("subject", f"replay_subject#{len(made)}")
                    made.append((s_, list(args), dict(kwargs)))
                    return s_
                return NOTSET
            made = []
            lambda_op = Native("multicast-operator", lambda it_, a, k: Opaque("observable", "multicast-result", applied_to=a[0] if a else None))
            it.call_hook = hook
            v = ctx.fresh("initial", "val")
            b, wnd = ctx.fresh("buffer_size", "int"), ctx.fresh("window", "int")
            if op == "publish":
                uid = OPS + "_publish.py::publish_"
                f = it.module_get("reactivex.operators._publish", "publish_")
                r = it.call(it.call(f, [mapper], {}), [src], {})
            elif op == "publish_value":
                uid = OPS + "_publishvalue.py::publish_value_"
                f = it.module_get("reactivex.operators._publishvalue", "publish_value_")
                r = it.call(it.call(f, [v, mapper], {}), [src], {})
            else:
                uid = OPS + "_replay.py::replay_"
                f = it.module_get("reactivex.operators._replay", "replay_")
                r = it.call(it.call(f, [mapper, b, wnd, self.sched], {}), [src], {})
            ok = len(seen) == 1 and not seen[0][0] and set(seen[0][1]) == {"subject_factory", "mapper"} and seen[0][1]["mapper"] is mapper \
                and isinstance(r, Opaque) and r.name == "multicast-result" and r.attrs.get("applied_to") is src
            self.rec(ctx, uid + "/mapper-form/is-multicast-with-a-subject-factory-and-the-given-mapper-over-the-source", ok, detail=f"{seen!r} -> {r!r}")
            if not ok:
                return
            F = seen[0][1]["subject_factory"]
            s1 = it.call(F, [self.sched], {})
            s2 = it.call(F, [self.sched], {})
            if op == "replay":
                okf = len(made) == 2 and s1 is made[0][0] and s2 is made[1][0] and len(made[0][1]) + len(made[0][2]) == 3
                self.rec(ctx, uid + "/mapper-form/every-call-of-the-factory-makes-a-new-ReplaySubject", okf, detail=f"{made!r}")
                if okf:
                    a = made[0][1] + list(made[0][2].values())
                    self.rec(ctx, uid + "/mapper-form/the-subject-gets-buffer_size-and-window", conj([same(a[0], b), same(a[1], wnd)]))
            else:
                cname = "Subject" if op == "publish" else "BehaviorSubject"
                okf = isinstance(s1, Obj) and isinstance(s2, Obj) and s1.cls.name == cname and s2.cls.name == cname and s1 is not s2
                self.rec(ctx, uid + f"/mapper-form/every-call-of-the-factory-makes-a-new-{cname}", okf, detail=f"{s1!r} {s2!r}")
                if okf and op == "publish_value":
                    self.rec(ctx, uid + "/mapper-form/the-subject-starts-with-the-initial-value", conj([same(s1.fields.get("value"), v), same(s2.fields.get("value"), v)]))
            return
        if which == "publish":
            uid = OPS + "_publish.py::publish_"
            f = it.module_get("reactivex.operators._publish", "publish_")
            r = it.call(it.call(f, [None], {}), [src], {})
            r2 = it.call(it.call(f, [None], {}), [src], {})
            ok = isinstance(r, Obj) and r.cls.name == "ConnectableObservable" and r.fields.get("source") is src and isinstance(r.fields.get("subject"), Obj) \
                and r.fields["subject"].cls.name == "Subject"
            self.rec(ctx, uid + "/is-a-connectable-over-the-source-and-a-new-Subject", ok)
            self.rec(ctx, uid + "/every-application-gets-its-own-subject", ok and isinstance(r2, Obj) and r2.fields.get("subject") is not r.fields.get("subject"))
        elif which == "replay":
            uid = OPS + "_replay.py::replay_"
            f = it.module_get("reactivex.operators._replay", "replay_")
            made = []

            def hook(it_, fn_, args, kwargs):
                if getattr(fn_, "name", None) == "ReplaySubject" and hasattr(fn_, "node"):
                    s = Opaque("subject", f"replay_subject#{len(made)}")
                    made.append((s, list(args), dict(kwargs)))
                    return s
                return NOTSET
            it.call_hook = hook
            b, wnd = ctx.fresh("buffer_size", "int"), ctx.fresh("window", "int")
            op = it.call(f, [None, b, wnd, self.sched], {})
            r = it.call(op, [src], {})
            r2 = it.call(op, [src], {})
            ok = isinstance(r, Obj) and r.cls.name == "ConnectableObservable" and r.fields.get("source") is src and len(made) == 2 and r.fields.get("subject") is made[0][0]
            self.rec(ctx, uid + "/is-a-connectable-over-the-source-and-a-new-ReplaySubject", ok)
            if ok:
                a = made[0][1]
                self.rec(ctx, uid + "/the-subject-gets-buffer_size-window-and-scheduler", len(a) == 3 and conj([same(a[0], b), same(a[1], wnd)]) if a[2] is self.sched else False)
                self.rec(ctx, uid + "/every-application-gets-its-own-subject", r2.fields.get("subject") is made[1][0])
        elif which == "publish_value":
            uid = OPS + "_publishvalue.py::publish_value_"
            f = it.module_get("reactivex.operators._publishvalue", "publish_value_")
            v = ctx.fresh("initial", "val")
            op = it.call(f, [v], {})
            r = it.call(op, [src], {})
            r2 = it.call(op, [src], {})
            s = r.fields.get("subject") if isinstance(r, Obj) else None
            ok = isinstance(r, Obj) and r.cls.name == "ConnectableObservable" and r.fields.get("source") is src and isinstance(s, Obj) and s.cls.name == "BehaviorSubject"
            self.rec(ctx, uid + "/is-a-connectable-over-the-source-and-a-new-BehaviorSubject", ok)
            if ok:
                self.rec(ctx, uid + "/the-subject-starts-with-the-initial-value", same(s.fields.get("value"), v))
                self.rec(ctx, uid + "/every-application-gets-its-own-subject", r2.fields.get("subject") is not s)
        else:
            uid = OPS + "_publish.py::share_"
            f = it.module_get("reactivex.operators._publish", "share_")
            stages = []

            def hook(it_, fn_, args, kwargs):
                fn = fn_.func if isinstance(fn_, BoundMethod) else fn_
                q = getattr(fn, "qualname", None) if isinstance(fn, Closure) else None
                if q == "publish_":
                    stages.append(("publish", list(args)))
                    return Opaque("connectable", "published")
                if q == "ref_count_.ref_count":
                    stages.append(("ref_count", list(args)))
                    return Opaque("observable", "shared")
                return NOTSET
            it.call_hook = hook
            r = it.call(it.call(f, [], {}), [src], {})
            ok = [s[0] for s in stages] == ["publish", "ref_count"] and isinstance(r, Opaque) and r.name == "shared" \
                and isinstance(stages[1][1][0], Opaque) and stages[1][1][0].name == "published"
            self.rec(ctx, uid + "/is-publish-followed-by-ref_count", ok, detail=f"{[s[0] for s in stages]}")
        _ = w

    def run(self):
        t0 = time.time()
        try:
            for rel, fn in ((CFILE, "ConnectableObservable"), (RFILE, "ref_count_"), (OPS + "_multicast.py", "multicast_"), (OPS + "_publish.py", "publish_"),
                            (OPS + "_publish.py", "share_"), (OPS + "_replay.py", "replay_"), (OPS + "_publishvalue.py", "publish_value_")):
                node = self.loader.find(rel, fn)
                self.functions[f"{rel}::{fn}"] = self.loader.sha(rel, fn)
                for q, n in all_functions(node, fn):
                    self.functions[f"{rel}::{q}"] = self.loader.sha(rel, q)
            for f in (self.run_connect, self.run_subscribe_core, self.run_ref_count, self.run_auto_connect, self.run_multicast, self.run_friends):
                for p in explore(f):
                    self.results.extend(p.results)
        except Unsupported as e:
            self.unsupported = str(e)
        except PyExc as e:
            self.unsupported = f"interpreter-level exception: {e.value!r} {getattr(e.value, 'fields', '')}"
        self.seconds = time.time() - t0
        return self


MUTANTS = {
    CFILE: {
        "reconnects while connected": ("        if not self.has_subscription:\n            self.has_subscription = True", "        if True:\n            self.has_subscription = True"),
        "disconnect keeps the flag": ("            def dispose() -> None:\n                self.has_subscription = False", "            def dispose() -> None:\n                pass"),
        "observer subscribed to the source": ("        return self.subject.subscribe(observer, scheduler=scheduler)", "        return self.source.subscribe(observer, scheduler=scheduler)"),
        "auto_connect one subscriber late": ("            should_connect = count[0] == subscriber_count and not is_connected[0]", "            should_connect = count[0] == subscriber_count + 1 and not is_connected[0]"),
    },
    RFILE: {
        "count read after the call-out": ("            should_connect = count == 1\n            subscription = source.subscribe(observer, scheduler=scheduler)\n            if should_connect:",
                                          "            subscription = source.subscribe(observer, scheduler=scheduler)\n            if count == 1:"),
        "never disconnects": ("                if not count and connectable_subscription:\n                    connectable_subscription.dispose()", "                pass"),
        "connects before subscribing": ("            subscription = source.subscribe(observer, scheduler=scheduler)\n            if should_connect:\n                connectable_subscription = source.connect(scheduler)",
                                        "            if should_connect:\n                connectable_subscription = source.connect(scheduler)\n            subscription = source.subscribe(observer, scheduler=scheduler)"),
    },
    OPS + "_multicast.py": {
        "connects before subscribing the mapped observable": ("                subscription = mapper(connectable).subscribe(\n                    observer, scheduler=scheduler\n                )\n\n                return CompositeDisposable(subscription, connectable.connect(scheduler))",
                                                              "                c = connectable.connect(scheduler)\n                subscription = mapper(connectable).subscribe(\n                    observer, scheduler=scheduler\n                )\n\n                return CompositeDisposable(subscription, c)"),
    },
    OPS + "_publishvalue.py": {"initial value dropped": ("        subject = BehaviorSubject(initial_value)\n        return ops.multicast(subject)(source)",
                                                         "        subject = BehaviorSubject(None)\n        return ops.multicast(subject)(source)")},
}


def must_fail():
    out = {"mutants": 0, "killed": 0, "survivors": []}
    for rel, ms in MUTANTS.items():
        src = Loader().load_file(rel).src
        for name, (a, b) in ms.items():
            if a not in src:
                continue
            ld = Loader()
            ld.overrides = {rel: src.replace(a, b, 1)}
            h = McastHarness(ld).run()
            out["mutants"] += 1
            if h.unsupported or any(r.verdict == "refuted" for r in h.results):
                out["killed"] += 1
            else:
                out["survivors"].append(f"{rel}: {name}")
    return out


def run_unit(desc):
    import json
    import os
    h = McastHarness().run()
    res = [r.as_dict() for r in h.results]
    rep = {
        "unit": f"{CFILE}::multicasting",
        "kind": "function / closure contracts for connectables, ref_count, auto_connect and the multicast family",
        "functions": h.functions,
        "results": res,
        "unsupported": h.unsupported,
        "spec_validation": [],
        "bounded": [],
        "replayable": {"runner": "mcastrun.py", "module": "-", "name": "C24"},
    }
    if desc.get("tier") == "thorough" and not h.unsupported:
        mf = must_fail()
        rep["must_fail"] = dict(mf, unit=rep["unit"])
        if mf["mutants"] and mf["killed"] < mf["mutants"]:
            rep["crash"] = f"vacuity: must-fail mutants survived: {mf['survivors']}"
    if h.unsupported or desc.get("tier") == "thorough":
        from .report import native, VERIF, REPLAY_DIR
        r, err = native([os.path.join(VERIF, "rxvc", "mcastrun.py"), "replay", "-", "C24",
                         json.dumps({"replay_path": os.path.join(REPLAY_DIR, "C24-standin.py"), "prop": "C24", "max_len": 4,
                                     "oid": rep["unit"] + "/bounded-standin"})], timeout=250)
        st = r if r is not None else {"found": [], "error": err, "cases": 0}
        rep["bounded"].append({"function": rep["unit"], "bound": "mcastrun.py: all histories of length <= 4 of subscribe/unsubscribe (2 subscribers), connect, "
                               "disconnect, emit over hot and cold sources for share, publish, replay(2), publish_value, auto_connect(0..2); "
                               "two re-entrant ref_count cases", "cases": st.get("cases", 0), "mismatches": len(st.get("found", [])),
                               "role": "stand-in (out of subset)" if h.unsupported else "cross-check of the contracts against CPython"})
        if h.unsupported:
            rep["standin"] = st
        elif st.get("found") and all(x["verdict"] == "proved" for x in res):
            rep["crash"] = f"cross-check failed: contracts proved but the native run disagrees: {st['found'][0]}"
    return rep
