"""Native runner for C33 (replay / bounded cross-check of the asyncio scheduler contracts).

Runs under /venv/bin/python on the real AsyncIOScheduler / AsyncIOThreadSafeScheduler with a real asyncio loop whose
clock is virtual and whose call_later can be held at a gate, so that the interleavings that matter are produced
deterministically (every step waits for an explicit event; timeouts are only safety nets).  Oracle from the property:
once dispose() has returned, the action does not start - whether dispose() was called on the loop thread, on another
thread while the loop is running, or while the loop is not running; actions run on the loop's thread and not before
their due time on the loop's clock.  BOUNDED (a fixed list of scenarios).

usage: aiorun.py replay - C33 '<json opts>'
       aiorun.py case '<json case>'
"""
from __future__ import annotations

import asyncio
import json
import os
import sys
import threading
import time

VERIF = os.path.dirname(os.path.dirname(os.path.abspath(__file__)))
REPO = os.environ.get("RXVC_REPO", "/repo")
if REPO not in sys.path:
    sys.path.insert(0, REPO)

T = 20.0


class Loop(asyncio.SelectorEventLoop):
    def __init__(self):
        self.vt = 0.0
        self.hold_call_later = None     # (entered event, release event)
        super().__init__()

    def time(self):
        return self.vt

    def call_soon_threadsafe(self, callback, *args, context=None):
        h = super().call_soon_threadsafe(callback, *args, context=context)
        self.__dict__["posts"] = self.__dict__.get("posts", 0) + 1  # (scenarios that need to know that another thread has posted its callback)
        return h

    def call_later(self, delay, callback, *args, context=None):
        if self.hold_call_later is not None and threading.current_thread().name == "loop":
            entered, release = self.hold_call_later
            self.hold_call_later = None
            entered.set()
            release.wait(T)
        return super().call_later(delay, callback, *args, context=context)


def start_loop():
    loop = Loop()

    def run():
        asyncio.set_event_loop(loop)
        loop.run_forever()
    t = threading.Thread(target=run, name="loop", daemon=True)
    t.start()
    pump(loop)
    return loop, t


def pump(loop):
    ev = threading.Event()
    loop.call_soon_threadsafe(ev.set)
    if not ev.wait(T):
        raise RuntimeError("the loop does not respond")


def advance(loop, dt):
    def f():
        loop.vt += dt
    loop.call_soon_threadsafe(f)
    # iteration k runs f (and possibly the first pump); iteration k + 1 moves the timers that are now due to the ready list BEHIND a
    # pump that was already queued - so that pump returns before they ran; a pump queued after it returned runs in iteration k + 2,
    # after them.  Four pumps: the due timers (and what they schedule with call_soon) have run when advance() returns.
    for _ in range(4):
        pump(loop)


def in_thread(fn, with_own_loop=False):
    """run fn on another thread; returns (thread, done event, box)"""
    box, done = {}, threading.Event()

    def body():
        try:
            if with_own_loop:
                async def main():
                    box["r"] = fn()
                asyncio.run(main())
            else:
                box["r"] = fn()
        except BaseException as e:  # noqa: BLE001
            box["e"] = repr(e)
        finally:
            done.set()
    t = threading.Thread(target=body, name="disposer", daemon=True)
    t.start()
    return t, done, box


def scen_race_with_first_stage(c):
    """thread-safe scheduler, relative schedule: dispose() from another thread while the loop is INSIDE the first stage (about
    to arm the timer).  Once dispose() has returned the action must never start."""
    from reactivex.scheduler.eventloop import AsyncIOThreadSafeScheduler
    loop, _t = start_loop()
    s = AsyncIOThreadSafeScheduler(loop)
    ran = []
    entered, release = threading.Event(), threading.Event()
    loop.hold_call_later = (entered, release)
    d = s.schedule_relative(5.0, lambda sc, st=None: ran.append(loop.vt))
    if not entered.wait(T):
        return "harness: the first stage never reached call_later"
    _th, done, box = in_thread(d.dispose, with_own_loop=(c["disposer"] == "thread-with-own-loop"))
    returned_early = done.wait(0.3)      # a marshalled dispose() blocks here until the loop is free again
    release.set()
    if not done.wait(T):
        return "dispose() never returned"
    if "e" in box:
        return f"dispose() raised {box['e']}"
    pump(loop)
    advance(loop, 10.0)
    pump(loop)
    loop.call_soon_threadsafe(loop.stop)
    if ran:
        return (f"dispose() from a {c['disposer']} returned {'while the first stage was still arming the timer' if returned_early else ''} "
                f"and the action started all the same at loop time {ran[0]}")
    return None


def scen_dispose_before_first_stage(c):
    from reactivex.scheduler.eventloop import AsyncIOThreadSafeScheduler
    loop, _t = start_loop()
    s = AsyncIOThreadSafeScheduler(loop)
    ran = []
    # keep the loop busy so that the first stage is still queued when dispose() is called
    busy, go = threading.Event(), threading.Event()
    loop.call_soon_threadsafe(lambda: (busy.set(), go.wait(T)))
    busy.wait(T)
    d = s.schedule_relative(5.0, lambda sc, st=None: ran.append(loop.vt)) if c["kind"] == "relative" else s.schedule(lambda sc, st=None: ran.append(loop.vt))
    _th, done, box = in_thread(d.dispose, with_own_loop=(c["disposer"] == "thread-with-own-loop"))
    done.wait(0.2)
    before = list(ran)
    go.set()
    if not done.wait(T):
        return "dispose() never returned"
    pump(loop)
    after_return = len(ran)
    advance(loop, 10.0)
    loop.call_soon_threadsafe(loop.stop)
    if len(ran) > after_return:
        return f"the action started after dispose() had returned ({c})"
    _ = before
    return None


def scen_on_loop_thread(c):
    from reactivex.scheduler.eventloop import AsyncIOScheduler, AsyncIOThreadSafeScheduler
    loop, _t = start_loop()
    s = (AsyncIOThreadSafeScheduler if c["threadsafe"] else AsyncIOScheduler)(loop)
    ran, err = [], []

    def on_loop():
        try:
            d1 = s.schedule(lambda sc, st=None: ran.append("immediate"))
            d2 = s.schedule_relative(3.0, lambda sc, st=None: ran.append("timed"))
            s.schedule_relative(2.0, lambda sc, st=None: ran.append(("kept", loop.vt, threading.current_thread().name)))
            d1.dispose()
            d2.dispose()
        except BaseException as e:  # noqa: BLE001
            err.append(repr(e))
    loop.call_soon_threadsafe(on_loop)
    pump(loop)
    pump(loop)
    advance(loop, 1.0)
    early = [r for r in ran if isinstance(r, tuple)]
    advance(loop, 5.0)
    loop.call_soon_threadsafe(loop.stop)
    if err:
        return f"scheduling / disposing on the loop thread raised {err[0]}"
    if early:
        return f"an action due after 2.0 s of loop time ran at {early[0][1]}"
    kept = [r for r in ran if isinstance(r, tuple)]
    if "immediate" in ran or "timed" in ran:
        return f"actions disposed on the loop thread before they started ran all the same: {ran}"
    if len(kept) != 1 or kept[0][2] != "loop":
        return f"the action that was not disposed must run once on the loop thread: {ran}"
    return None


def scen_loop_not_running(c):
    from reactivex.scheduler.eventloop import AsyncIOThreadSafeScheduler
    loop = Loop()
    s = AsyncIOThreadSafeScheduler(loop)
    ran = []
    d1 = s.schedule(lambda sc, st=None: ran.append("immediate"))
    d2 = s.schedule_relative(1.0, lambda sc, st=None: ran.append("timed"))
    _th, done, box = in_thread(lambda: (d1.dispose(), d2.dispose()))
    if not done.wait(T):
        return "dispose() with a stopped loop never returned (it waits for a loop that is not running)"
    if "e" in box:
        return f"dispose() raised {box['e']}"

    def run():
        asyncio.set_event_loop(loop)
        loop.call_later(0, lambda: None)
        loop.call_soon(lambda: setattr(loop, "vt", 5.0))
        loop.call_later(6.0, loop.stop)
        loop.call_soon(lambda: loop.call_soon(lambda: setattr(loop, "vt", 20.0)))
        loop.run_forever()
    t = threading.Thread(target=run, name="loop", daemon=True)
    t.start()
    t.join(T)
    if ran:
        return f"actions disposed while the loop was not running started once it ran: {ran}"
    return None


def scen_two_disposers(c):
    """two threads dispose two DIFFERENT actions of one thread-safe scheduler at the same time.  Each dispose() waits for ITS OWN marshalled
    cancellation: once dispose() of an action has returned, that action never starts.  The loop is parked while the ready queue is built as
    interval(A), cancel(A), gate, interval(B), cancel(B); the gate gives dispose(B) half a second to return too early."""
    from reactivex.scheduler.eventloop import AsyncIOThreadSafeScheduler
    loop, _t = start_loop()
    s = AsyncIOThreadSafeScheduler(loop)
    started, returned = {}, {"A": threading.Event(), "B": threading.Event()}
    gate_in, gate_out = threading.Event(), threading.Event()

    def wait_posts(n):
        t0 = time.time()
        while loop.__dict__.get("posts", 0) < n:
            if time.time() - t0 > T:
                return False
            time.sleep(0.001)
        return True

    def gate1():
        gate_in.set()
        gate_out.wait(T)
    loop.call_soon_threadsafe(gate1)
    if not gate_in.wait(T):
        return "harness: the loop never reached the first gate"
    base = loop.__dict__.get("posts", 0)

    def act(name):
        def f(sc, st=None):
            started[name] = returned[name].is_set()
        return f

    def disposer(name, d):
        def f():
            d.dispose()
            returned[name].set()
        return f
    dA = s.schedule(act("A"))
    ta = in_thread(disposer("A", dA))
    if not wait_posts(base + 2):
        return "harness: dispose(A) never posted its cancellation"
    loop.call_soon_threadsafe(lambda: returned["B"].wait(0.5))
    dB = s.schedule(act("B"))
    tb = in_thread(disposer("B", dB))
    if not wait_posts(base + 5):
        return "harness: dispose(B) never posted its cancellation"
    gate_out.set()
    for (_th, done, box) in (ta, tb):
        if not done.wait(T):
            return "a dispose() never returned"
        if "e" in box:
            return f"dispose() raised {box['e']}"
    pump(loop)
    loop.call_soon_threadsafe(loop.stop)
    late = [n for n, after in started.items() if after]
    if late:
        return (f"two threads disposing two different actions at once: dispose() of action {late[0]} had already returned when that action started "
                f"(it was released by the cancellation of the OTHER action)")
    return None


SCENARIOS = [
    ("two_disposers", {}),
    ("race_with_first_stage", {"disposer": "plain-thread"}),
    ("race_with_first_stage", {"disposer": "thread-with-own-loop"}),
    ("dispose_before_first_stage", {"disposer": "plain-thread", "kind": "relative"}),
    ("dispose_before_first_stage", {"disposer": "thread-with-own-loop", "kind": "relative"}),
    ("dispose_before_first_stage", {"disposer": "plain-thread", "kind": "immediate"}),
    ("on_loop_thread", {"threadsafe": False}),
    ("on_loop_thread", {"threadsafe": True}),
    ("loop_not_running", {}),
]
FUN = {"two_disposers": scen_two_disposers, "race_with_first_stage": scen_race_with_first_stage, "dispose_before_first_stage": scen_dispose_before_first_stage,
       "on_loop_thread": scen_on_loop_thread, "loop_not_running": scen_loop_not_running}

REPLAY_TEMPLATE = '''#!/venv/bin/python
"""Replay of a violation of property {prop} (asyncio schedulers).
obligation: {oid}
scenario: {case}
{what}
Exit 1 when it reproduces on the tree under RXVC_REPO (default /repo)."""
import subprocess, sys
r = subprocess.run(["/venv/bin/python", "{verif}/rxvc/aiorun.py", "case", {case!r}])
sys.exit(r.returncode)
'''


def one(c):
    import subprocess
    try:
        r = subprocess.run([sys.executable, os.path.abspath(__file__), "case", json.dumps(c)], capture_output=True, text=True, timeout=120)
        return json.loads(r.stdout.strip().splitlines()[-1])["violation"]
    except subprocess.TimeoutExpired:
        return "the scenario did not end within 120 s"
    except Exception as e:  # noqa: BLE001
        return f"runner error: {e!r}"


def main(argv):
    if argv[0] == "case":
        c = json.loads(argv[1])
        try:
            r = FUN[c["scenario"]](c)
        except Exception as e:  # noqa: BLE001
            r = f"the scenario raised {e!r}"
        print(json.dumps({"violation": r}))
        sys.stdout.flush()
        os._exit(1 if r else 0)
    opts = json.loads(argv[3]) if len(argv) > 3 else {}
    n, found = 0, None
    for name, c in SCENARIOS:
        n += 1
        case = dict(c, scenario=name)
        r = one(case)
        if r:
            found = {"case": case, "disagreement": r}
            break
    res = {"cases": n, "found": [found] if found else []}
    if found and "replay_path" in opts:
        os.makedirs(os.path.dirname(opts["replay_path"]), exist_ok=True)
        with open(opts["replay_path"], "w") as f:
            f.write(REPLAY_TEMPLATE.format(prop=opts.get("prop", "C33"), oid=opts.get("oid", "?"), verif=VERIF, case=json.dumps(found["case"]), what=found["disagreement"]))
        res["replay"] = opts["replay_path"]
    print(json.dumps(res, default=repr))


if __name__ == "__main__":
    main(sys.argv[1:])
