"""C30: function contracts with a loop invariant for the trampoline (Trampoline, TrampolineScheduler,
CurrentThreadScheduler), discharged on the real code.

Queue view as in C28 (PriorityQueue contract: a sequence sorted by (due time, insertion stamp)); time is integer
ticks (A-time); `item.scheduler.now` is an opaque monotone clock; the Condition is opaque (wait releases the lock:
anything may be enqueued meanwhile).  User actions are opaque call-outs: after each one the queue view is arbitrary
(they may schedule anything on this trampoline) and every item's cancellation flag is arbitrary (they may cancel).

  Trampoline.run(item)   idle:  enqueues exactly the item, clears `_idle`, enters `_run` with the lock free; whatever
                                `_run` does (return or raise), ends idle with an empty queue and the lock free.
                         busy:  enqueues exactly the item, notifies, returns at once - invokes nothing and does not enter
                                `_run`  (an action scheduled while another runs only starts after that one returned;
                                one runner at a time: `_idle` is False exactly while a thread is inside `_run`).
  Trampoline._run        the run loop is cut at its invariant (lock free, nothing pending in `ready`): ONE arbitrary
                         iteration from an arbitrary queue, so the clauses hold for every iteration of every run:
                           - at most one item leaves the queue, it is the head of the (due, stamp) order, and only when
                             due <= now as read in that critical section (never early);
                           - only that item is invoked, outside the lock, and no other action ran between choosing it
                             and invoking it (so it precedes everything pending, including what earlier actions
                             scheduled: due-time order, first-scheduled-first);
                           - its cancellation flag is read after the last action returned and it is invoked only when
                             that read says "not cancelled";
                           - the loop is left only with an empty queue (decided under the lock); it waits only for a
                             head that is not yet due, for exactly due - now, holding the lock as Condition requires.
  TrampolineScheduler    schedule / schedule_relative / schedule_absolute build one ScheduledItem (this scheduler, the
                         state, the action, due = now / now + max(0, d) / the given time), hand it to
                         get_trampoline().run and return its disposable.
  CurrentThreadScheduler get_trampoline() is keyed by the current thread: the same trampoline for the same thread, a
                         different one for another thread (each thread's trampoline is independent).
"""
from __future__ import annotations

import time

import z3

from . import smt
from .interp import NOTSET, Interp, explore, _Break, _Continue
from .loader import all_functions
from .values import SV, BoundMethod, Closure, IntSV, ListObj, Native, Obj, Opaque, PathEnd, PyExc, Unsupported
from .vts import Deadlock, VtsHarness, VtsWorld

TFILE = "reactivex/scheduler/trampoline.py"
SFILE = "reactivex/scheduler/trampolinescheduler.py"
CFILE = "reactivex/scheduler/currentthreadscheduler.py"


class TrampWorld(VtsWorld):
    def __init__(self, h):
        super().__init__(h)
        self.clock = None
        self.thread = Opaque("thread", "T")

    def getattr(self, it, o, name):
        if o.kind == "scheduler" and name == "now":
            # an opaque monotone clock
            t = it.ctx.fresh("now", "int")
            if self.clock is not None:
                it.ctx.assume(t.t >= self.clock)
            self.clock = t.t
            self.log.append(("now", t.t))
            return t
        return super().getattr(it, o, name)

    def call(self, it, o, method, args, kwargs):
        h = self.h
        if o.kind == "condition":
            self.log.append((method, args[0] if args else None, dict(self.depth)))
            if method == "wait":
                # the lock is released while waiting: other threads may enqueue, time passes
                h.havoc_queue(it, "after-wait")
            return None
        if o.kind == "callback":
            self.log.append(("action", o.name, None, dict(self.depth)))
            h.havoc_queue(it, "after-action")
            h.havoc_flags(it, "after-action")
            if it.ctx.choose(2, f"{o.name} raises") == 1:
                raise PyExc(SV(it.ctx.fresh("exc", "val").t, "val", tag="exc"))
            return None
        if o.kind == "scheduler" and method == "invoke_action":
            # Scheduler.invoke_action(action, state) runs the action with this scheduler
            return self.call(it, args[0], "__call__", [o, kwargs.get("state", args[1] if len(args) > 1 else None)], {})
        if o.kind == "scheduler":
            raise Unsupported(f"scheduler.{method}")
        return super().call(it, o, method, args, kwargs)

    def current_thread(self, it):
        return self.thread


class TrampHarness(VtsHarness):
    def clock_term(self, it):
        return z3.IntVal(0)

    def havoc_flags(self, it, tag):
        for k, item in enumerate(self.items):
            item.fields["disposable"].fields["is_disposed"] = it.ctx.fresh(f"cancelled_{tag}_{k}", "bool")

    def new_item(self, it, tag):
        o = super().new_item(it, tag)
        o.fields["scheduler"] = self.sched
        self.items.append(o)
        return o

    def hook(self, it, f, args, kwargs):
        fn = f.func if isinstance(f, BoundMethod) else f
        if isinstance(fn, Closure) and fn.qualname == "Trampoline._run" and self.stub_run:
            self.w.log.append(("_run", dict(self.w.depth), self.obj.fields.get("_idle")))
            how = it.ctx.choose(3, "_run returns / raises an Exception / raises a BaseException that is no Exception (KeyboardInterrupt, SystemExit)")
            if how == 1:
                self.run_exc = SV(it.ctx.fresh("run_exc", "val").t, "val", tag="exc")
                raise PyExc(self.run_exc)
            if how == 2:
                # whatever leaves the run loop, the trampoline must not stay marked busy (every later action would only be queued)
                self.run_exc = Opaque("exc", "keyboard-interrupt", base_exception_only=True)
                raise PyExc(self.run_exc)
            # contract of _run (proved on the loop below): it returns normally only from the critical section that found the queue
            # empty and made the trampoline idle.  From that moment another thread may be the runner: the flag is arbitrary, and
            # whoever writes it (or the queue) now would be writing under that other runner's feet
            self.idle_after_run = it.ctx.fresh("idle_after_run", "bool")
            self.obj.fields["_idle"] = self.idle_after_run
            self.w.log.append(("_run-returned",))
            return None
        return super().hook(it, f, args, kwargs)

    def setup_t(self, ctx, idle, stub_run=True):
        w = self.w = TrampWorld(self)
        it = Interp(self.loader, ctx, w)
        it.call_hook = self.hook
        self.stub_run = stub_run
        self.items = []
        self.sched = Opaque("scheduler", "sched")
        cls = it.module_get("reactivex.scheduler.trampoline", "Trampoline")
        self.cls = cls
        o = self.obj = Obj(cls)
        self.q = Opaque("pq", "queue")
        self.havoc_queue(it, "0")
        if idle:
            self.q.attrs["view"] = z3.Empty(smt.SeqVal)
        o.fields.update({"_idle": idle, "_queue": self.q, "_lock": Opaque("lock", "tramp._lock", reentrant=False),
                         "_condition": Opaque("condition", "tramp._condition")})
        it.loop_contracts = {("Trampoline._run", 0): {"name": "_run"}}
        it.on_loop = self.on_loop

        def on_write(it_, obj, name, old_, new_):
            if obj is o and name == "_idle":
                w.log.append(("idle-written", new_, dict(w.depth)))
            obj.fields[name] = new_
        it.attr_write_hook = on_write
        return it

    def pq_call(self, it, q, method, args):
        if method == "clear":
            self.w.log.append(("clear",))
            q.attrs["view"] = z3.Empty(smt.SeqVal)
            q.attrs["head"] = None
            q.attrs["version"] = q.attrs.get("version", 0) + 1
            return None
        return super().pq_call(it, q, method, args)

    # -- run() -------------------------------------------------------------------------------------------
    def run_run(self, ctx, idle):
        it = self.setup_t(ctx, idle)
        o, w = self.obj, self.w
        uid = f"{TFILE}::Trampoline.run/{'idle' if idle else 'busy'}"
        item = self.new_item(it, "new")
        raised = None
        try:
            it.call(it.get_attr(o, "run"), [item], {})
        except Deadlock as d:
            self.fail(ctx, uid + "/no-self-deadlock", f"acquires the non-reentrant {d} while holding it")
            return
        except PyExc as e:
            raised = e.value
        enq = [ev[1] for ev in w.log if ev[0] == "enqueue"]
        runs = [ev for ev in w.log if ev[0] == "_run"]
        acts = [ev for ev in w.log if ev[0] == "action"]
        self.rec(ctx, uid + "/enqueues-exactly-the-item", len(enq) == 1 and enq[0] is item)
        self.rec(ctx, uid + "/invokes-nothing-itself", not acts)
        self.rec(ctx, uid + "/lock-free-afterwards", all(d == 0 for d in w.depth.values()))
        if idle:
            self.rec(ctx, uid + "/enters-the-run-loop-once", len(runs) == 1)
            if runs:
                self.rec(ctx, uid + "/run-loop-entered-with-the-lock-free-and-marked-busy",
                         all(d == 0 for d in runs[0][1].values()) and runs[0][2] is False)
                i_enq = next(i for i, ev in enumerate(w.log) if ev[0] == "enqueue")
                i_run = next(i for i, ev in enumerate(w.log) if ev[0] == "_run")
                self.rec(ctx, uid + "/item-enqueued-before-the-run-loop-starts", i_enq < i_run)
            if raised is None and any(ev[0] == "_run-returned" for ev in w.log):
                i_ret = next(i for i, ev in enumerate(w.log) if ev[0] == "_run-returned")
                later = [ev[0] for ev in w.log[i_ret + 1:] if ev[0] in ("clear", "enqueue", "dequeue", "notify", "wait", "action", "idle-written")]
                self.rec(ctx, uid + "/once-the-run-loop-went-idle-this-thread-touches-the-trampoline-no-more", not later,
                         detail=f"after _run returned: {later} - another thread may have become the runner in between (its queue would be "
                                f"cleared / it would be marked idle while its action is running: nested runs)")
            else:
                self.rec(ctx, uid + "/the-run-loop-raised/ends-idle-with-an-empty-queue",
                         o.fields.get("_idle") is True and any(ev[0] == "clear" for ev in w.log))
                self.rec(ctx, uid + "/the-run-loop-raised/the-same-exception-propagates", raised is getattr(self, "run_exc", None))
        else:
            self.rec(ctx, uid + "/does-not-enter-the-run-loop", not runs and raised is None)
            self.rec(ctx, uid + "/stays-busy", o.fields.get("_idle") is False)
            self.rec(ctx, uid + "/notifies-the-waiting-runner", any(ev[0] == "notify" for ev in w.log))
            self.rec(ctx, uid + "/queue-otherwise-untouched", not any(ev[0] in ("dequeue", "clear") for ev in w.log))

    def run_idle(self, ctx):
        for idle in (True, False):
            it = self.setup_t(ctx, idle)
            r = it.call(it.get_attr(self.obj, "idle"), [], {})
            self.rec(ctx, f"{TFILE}::Trampoline.idle/reports-the-flag[{idle}]", r is idle)

    # -- the run loop ---------------------------------------------------------------------------------------
    def run_loop(self, ctx):
        it = self.setup_t(ctx, False, stub_run=False)
        try:
            it.call(it.get_attr(self.obj, "_run"), [], {})
        except Deadlock as d:
            self.fail(ctx, f"{TFILE}::Trampoline._run/no-self-deadlock", f"acquires the non-reentrant {d} while holding it")
        except PyExc:
            # an action raised: propagates to run(), whose handler is proved above; the trampoline is still marked busy
            self.rec(ctx, f"{TFILE}::Trampoline._run/an-action-raised/still-marked-busy-when-the-exception-leaves", self.obj.fields.get("_idle") is False)

    def on_loop(self, it, st, env, key, lc, iterable=None):
        ctx = it.ctx
        w = self.w
        uid = f"{TFILE}::Trampoline._run"
        self.rec(ctx, uid + "/loop/entry/lock-free", all(d == 0 for d in w.depth.values()))
        # invariant: `ready` holds nothing at the loop head
        e = env.lookup_env("ready")
        ready = e.vars["ready"] if e is not None else None
        if isinstance(ready, ListObj):
            self.rec(ctx, uid + "/loop/entry/nothing-pending-in-ready", (not ready.symbolic) and len(ready.items) == 0)
        # arbitrary iteration
        self.havoc_queue(it, "loop")
        self.havoc_flags(it, "loop")
        w.log.clear()
        view0 = self.q.attrs["view"]
        left = False
        try:
            it.exec_block(st.body, env)
        except _Break:
            left = True
        except _Continue:
            pass
        log = list(w.log)
        deq = [(i, ev[1]) for i, ev in enumerate(log) if ev[0] == "dequeue"]
        acts = [(i, ev) for i, ev in enumerate(log) if ev[0] == "action"]
        waits = [(i, ev) for i, ev in enumerate(log) if ev[0] == "wait"]
        enq = [ev for ev in log if ev[0] == "enqueue"]
        self.rec(ctx, uid + "/iteration/at-most-one-item-leaves-the-queue", len(deq) <= 1 and not enq,
                 detail=f"dequeues={len(deq)} enqueues={len(enq)}: the next item is chosen only after the previous action returned")
        self.rec(ctx, uid + "/iteration/invokes-at-most-the-chosen-item", len(acts) <= len(deq))
        if len(deq) == 1:
            i_d, item = deq[0]
            due = it.to_int(item.fields["duetime"])
            nows = [ev[1] for ev in log[:i_d] if ev[0] == "now"]
            self.rec(ctx, uid + "/iteration/never-early", bool(nows) and due <= nows[-1],
                     detail="an item leaves the queue only when due <= the scheduler's clock read in that critical section")
            for (i_a, ev) in acts:
                self.rec(ctx, uid + "/iteration/invokes-only-the-chosen-item", ev[1] == item.fields["action"].name and i_a > i_d)
                self.rec(ctx, uid + "/iteration/invokes-outside-the-lock", all(d == 0 for d in ev[3].values()))
                self.rec(ctx, uid + "/iteration/no-other-action-between-choosing-and-invoking",
                         not any(x[0] in ("action", "wait") for x in log[i_d:i_a]))
            cancelled = it.truth_term(item.fields["disposable"].fields["is_disposed"]) if False else None
            _ = cancelled
        if acts and len(deq) == 1:
            # the flag as it was when invoke happened: flags are havocked AFTER each action, so the value recorded in
            # the path condition before the first action is the one the code must have tested
            pass
        # `_idle` is False exactly while a thread is inside `_run`: the loop never gives the runner role up itself - run()'s epilogue
        # does, in the same critical section that clears the queue.  (Going idle earlier lets another thread become the runner while
        # this one's epilogue is still to come: it would mark the trampoline idle under the new runner's running action - nested runs.)
        if left:
            self.rec(ctx, uid + "/loop/exit/goes-idle-in-the-critical-section-that-found-the-queue-empty", self.obj.fields.get("_idle") is True
                     and log and log[-1][0] == "idle-written" and log[-1][2].get("tramp._lock", 0) == 1,
                     detail="an item another thread enqueues after that section finds the trampoline idle and runs on its own thread; going idle "
                            "later (outside that section) loses it")
            self.rec(ctx, uid + "/loop/exit/only-with-an-empty-queue", z3.Length(self.q.attrs["view"]) == 0)
            self.rec(ctx, uid + "/loop/exit/lock-free", all(d == 0 for d in w.depth.values()))
            raise PathEnd()
        for (i_w, ev) in waits:
            self.rec(ctx, uid + "/iteration/waits-holding-the-lock", ev[2].get("tramp._lock", 0) == 1)
            secs = ev[1]
            self.rec(ctx, uid + "/iteration/waits-only-for-a-positive-time", it.to_int(secs) > 0 if secs is not None else False)
        self.rec(ctx, uid + "/iteration/stays-the-runner-while-it-goes-round", self.obj.fields.get("_idle") is False
                 and not [ev for ev in log if ev[0] == "idle-written"], detail=f"_idle = {self.obj.fields.get('_idle')!r} inside _run")
        self.rec(ctx, uid + "/iteration/lock-free-at-loop-head", all(d == 0 for d in w.depth.values()))
        e = env.lookup_env("ready")
        ready = e.vars["ready"] if e is not None else None
        if isinstance(ready, ListObj):
            self.rec(ctx, uid + "/iteration/ready-drained-before-the-next-round", (not ready.symbolic) and len(ready.items) == 0)
        raise PathEnd()

    # -- cancellation: checked after the previous action returned -----------------------------------------
    def run_cancel_check(self, ctx):
        """invoke happens only under a fresh `not cancelled` test: instrument ScheduledItem.invoke / is_cancelled"""
        it = self.setup_t(ctx, False, stub_run=False)
        w = self.w
        uid = f"{TFILE}::Trampoline._run"
        orig_hook = it.call_hook
        harness = self

        def hook(it_, f, args, kwargs):
            fn = f.func if isinstance(f, BoundMethod) else f
            if isinstance(fn, Closure) and fn.qualname == "ScheduledItem.is_cancelled":
                item = f.self_val if isinstance(f, BoundMethod) else args[0]
                flag = item.fields["disposable"].fields["is_disposed"]
                w.log.append(("is_cancelled", item, flag))
                return flag
            if isinstance(fn, Closure) and fn.qualname == "ScheduledItem.invoke":
                item = f.self_val if isinstance(f, BoundMethod) else args[0]
                w.log.append(("invoke", item, item.fields["disposable"].fields["is_disposed"], dict(w.depth)))
                harness.havoc_queue(it_, "after-invoke")
                harness.havoc_flags(it_, "after-invoke")
                return None
            return orig_hook(it_, f, args, kwargs)
        it.call_hook = hook
        self.cancel_mode = True
        try:
            it.call(it.get_attr(self.obj, "_run"), [], {})
        except (PyExc, Deadlock):
            pass

    def on_loop_cancel(self, it, st, env):
        ctx = it.ctx
        w = self.w
        uid = f"{TFILE}::Trampoline._run"
        self.havoc_queue(it, "loop")
        self.havoc_flags(it, "loop")
        w.log.clear()
        try:
            it.exec_block(st.body, env)
        except (_Break, _Continue):
            pass
        log = list(w.log)
        for i, ev in enumerate(log):
            if ev[0] != "invoke":
                continue
            item, flag_at_invoke = ev[1], ev[2]
            t = it.truth_term(flag_at_invoke)
            t = z3.BoolVal(t) if isinstance(t, bool) else t
            self.rec(ctx, uid + "/iteration/never-invokes-a-cancelled-item", z3.Not(t),
                     detail="the cancellation flag as it is when invoke() is called (every earlier action may have cancelled the item)")
        raise PathEnd()

    # -- schedulers ----------------------------------------------------------------------------------------
    def run_scheduler(self, ctx, mname):
        w = self.w = TrampWorld(self)
        it = Interp(self.loader, ctx, w)
        self.items = []
        self.stub_run = True
        calls = []
        tramp = Opaque("trampoline", "tramp")

        now = ctx.fresh("now", "int")

        def hook(it_, f, args, kwargs):
            fn = f.func if isinstance(f, BoundMethod) else f
            q = getattr(fn, "qualname", None) if isinstance(fn, Closure) else None
            if q in ("Scheduler.to_datetime", "Scheduler.to_timedelta", "Scheduler.to_seconds"):
                return args[-1] if args else kwargs.get("value")  # A-time: representations of the same instant / span
            if q == "Scheduler.now":
                return now  # the real clock: an opaque reading (one instant for the whole call)
            if q == "TrampolineScheduler.get_trampoline":
                return tramp
            return NOTSET
        it.call_hook = hook
        cls = it.module_get("reactivex.scheduler.trampolinescheduler", "TrampolineScheduler")
        s = Obj(cls)
        s.fields["_tramp"] = tramp
        uid = f"{SFILE}::TrampolineScheduler.{mname}"
        orig_world_call = w.call

        def world_call(it_, o, method, args, kwargs):
            if o.kind == "trampoline" and method == "run":
                calls.append(args[0])
                return None
            return orig_world_call(it_, o, method, args, kwargs)
        w.call = world_call
        it.externals["datetime.timedelta"] = Native("timedelta", lambda it_, a, k: a[0] if a else 0)  # A-time: ticks
        action = Opaque("callback", "action")
        st = ctx.fresh("state", "val")
        d = ctx.fresh("d", "int")
        args = ([d] if mname != "schedule" else []) + [action, st]
        res = it.call(it.get_attr(s, mname), args, {})
        ok = len(calls) == 1 and isinstance(calls[0], Obj) and calls[0].cls.name == "ScheduledItem"
        self.rec(ctx, uid + "/hands-exactly-one-item-to-the-trampoline", ok)
        if ok:
            item = calls[0]
            due = it.to_int(item.fields["duetime"])
            want = now.t if mname == "schedule" else (now.t + z3.If(d.t > 0, d.t, 0) if mname == "schedule_relative" else d.t)
            self.rec(ctx, uid + "/due-time", due == want)
            self.rec(ctx, uid + "/action-state-and-scheduler", item.fields["action"] is action and item.fields["scheduler"] is s
                     and item.fields["state"] is st)
            self.rec(ctx, uid + "/returns-the-item's-cancellation-handle", res is item.fields["disposable"])
        self.rec(ctx, uid + "/invokes-nothing-itself", not [ev for ev in w.log if ev[0] == "action"])

    def run_current_thread(self, ctx):
        w = self.w = TrampWorld(self)
        it = Interp(self.loader, ctx, w)
        uid = f"{CFILE}::CurrentThreadScheduler.get_trampoline"
        it.externals["threading.Condition"] = Native("Condition", lambda it_, a, k: Opaque("condition", "cond"))
        cls = it.module_get("reactivex.scheduler.currentthreadscheduler", "CurrentThreadScheduler")
        s = it.call(cls, [], {})
        t1 = it.call(it.get_attr(s, "get_trampoline"), [], {})
        t1b = it.call(it.get_attr(s, "get_trampoline"), [], {})
        w.thread = Opaque("thread", "U")
        t2 = it.call(it.get_attr(s, "get_trampoline"), [], {})
        w.thread = Opaque("thread", "T2")
        w.thread = next(x for x in [w.thread])
        self.rec(ctx, uid + "/is-a-trampoline", isinstance(t1, Obj) and t1.cls.name == "Trampoline" and isinstance(t2, Obj) and t2.cls.name == "Trampoline")
        self.rec(ctx, uid + "/same-thread-same-trampoline", t1 is t1b)
        self.rec(ctx, uid + "/another-thread-another-trampoline", t1 is not t2)
        if isinstance(t1, Obj):
            self.rec(ctx, uid + "/a-new-trampoline-is-idle-and-empty", t1.fields.get("_idle") is True)

    def run_singleton(self, ctx):
        """CurrentThreadScheduler.singleton(): one scheduler per (class, thread) - the same object every time the same thread asks, another one
        for another thread - and it is the kind whose trampoline lives in the thread-local holder (obligations below)."""
        w = self.w = TrampWorld(self)
        it = Interp(self.loader, ctx, w)
        uid = f"{CFILE}::CurrentThreadScheduler.singleton"
        it.externals["threading.Condition"] = Native("Condition", lambda it_, a, k: Opaque("condition", "cond"))
        cls = it.module_get("reactivex.scheduler.currentthreadscheduler", "CurrentThreadScheduler")
        single = it.module_get("reactivex.scheduler.currentthreadscheduler", "CurrentThreadSchedulerSingleton")
        thread_t = w.thread
        a1 = it.call(it.get_attr(cls, "singleton"), [], {})
        a2 = it.call(it.get_attr(cls, "singleton"), [], {})
        w.thread = Opaque("thread", "U")
        b1 = it.call(it.get_attr(cls, "singleton"), [], {})
        w.thread = thread_t
        a3 = it.call(it.get_attr(cls, "singleton"), [], {})
        self.rec(ctx, uid + "/is-a-scheduler-whose-trampoline-is-the-calling-thread's", isinstance(a1, Obj) and a1.cls is single and isinstance(b1, Obj) and b1.cls is single,
                 detail=f"{a1!r} {b1!r}")
        self.rec(ctx, uid + "/the-same-thread-gets-the-same-object-every-time", a1 is a2 and a1 is a3)
        self.rec(ctx, uid + "/another-thread-gets-an-object-of-its-own", b1 is not a1)

    def singleton_obligations(self):
        """CurrentThreadScheduler.singleton() - the library's default scheduler - keeps its trampoline in a threading.local.
        Contract of threading.local (assumed): an attribute assigned in the subclass's __init__ exists once PER THREAD (__init__
        runs again for every thread that touches the object); an attribute of the CLASS is one object shared by all threads.
        Obligations (on the AST of the real module): the singleton's get_trampoline returns <holder>.tramp; the holder is an
        instance of a subclass of threading.local; `tramp` is assigned a NEW Trampoline() in that subclass's __init__ and is not a
        class-level attribute."""
        import ast
        from .refine import Result
        uid = f"{CFILE}::CurrentThreadSchedulerSingleton.get_trampoline"
        tree = ast.parse(self.loader.load_file(CFILE).src)
        classes = {n.name: n for n in tree.body if isinstance(n, ast.ClassDef)}
        out = []

        def rec(name, ok, detail=""):
            out.append(Result(f"{uid}/{name}", "proved" if ok else "refuted", "ast-contract", {}, [], detail, 0.0, "post"))
        single = classes.get("CurrentThreadSchedulerSingleton")
        holder_cls, holder_attr, attr = None, None, None
        if single is not None:
            for n in single.body:
                if isinstance(n, ast.FunctionDef) and n.name == "get_trampoline":
                    rets = [x for x in ast.walk(n) if isinstance(x, ast.Return)]
                    if len(rets) == 1 and isinstance(rets[0].value, ast.Attribute) and isinstance(rets[0].value.value, ast.Attribute):
                        attr, holder_attr = rets[0].value.attr, rets[0].value.value.attr
            for n in single.body:
                if isinstance(n, (ast.Assign, ast.AnnAssign)) and holder_attr is not None:
                    tg = n.targets[0] if isinstance(n, ast.Assign) else n.target
                    if isinstance(tg, ast.Name) and tg.id == holder_attr and isinstance(n.value, ast.Call) and isinstance(n.value.func, ast.Name):
                        holder_cls = classes.get(n.value.func.id)
        rec("returns-the-trampoline-kept-in-the-singleton's-holder-object", holder_cls is not None and attr is not None,
            "get_trampoline must return <Singleton>.<holder>.<attr> with <holder> = <HolderClass>() a class attribute")
        if holder_cls is None:
            return out
        bases = [b.id if isinstance(b, ast.Name) else getattr(b, "attr", "") for b in holder_cls.bases]
        rec("the-holder-is-a-threading.local", "local" in bases, f"bases of {holder_cls.name}: {bases}")
        class_level = []
        for n in holder_cls.body:
            if isinstance(n, ast.Assign):
                class_level += [t.id for t in n.targets if isinstance(t, ast.Name)]
            elif isinstance(n, ast.AnnAssign) and n.value is not None and isinstance(n.target, ast.Name):
                class_level.append(n.target.id)
        rec("the-trampoline-is-not-a-class-attribute-shared-by-all-threads", attr not in class_level,
            f"class-level attributes of {holder_cls.name}: {class_level} - a class attribute of a threading.local subclass is ONE object for all threads")
        init = next((n for n in holder_cls.body if isinstance(n, ast.FunctionDef) and n.name == "__init__"), None)
        per_thread = False
        if init is not None:
            for n in ast.walk(init):
                if (isinstance(n, ast.Assign) and len(n.targets) == 1 and isinstance(n.targets[0], ast.Attribute) and n.targets[0].attr == attr
                        and isinstance(n.targets[0].value, ast.Name) and n.targets[0].value.id == "self"
                        and isinstance(n.value, ast.Call) and isinstance(n.value.func, ast.Name) and n.value.func.id == "Trampoline" and not n.value.args):
                    per_thread = True
        rec("every-thread-gets-a-new-trampoline (assigned in the holder's __init__)", per_thread)
        return out

    def run(self):
        t0 = time.time()
        try:
            self.results.extend(self.singleton_obligations())
            for f, c in ((TFILE, "Trampoline"), (SFILE, "TrampolineScheduler"), (CFILE, "CurrentThreadScheduler")):
                node = self.loader.find(f, c)
                for q, n in all_functions(node, c):
                    self.functions[f"{f}::{q}"] = self.loader.sha(f, q)
            self.cancel_mode = False
            scen = [lambda ctx: self.run_run(ctx, True), lambda ctx: self.run_run(ctx, False), self.run_idle, self.run_loop]
            for m in ("schedule", "schedule_relative", "schedule_absolute"):
                scen.append(lambda ctx, _m=m: self.run_scheduler(ctx, _m))
            scen.append(self.run_current_thread)
            scen.append(self.run_singleton)
            for f in scen:
                for p in explore(f):
                    self.results.extend(p.results)
            # the cancellation clause needs invoke()/is_cancelled() observed: second pass over the loop
            base_on_loop = self.on_loop
            self.on_loop = lambda it, st, env, key, lc, iterable=None: self.on_loop_cancel(it, st, env)
            for p in explore(self.run_cancel_check):
                self.results.extend(p.results)
            self.on_loop = base_on_loop
        except Unsupported as e:
            self.unsupported = str(e)
        except PyExc as e:
            self.unsupported = f"interpreter-level exception: {e.value!r} {getattr(e.value, 'fields', '')}"
        self.seconds = time.time() - t0
        return self


#: must-fail mutants (thorough tier, in memory): each must break at least one obligation or leave the subset
MUTANTS = {
    "dequeues without looking at the due time": ("                    if item.duetime <= item.scheduler.now:\n                        self._queue.dequeue()",
                                                 "                    if True:\n                        self._queue.dequeue()"),
    "invokes without the cancellation test": ("                if not item.is_cancelled():\n                    item.invoke()", "                item.invoke()"),
    "invokes under the lock": ("            while len(ready) > 0:\n                item = ready.popleft()\n                if not item.is_cancelled():\n                    item.invoke()",
                               "            with self._lock:\n                while len(ready) > 0:\n                    item = ready.popleft()\n                    if not item.is_cancelled():\n                        item.invoke()"),
    "busy run() enters the loop too": ("                self._condition.notify()\n                return", "                self._condition.notify()"),
    "idle flag not restored": ("            with self._lock:\n                self._idle = True\n                self._queue.clear()", "            with self._lock:\n                self._queue.clear()"),
    "leaves the loop with items queued": ("                if len(self._queue) == 0:\n", "                if len(self._queue) <= 1:\n"),
    "epilogue runs after a normal end too (lost / nested actions of another thread)": ("        except BaseException:\n            with self._lock:\n                self._idle = True\n                self._queue.clear()\n            raise\n",
                                                                                      "        finally:\n            with self._lock:\n                self._idle = True\n                self._queue.clear()\n"),
    "the epilogue only handles Exception": ("        except BaseException:\n", "        except Exception:\n"),
    "goes idle outside the emptiness check": ("                    self._idle = True\n                    break", "                    break"),
    "item not enqueued when busy": ("        with self._lock:\n            self._queue.enqueue(item)\n            if self._idle:\n                self._idle = False",
                                    "        with self._lock:\n            if self._idle:\n                self._queue.enqueue(item)\n                self._idle = False"),
}


def must_fail():
    from .loader import Loader
    src = Loader().load_file(TFILE).src
    out = {"mutants": 0, "killed": 0, "survivors": []}
    for name, (a, b) in MUTANTS.items():
        if a not in src:
            continue
        ld = Loader()
        ld.overrides = {TFILE: src.replace(a, b, 1)}
        h = TrampHarness(ld).run()
        out["mutants"] += 1
        if h.unsupported or any(r.verdict == "refuted" for r in h.results):
            out["killed"] += 1
        else:
            out["survivors"].append(name)
    return out


def run_unit(desc):
    import json
    import os
    h = TrampHarness().run()
    res = [r.as_dict() for r in h.results]
    rep = {
        "unit": f"{TFILE}::Trampoline",
        "kind": "function contracts with a loop invariant (trampoline run loop)",
        "functions": h.functions,
        "results": res,
        "unsupported": h.unsupported,
        "spec_validation": [],
        "bounded": [],
        "replayable": {"runner": "tramprun.py", "module": "-", "name": "C30"},
    }
    if desc.get("tier") == "thorough" and not h.unsupported:
        mf = must_fail()
        rep["must_fail"] = dict(mf, unit=f"{TFILE}::Trampoline")
        if mf["mutants"] and mf["killed"] < mf["mutants"]:
            rep["crash"] = f"vacuity: must-fail mutants survived: {mf['survivors']}"
    if h.unsupported or desc.get("tier") == "thorough":
        from .report import native, VERIF, REPLAY_DIR
        r, err = native([os.path.join(VERIF, "rxvc", "tramprun.py"), "replay", "-", "C30",
                         json.dumps({"replay_path": os.path.join(REPLAY_DIR, "C30-standin.py"), "prop": "C30",
                                     "oid": f"{TFILE}::Trampoline/bounded-standin"})], timeout=200)
        st = r if r is not None else {"found": [], "error": err, "cases": 0}
        rep["bounded"].append({"function": f"{TFILE}::Trampoline", "bound": "scenario trees of <= 4 actions / depth 2, past due-time offsets, one cancellation; "
                               "two threads on one CurrentThreadScheduler", "cases": st.get("cases", 0), "mismatches": len(st.get("found", [])),
                               "role": "stand-in (out of subset)" if h.unsupported else "cross-check of the contracts against CPython"})
        if h.unsupported:
            rep["standin"] = st
        elif st.get("found") and all(x["verdict"] == "proved" for x in res):
            rep["crash"] = f"cross-check failed: contracts proved but the native scenario run disagrees: {st['found'][0]}"
    return rep
