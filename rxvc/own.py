"""K5 ownership contracts (C02, C03): every subscription a pipeline stage opens is OWNED by the disposable the stage
returns, so that disposing that disposable (which the terminal notification does through the AutoDetachObserver,
C01, and which unsubscribing does directly) closes every one of them - by the container contracts of C26 (a
container disposes everything it holds, and anything added after it was disposed).  Decided on the real AST,
modularly, one subscribe function (with its nested handlers and helpers) at a time:

  resources     `X.subscribe(...)`, `X.subscribe_safe(...)` - a source subscription -, and `S.schedule*(...)` - a
                scheduled action, which would otherwise still run a handler later (C03).  (`X.connect(...)`, the shared
                connection of a multicast, is C24's business: it outlives single subscribers by design.)
  containers    names bound to CompositeDisposable / SerialDisposable / SingleAssignmentDisposable /
                MultipleAssignmentDisposable / RefCountDisposable / ScheduledDisposable / lists handed to a composite.
  owns          ROOT owns what the subscribe function returns; a container owns its constructor arguments and whatever
                is put into it by `.add(x)`, `.disposable = x`, `.append(x)`, `[i] = x`; aliases own each other; a
                helper's result is owned by what owns the call; an action's result is owned by its scheduled item
                (scheduler contract: the item's SingleAssignmentDisposable takes it, C28/C30); `Disposable(f)` owns
                every x on which the local function f calls `x.dispose()`.
  obligation    every resource expression stands in an owning position whose owner is reachable from ROOT
                (least fixpoint).  `subscribe` functions of the whole library: operators/, observable/, subject-free.
Flow-insensitive, sound under A-static; a resource owned on one path only is not distinguished from one owned on all.
Release-before-the-end (Serial replacing its item, RefCount handing a share to a group) is allowed: ownership is about
never LOSING a subscription, the container contracts say when it is released."""
from __future__ import annotations

import ast
import time

from .loader import Loader

RESOURCE_ATTRS = {"subscribe", "subscribe_safe", "schedule", "schedule_relative", "schedule_absolute",
                  "schedule_periodic", "invoke_rec_immediate", "invoke_rec_date"}
SCHEDULE_ATTRS = {"schedule", "schedule_relative", "schedule_absolute", "schedule_periodic", "invoke_rec_immediate", "invoke_rec_date"}
CONTAINER_CTORS = {"CompositeDisposable", "SerialDisposable", "SingleAssignmentDisposable", "MultipleAssignmentDisposable",
                   "RefCountDisposable", "ScheduledDisposable"}
PUT_METHODS = {"add", "append", "set_disposable"}
ROOT = "<returned>"


def is_resource_call(n):
    return isinstance(n, ast.Call) and isinstance(n.func, ast.Attribute) and n.func.attr in RESOURCE_ATTRS


class Unit:
    """one subscribe function with everything nested in it"""

    def __init__(self, rel, fn, qual, why):
        self.rel, self.fn, self.qual, self.why = rel, fn, qual, why
        self.parents = {}
        for n in ast.walk(fn):
            for c in ast.iter_child_nodes(n):
                self.parents[c] = n
        # local functions (helpers, handlers, actions) by name
        self.local_fns = {n.name: n for n in ast.walk(fn) if isinstance(n, (ast.FunctionDef, ast.AsyncFunctionDef)) and n is not fn}
        self.action_fns = set()   # names handed to schedule*: their result is owned by the scheduled item
        self.edges = {}           # owner -> set of owned names
        self.containers = set()   # names bound to a disposable container

    def enclosing_fn(self, n):
        p = self.parents.get(n)
        while p is not None and not isinstance(p, (ast.FunctionDef, ast.AsyncFunctionDef, ast.Lambda)):
            p = self.parents.get(p)
        return p if p is not None else self.fn

    def own(self, owner, owned):
        self.edges.setdefault(owner, set()).add(owned)

    def binding_scope(self, name_node):
        """the function whose local variable an occurrence of a name refers to (lexical scoping, `nonlocal` respected): two nested
        functions that both bind `d` have two different variables"""
        if not hasattr(self, "_locals"):
            self._locals = {}
            for f in [self.fn] + [n for n in ast.walk(self.fn) if isinstance(n, (ast.FunctionDef, ast.AsyncFunctionDef, ast.Lambda)) and n is not self.fn]:
                names = set()
                a = f.args
                names.update(x.arg for x in a.posonlyargs + a.args + a.kwonlyargs)
                if a.vararg:
                    names.add(a.vararg.arg)
                if a.kwarg:
                    names.add(a.kwarg.arg)
                nonl = set()
                body = f.body if isinstance(f.body, list) else [f.body]
                stack = list(body)
                while stack:
                    n = stack.pop()
                    if isinstance(n, (ast.FunctionDef, ast.AsyncFunctionDef)):
                        names.add(n.name)
                        continue
                    if isinstance(n, (ast.Lambda, ast.ClassDef)):
                        continue
                    if isinstance(n, (ast.Nonlocal, ast.Global)):
                        nonl.update(n.names)
                    if isinstance(n, ast.Name) and isinstance(n.ctx, ast.Store):
                        names.add(n.id)
                    stack.extend(ast.iter_child_nodes(n))
                self._locals[id(f)] = names - nonl
        f = self.enclosing_fn(name_node)
        while True:
            if name_node.id in self._locals.get(id(f), ()):
                return f
            if f is self.fn:
                return None
            f = self.enclosing_fn(f)

    def name_of(self, e):
        """the name a value is known by: x, x[i] -> x, self.x -> self.x - qualified by the function that binds the variable"""
        if isinstance(e, ast.Name):
            f = self.binding_scope(e)
            if f is None or f is self.fn:
                return e.id
            return f"{e.id}@{getattr(f, 'name', 'lambda')}:{f.lineno}"
        if isinstance(e, ast.Subscript):
            return self.name_of(e.value)
        if isinstance(e, ast.Attribute) and isinstance(e.value, ast.Name):
            base = self.name_of(e.value)
            return f"{base}.{e.attr}"
        if isinstance(e, ast.Starred):
            return self.name_of(e.value)
        return None

    def analyse(self):
        fn = self.fn
        # which local functions are actions / return resources
        for n in ast.walk(fn):
            if isinstance(n, ast.Call) and isinstance(n.func, ast.Attribute) and n.func.attr in SCHEDULE_ATTRS:
                for a in list(n.args) + [k.value for k in n.keywords]:
                    if isinstance(a, ast.Name) and a.id in self.local_fns:
                        self.action_fns.add(a.id)
        # ownership edges
        for n in ast.walk(fn):
            if isinstance(n, ast.Return) and n.value is not None:
                f = self.enclosing_fn(n)
                if f is fn:
                    self.own_expr(ROOT, n.value)
                elif isinstance(f, ast.FunctionDef) and f.name in self.action_fns:
                    self.own_expr(ROOT + ":item-of-" + f.name, n.value)
                elif isinstance(f, ast.FunctionDef):
                    self.own_expr("<result-of>" + f.name, n.value)
            elif isinstance(n, (ast.Assign, ast.AnnAssign)) and n.value is not None:
                targets = n.targets if isinstance(n, ast.Assign) else [n.target]
                for t in targets:
                    if isinstance(t, ast.Attribute) and t.attr in ("disposable", "subscription"):
                        owner = self.name_of(t.value)
                        if owner:
                            self.own_expr(owner, n.value)
                    elif isinstance(t, ast.Subscript):
                        owner = self.name_of(t.value)
                        if owner:
                            self.own_expr(owner, n.value)
                    elif isinstance(t, (ast.Name, ast.Attribute)):
                        tn = self.name_of(t)
                        if tn:
                            self.bind(tn, n.value)
                    elif isinstance(t, (ast.Tuple, ast.List)) and isinstance(n.value, (ast.Tuple, ast.List)) and len(t.elts) == len(n.value.elts):
                        for tt, vv in zip(t.elts, n.value.elts):
                            tn = self.name_of(tt)
                            if tn:
                                self.bind(tn, vv)
            elif isinstance(n, ast.Call) and isinstance(n.func, ast.Attribute) and n.func.attr in PUT_METHODS:
                owner = self.name_of(n.func.value)
                if owner:
                    for a in n.args:
                        self.own_expr(owner, a)
            elif isinstance(n, ast.Call) and isinstance(n.func, ast.Attribute) and n.func.attr in ("extend",):
                owner = self.name_of(n.func.value)
                if owner:
                    for a in n.args:
                        self.own_expr(owner, a)
        # actions are owned by their scheduled items: the item is the schedule* call that takes the action
        for n in ast.walk(fn):
            if isinstance(n, ast.Call) and isinstance(n.func, ast.Attribute) and n.func.attr in SCHEDULE_ATTRS:
                for a in list(n.args) + [k.value for k in n.keywords]:
                    if isinstance(a, ast.Name) and a.id in self.action_fns:
                        self.item_calls.setdefault(a.id, []).append(n)

    item_calls: dict

    def bind(self, tn, value):
        """tn = value"""
        if isinstance(value, ast.Call) and isinstance(value.func, ast.Name) and value.func.id in CONTAINER_CTORS:
            self.containers.add(tn)
            for a in value.args:
                self.own_expr(tn, a)
        elif isinstance(value, ast.Name) or (isinstance(value, ast.Attribute) and self.name_of(value)):
            vn = self.name_of(value)
            self.own(tn, vn)
            self.own(vn, tn)
        elif isinstance(value, (ast.List, ast.Tuple)):
            for a in value.elts:
                self.own_expr(tn, a)
        elif isinstance(value, ast.ListComp):
            self.own_expr(tn, value.elt)
        elif isinstance(value, ast.IfExp):
            self.bind(tn, value.body)
            self.bind(tn, value.orelse)
        elif isinstance(value, ast.BoolOp):
            for v in value.values:
                self.bind(tn, v)
        elif is_resource_call(value):
            self.site_owned[id(value)] = tn
        elif self.is_local_call(value):
            self.call_owned[id(value)] = tn
            self.own(tn, "<result-of>" + value.func.id)
        elif isinstance(value, ast.BinOp):
            self.bind(tn, value.left)
            self.bind(tn, value.right)
        elif isinstance(value, ast.Call) and isinstance(value.func, ast.Name) and value.func.id == "Disposable" and value.args:
            self.own_dispose_fn(tn, value.args[0])
        elif isinstance(value, ast.Call) and isinstance(value.func, ast.Name) and value.func.id == "cast" and len(value.args) == 2:
            self.bind(tn, value.args[1])

    site_owned: dict

    call_owned: dict

    def is_local_call(self, e):
        return isinstance(e, ast.Call) and isinstance(e.func, ast.Name) and e.func.id in self.local_fns

    def is_resource_expr(self, e):
        return is_resource_call(e)

    def own_dispose_fn(self, owner, f):
        """Disposable(f): owns every x that f disposes"""
        body = None
        if isinstance(f, ast.Name) and f.id in self.local_fns:
            body = self.local_fns[f.id]
        elif isinstance(f, ast.Lambda):
            body = f
        elif isinstance(f, ast.Attribute) and f.attr == "dispose":
            n = self.name_of(f.value)
            if n:
                self.own(owner, n)
            return
        if body is None:
            return
        for n in ast.walk(body):
            if isinstance(n, ast.Call) and isinstance(n.func, ast.Attribute) and n.func.attr == "dispose":
                x = self.name_of(n.func.value)
                if x:
                    self.own(owner, x)

    def own_expr(self, owner, e):
        """`owner` takes the value of expression e"""
        if e is None:
            return
        if self.is_resource_expr(e):
            self.site_owned[id(e)] = owner
            return
        if self.is_local_call(e):
            self.call_owned[id(e)] = owner
            self.own(owner, "<result-of>" + e.func.id)
            return
        if isinstance(e, ast.BinOp):
            self.own_expr(owner, e.left)
            self.own_expr(owner, e.right)
            return
        if isinstance(e, ast.Call) and isinstance(e.func, ast.Name) and e.func.id == "Disposable" and e.args:
            self.own_dispose_fn(owner, e.args[0])
            return
        if isinstance(e, ast.Call) and isinstance(e.func, ast.Name) and e.func.id in CONTAINER_CTORS:
            args = list(e.args)
            if e.func.id == "CompositeDisposable":
                # constructor contract (ctor.py): CompositeDisposable(a, b, ...) holds a, b, ...; CompositeDisposable([a, b]) holds a, b; but when
                # the FIRST argument is a list, that list is the whole content - whatever follows it is ignored (and so owned by nobody)
                if len(args) == 1 and isinstance(args[0], ast.Starred):
                    tup = self.tuple_of(args[0].value)
                    if tup is not None:
                        args = list(tup)
                if len(args) >= 2 and self.may_be_list(args[0]):
                    self.own_expr(owner, args[0])
                    return
                if len(e.args) == 1 and isinstance(e.args[0], ast.Starred) and self.tuple_of(e.args[0].value) is not None:
                    for a in args:
                        self.own_expr(owner, a)
                    return
            for a in e.args:
                self.own_expr(owner, a)
            return
        if isinstance(e, ast.Call) and isinstance(e.func, ast.Name) and e.func.id == "cast" and len(e.args) == 2:
            self.own_expr(owner, e.args[1])
            return
        if isinstance(e, (ast.List, ast.Tuple)):
            for a in e.elts:
                self.own_expr(owner, a)
            return
        if isinstance(e, ast.Starred):
            self.own_expr(owner, e.value)
            return
        if isinstance(e, ast.IfExp):
            self.own_expr(owner, e.body)
            self.own_expr(owner, e.orelse)
            return
        if isinstance(e, ast.ListComp):
            self.own_expr(owner, e.elt)
            return
        n = self.name_of(e)
        if n:
            self.own(owner, n)

    def tuple_of(self, v):
        """the element expressions when v is a tuple / list display, or a call of a local helper every return of which is a tuple display"""
        if isinstance(v, (ast.Tuple, ast.List)):
            return list(v.elts)
        if self.is_local_call(v):
            f = self.local_fns.get(v.func.id)
            rets = [n for n in ast.walk(f) if isinstance(n, ast.Return) and n.value is not None and self.enclosing_fn(n) is f] if f is not None else []
            if rets and all(isinstance(r.value, ast.Tuple) for r in rets) and len({len(r.value.elts) for r in rets}) == 1:
                return list(rets[0].value.elts)
        return None

    def is_outer_parameter(self, name):
        """a name that is neither bound in this subscribe function nor at module level (imports, defs, constants): a parameter / local of the
        enclosing operator function - for a call target that means a function the USER handed to the operator"""
        if name in self.local_fns or name in CONTAINER_CTORS or name in ("Disposable", "cast", "getattr", "list", "tuple", "iter", "next", "len", "isinstance"):
            return False
        for n in ast.walk(self.fn):
            if isinstance(n, ast.Name) and n.id == name and isinstance(n.ctx, ast.Store):
                return False
            if isinstance(n, ast.arg) and n.arg == name:
                return False
        if not hasattr(self, "_module_names"):
            names = set()
            try:
                tree = Loader().load_file(self.rel).tree
                for st in tree.body:
                    if isinstance(st, (ast.Import, ast.ImportFrom)):
                        names.update((a.asname or a.name).split(".")[0] for a in st.names)
                    elif isinstance(st, (ast.FunctionDef, ast.AsyncFunctionDef, ast.ClassDef)):
                        names.add(st.name)
                    elif isinstance(st, ast.Assign):
                        names.update(t.id for t in st.targets if isinstance(t, ast.Name))
                    elif isinstance(st, ast.AnnAssign) and isinstance(st.target, ast.Name):
                        names.add(st.target.id)
            except Exception:  # noqa: BLE001
                names = None
            self._module_names = names
        if self._module_names is None:
            return False
        import builtins as _b
        return name not in self._module_names and not hasattr(_b, name)

    def surely_a_disposable(self, v, depth=0):
        """the expression is a disposable made here (a container / Disposable constructor, a subscription or scheduling call) - so NOT a list"""
        if self.is_resource_expr(v):
            return True
        if isinstance(v, ast.Call) and isinstance(v.func, ast.Name) and (v.func.id in CONTAINER_CTORS or v.func.id in ("Disposable", "BooleanDisposable", "cast")):
            return v.func.id != "cast" or (len(v.args) == 2 and self.surely_a_disposable(v.args[1], depth))
        if isinstance(v, ast.Name) and depth < 3:
            f = self.enclosing_fn(v) or self.fn
            vals = []
            for n in ast.walk(f):
                if isinstance(n, ast.Assign) and any(isinstance(t, ast.Name) and t.id == v.id for t in n.targets):
                    vals.append(n.value)
                elif isinstance(n, ast.AnnAssign) and isinstance(n.target, ast.Name) and n.target.id == v.id and n.value is not None:
                    vals.append(n.value)
            return bool(vals) and all(self.surely_a_disposable(x, depth + 1) for x in vals)
        return False

    def may_be_list(self, v, depth=0):
        if isinstance(v, (ast.List, ast.ListComp)):
            return True
        if isinstance(v, ast.Name) and depth < 3 and not self.surely_a_disposable(v):
            # what a USER's factory returned (a call of a parameter of the operator - resource_factory() in using): nothing says it is not a
            # list (subclass).  Results of the library's own calls (scheduler methods, helpers, module-level functions) are not suspected.
            f = self.enclosing_fn(v) or self.fn
            for b in ast.walk(f):
                if isinstance(b, ast.Assign) and any(isinstance(t, ast.Name) and t.id == v.id for t in b.targets):
                    val = b.value
                    if isinstance(val, ast.Call) and isinstance(val.func, ast.Name) and self.is_outer_parameter(val.func.id):
                        return True
                    if isinstance(val, ast.Name) and val.id != v.id and self.may_be_list(val, depth + 1):
                        return True
        if isinstance(v, ast.BinOp) and isinstance(v.op, ast.Add):
            return self.may_be_list(v.left, depth) or self.may_be_list(v.right, depth)
        if isinstance(v, ast.Call) and isinstance(v.func, ast.Name) and v.func.id in ("list", "sorted"):
            return True
        if isinstance(v, ast.Name) and depth < 3:
            f = self.enclosing_fn(v) or self.fn
            for n in ast.walk(f):
                val = None
                if isinstance(n, ast.Assign) and any(isinstance(t, ast.Name) and t.id == v.id for t in n.targets):
                    val = n.value
                elif isinstance(n, ast.AnnAssign) and isinstance(n.target, ast.Name) and n.target.id == v.id:
                    val = n.value
                    ann = ast.unparse(n.annotation) if n.annotation is not None else ""
                    if ann.startswith(("list", "List")):
                        return True
                if val is not None and self.may_be_list(val, depth + 1):
                    return True
        return False

    def owned_set(self):
        seen, work = set(), [ROOT]
        while work:
            o = work.pop()
            if o in seen:
                continue
            seen.add(o)
            for x in self.edges.get(o, ()):
                work.append(x)
            # an action's result is owned if the action's scheduled item is owned; a helper's result if a call of it is
        return seen

    def run(self):
        self.item_calls, self.site_owned, self.call_owned = {}, {}, {}
        self.analyse()
        # an action's result is owned by its scheduled item, i.e. by whatever owns the schedule* call that takes the action
        for fname, calls in self.item_calls.items():
            for c in calls:
                o = self.site_owned.get(id(c))
                if o is not None:
                    self.own(o, ROOT + ":item-of-" + fname)
        owned = self.owned_set()
        out = []
        for n in ast.walk(self.fn):
            if not self.is_resource_expr(n):
                continue
            # a call `helper()` counts only where the helper hands a resource back
            owner = self.site_owned.get(id(n))
            par = self.parents.get(n)
            what = ast.unparse(n)
            what = what if len(what) < 90 else what[:87] + "..."
            kind = "scheduled-action" if (isinstance(n.func, ast.Attribute) and n.func.attr in SCHEDULE_ATTRS) else "subscription"
            if owner is None:
                pos = "discarded" if isinstance(par, ast.Expr) else f"used as {type(par).__name__}"
                out.append((n, kind, False, f"`{what}` (line {n.lineno}): its disposable is {pos} - nothing that the returned disposable owns takes it"))
            elif owner not in owned:
                out.append((n, kind, False, f"`{what}` (line {n.lineno}) is handed to `{owner}`, which the returned disposable does not own"))
            else:
                out.append((n, kind, True, f"owned through `{owner}`"))
        # a local helper that hands back something holding a subscription: every call of it must take the result
        holding = set()
        carriers = set(self.site_owned.values()) | set(self.call_owned.values()) | self.containers
        for fname in self.local_fns:
            key = "<result-of>" + fname
            seen, work = set(), [key]
            while work:
                o = work.pop()
                if o in seen:
                    continue
                seen.add(o)
                work.extend(self.edges.get(o, ()))
            if seen & carriers:
                holding.add(fname)
        for n in ast.walk(self.fn):
            if self.is_local_call(n) and n.func.id in holding:
                owner = self.call_owned.get(id(n))
                what = ast.unparse(n)[:80]
                if owner is None:
                    out.append((n, "helper-result", False, f"`{what}` (line {n.lineno}) returns a disposable that holds a subscription, and the call drops it"))
                elif owner not in owned:
                    out.append((n, "helper-result", False, f"`{what}` (line {n.lineno}): its result goes to `{owner}`, which the returned disposable does not own"))
                else:
                    out.append((n, "helper-result", True, f"owned through `{owner}`"))
        return out


def share_obligations(u: Unit):
    """ref-counted shares (`add_ref(x, r)`, `GroupedObservable(key, subject, r)`) keep the stage's sources open while a
    group / window subscriber is still there.  They are handed to the subscriber and to nobody else: a share held inside
    the stage itself (subscribed, or given to a user function whose result the stage subscribes) would keep the sources
    open for ever, since the stage's own subscriptions are released only when the last share is."""
    fn = u.fn
    obs = fn.args.args[0].arg if fn.args.args and fn.args.args[0].arg != "self" else (fn.args.args[1].arg if len(fn.args.args) > 1 else "observer")

    def is_share(e):
        if isinstance(e, ast.Call) and isinstance(e.func, ast.Name):
            if e.func.id in ("add_ref", "AddRef") and len(e.args) >= 2:
                return True
            if e.func.id == "GroupedObservable" and (len(e.args) >= 3 or any(k.arg == "merged_disposable" for k in e.keywords)):
                return True
        return False

    def goes_downstream(node):
        """node is (inside tuples only) an argument of <observer>.on_next(...)"""
        p = u.parents.get(node)
        while isinstance(p, (ast.Tuple, ast.List)):
            node, p = p, u.parents.get(p)
        return (isinstance(p, ast.Call) and isinstance(p.func, ast.Attribute) and p.func.attr == "on_next"
                and isinstance(p.func.value, ast.Name) and p.func.value.id == obs and node in p.args)

    out = []
    for n in ast.walk(fn):
        if not is_share(n):
            continue
        p = u.parents.get(n)
        q = p
        while isinstance(q, (ast.Tuple, ast.List)):
            q = u.parents.get(q)
        what = ast.unparse(n)[:70]
        if goes_downstream(n):
            out.append((n, True, "handed to the subscriber"))
            continue
        names = []
        if isinstance(q, (ast.Assign, ast.AnnAssign)):
            tg = q.targets[0] if isinstance(q, ast.Assign) else q.target
            if isinstance(tg, ast.Name):
                names.append(tg.id)
        if not names:
            out.append((n, False, f"`{what}` (line {n.lineno}) is a ref-counted share that is not handed to the subscriber's on_next"))
            continue
        bad = []
        for m in ast.walk(fn):
            if isinstance(m, ast.Name) and m.id == names[0] and isinstance(m.ctx, ast.Load) and not goes_downstream(m):
                pp = u.parents.get(m)
                # re-binding into another name that itself only goes downstream (result = mapper(..)) is not followed: reported
                bad.append(f"line {m.lineno}: `{ast.unparse(pp)[:60]}`")
        if bad:
            out.append((n, False, f"the ref-counted share `{names[0]}` (line {n.lineno}) is also used inside the stage itself - {bad[0]} - "
                                  f"so the stage would hold a share of its own sources"))
        else:
            out.append((n, True, f"`{names[0]}` is only handed to the subscriber"))
    return out


# ---------------------------------------------------------------------------------------------------------------------------------
# C03, "no user callback of that pipeline runs on its behalf" - the part the ownership conditions do not give: a subscriber may
# unsubscribe from INSIDE on_next (take(n), first, an explicit dispose).  dispose() then returns while the operator's handler is still
# on the stack: whatever the handler goes on to do after `observer.on_next(...)` returned is done for a subscriber that is gone.
#   obligation (per handler nested in a subscribe function, on the real AST, path-insensitive over conditions):  on every path, between
#   handing an element downstream and a call of a user function (a parameter of the operator's factory, or a local alias of one) or a
#   new `.subscribe(` - directly or through local helpers - stands a re-check of the subscription:  `if <owned disposable>.is_disposed`.
# What counts: emission = any `<x>.on_next(..)` (the subscriber, or a window / group / subject handed to it), or a local helper that does so;
# re-check = an `if` whose test reads `.is_disposed` of a name the returned disposable owns (or of the returned object itself).
AFTER_EMISSION_DEPTH = 4


def _own_calls(node):
    """calls evaluated when `node` runs (not those inside nested function definitions / lambdas), in source order"""
    out = []

    class V(ast.NodeVisitor):
        def visit_FunctionDef(self, n):
            pass

        visit_AsyncFunctionDef = visit_FunctionDef

        def visit_Lambda(self, n):
            pass

        def visit_Call(self, n):
            self.generic_visit(n)
            out.append(n)
    V().visit(node)
    return out


def _params(fn):
    a = fn.args
    return [x.arg for x in a.posonlyargs + a.args + a.kwonlyargs] + ([a.vararg.arg] if a.vararg else []) + ([a.kwarg.arg] if a.kwarg else [])


def enclosing_chain(tree, target):
    """the function definitions enclosing `target` in the module, outermost first"""
    def find(node, chain):
        for c in ast.iter_child_nodes(node):
            if c is target:
                return chain
            nxt = chain + [c] if isinstance(c, (ast.FunctionDef, ast.AsyncFunctionDef)) else chain
            r = find(c, nxt)
            if r is not None:
                return r
        return None
    return find(tree, []) or []


def after_emission_obligations(u: Unit, tree):
    """[(handler name, ordinal, ok, detail)] - see the block comment above"""
    fn = u.fn
    ps = _params(fn)
    if not ps:
        return []
    obs = ps[0] if ps[0] != "self" else (ps[1] if len(ps) > 1 else None)
    if obs is None:
        return []
    user = set()
    for f in enclosing_chain(tree, fn):
        user |= set(_params(f))
    user -= {"source", "self", "scheduler", "sources"}
    # local aliases of user functions (`mapper_ = mapper or identity`), in the factory functions and in subscribe itself
    for f in enclosing_chain(tree, fn) + [fn]:
        for st in f.body:
            if (isinstance(st, ast.Assign) and len(st.targets) == 1 and isinstance(st.targets[0], ast.Name) and not isinstance(st.value, ast.Call)
                    and any(isinstance(n, ast.Name) and n.id in user for n in ast.walk(st.value))):
                user.add(st.targets[0].id)
    owned = u.owned_set()

    def is_recheck(test, depth=0):
        for n in ast.walk(test):
            if isinstance(n, ast.Attribute) and n.attr == "is_disposed":
                nm = u.name_of(n.value)
                if nm is not None and (nm in owned or nm in u.containers):
                    return True
            if isinstance(n, ast.Call) and isinstance(n.func, ast.Name) and n.func.id in u.local_fns and depth < 2:
                # a local predicate (`def gone(): return d.is_disposed`)
                g = u.local_fns[n.func.id]
                if any(isinstance(r, ast.Return) and r.value is not None and is_recheck(r.value, depth + 1) for r in ast.walk(g)):
                    return True
        return False

    def emits(call, depth=0):
        f = call.func
        if isinstance(f, ast.Attribute) and f.attr == "on_next":
            # the subscriber itself, or a window / group / subject it was handed: its on_next runs the subscriber's code
            return True
        if isinstance(f, ast.Name) and f.id in u.local_fns and depth < AFTER_EMISSION_DEPTH:
            return any(emits(c, depth + 1) for st in u.local_fns[f.id].body for c in _own_calls(st))
        return False

    def risky(call, depth=0):
        f = call.func
        if isinstance(f, ast.Name) and f.id in user:
            return f"calls the user's `{f.id}`"
        if isinstance(f, ast.Attribute) and f.attr in ("subscribe", "subscribe_safe"):
            return f"subscribes `{ast.unparse(f.value)[:60]}`"
        if isinstance(f, ast.Name) and f.id in u.local_fns and depth < AFTER_EMISSION_DEPTH:
            g = u.local_fns[f.id]
            for st in g.body:
                if isinstance(st, ast.If) and is_recheck(st.test):
                    return None  # the helper re-checks first
                for c in _own_calls(st):
                    r = risky(c, depth + 1)
                    if r:
                        return f"`{f.id}()` {r}"
        return None

    out = []

    def check(h):
        found = []     # (ok, detail)
        emitted_any = [False]

        def calls(node, emitted):
            for c in _own_calls(node):
                r = risky(c)
                if emitted and r:
                    found.append((False, f"{r} (line {c.lineno}) after the element was handed downstream (line {emitted}) without re-checking "
                                         f"that the subscriber is still subscribed: a subscriber that unsubscribes inside on_next (take(n), first) "
                                         f"still has this done on its behalf"))
                if emits(c):
                    emitted = c.lineno
                    emitted_any[0] = True
            return emitted

        def block(stmts, emitted):
            for st in stmts:
                if isinstance(st, (ast.FunctionDef, ast.AsyncFunctionDef, ast.ClassDef)):
                    continue
                if isinstance(st, ast.If):
                    if is_recheck(st.test):
                        if emitted:
                            found.append((True, f"re-checks the subscription (line {st.lineno}) after the emission at line {emitted}"))
                        block(st.body, None)
                        block(st.orelse, None)
                        emitted = None
                        continue
                    emitted = calls(st.test, emitted)
                    e1, e2 = block(st.body, emitted), block(st.orelse, emitted)
                    emitted = e1 or e2
                    continue
                if isinstance(st, (ast.For, ast.AsyncFor, ast.While)):
                    emitted = calls(st.iter if not isinstance(st, ast.While) else st.test, emitted)
                    e = block(st.body, emitted)
                    if e and not emitted:
                        n0 = len(found)
                        block(st.body, e)  # the next iteration runs after this one's emission
                        del found[n0 + 8:]
                    emitted = e or emitted
                    emitted = block(st.orelse, emitted)
                    continue
                if isinstance(st, ast.Try):
                    e = block(st.body, emitted)
                    for hd in st.handlers:
                        block(hd.body, e or emitted)
                    e = block(st.orelse, e)
                    emitted = block(st.finalbody, e)
                    continue
                if isinstance(st, (ast.With, ast.AsyncWith)):
                    for item in st.items:
                        emitted = calls(item.context_expr, emitted)
                    emitted = block(st.body, emitted)
                    continue
                emitted = calls(st, emitted)
                if isinstance(st, (ast.Return, ast.Raise, ast.Continue, ast.Break)):
                    return None
            return emitted
        block(h.body, None)
        return found, emitted_any[0]

    nested = [n for n in ast.walk(fn) if isinstance(n, (ast.FunctionDef, ast.AsyncFunctionDef)) and n is not fn]
    for h in sorted(nested, key=lambda n: n.lineno):
        name = h.name
        found, emitted = check(h)
        if not emitted:
            continue
        # one obligation per distinct site, and one that says the handler does nothing else afterwards
        seen = set()
        k = 0
        for ok, detail in found:
            if detail in seen:
                continue
            seen.add(detail)
            k += 1
            out.append((name, h.lineno, k, ok, detail))
        if not any(not ok for ok, _ in found):
            out.append((name, h.lineno, 0, True, "nothing is done for the subscriber after an element was handed downstream unless the subscription is re-checked"))
    return out


def subscribe_functions(tree):
    """(function node, qualname, why): functions handed to Observable(...) / ConnectableObservable, `_subscribe_core` methods"""
    handed = set()
    for n in ast.walk(tree):
        if isinstance(n, ast.Call) and isinstance(n.func, ast.Name) and n.func.id in ("Observable", "GroupedObservable", "AddRef") and n.args:
            if isinstance(n.args[0], ast.Name):
                handed.add(n.args[0].id)
        if isinstance(n, ast.Call) and isinstance(n.func, ast.Name) and n.func.id in ("Observable",):
            for k in n.keywords:
                if isinstance(k.value, ast.Name):
                    handed.add(k.value.id)
        if isinstance(n, ast.Call) and isinstance(n.func, ast.Name) and n.func.id == "GroupedObservable" and len(n.args) > 1 and isinstance(n.args[1], ast.Name):
            handed.add(n.args[1].id)
    out = []

    def visit(node, qual, inside):
        for c in ast.iter_child_nodes(node):
            if isinstance(c, (ast.FunctionDef, ast.AsyncFunctionDef)):
                q = f"{qual}.{c.name}" if qual else c.name
                if not inside and (c.name in handed or c.name == "_subscribe_core"):
                    out.append((c, q, "handed to Observable(...)" if c.name in handed else "subscribe method"))
                    visit(c, q, True)
                else:
                    visit(c, q, inside)
            elif isinstance(c, ast.ClassDef):
                visit(c, f"{qual}.{c.name}" if qual else c.name, inside)
            else:
                visit(c, qual, inside)
    visit(tree, "", False)
    return out


def target_files(loader):
    from .loader import repo_py_files
    fs = repo_py_files(loader.repo, "reactivex/operators") + repo_py_files(loader.repo, "reactivex/observable")
    return sorted(r for r in fs if not r.endswith("__init__.py") and "/mixins/" not in r)


#: must-fail mutants (thorough tier): (file, old text, new text, what the change loses)
MUTANTS = [
    ("reactivex/operators/_merge.py", "group.add(inner_subscription)", "pass", "merge: the inner subscription is not put into the group"),
    ("reactivex/operators/_timeout.py", "return CompositeDisposable(subscription, timer)", "return subscription", "timeout: the timer is not returned"),
    ("reactivex/operators/_debounce.py", "return CompositeDisposable(subscription, cancelable)", "return subscription", "debounce: the pending timer is not returned"),
    ("reactivex/operators/_takeuntil.py", "return CompositeDisposable(", "return list((", "take_until: subscriptions returned in a plain list"),
    ("reactivex/operators/_switchlatest.py", "inner_subscription.disposable = d", "pass", "switch_latest: the inner subscription is not put into the serial slot"),
    ("reactivex/operators/_window.py", "observer.on_next(add_ref(window_subject, r))", "observer.on_next(window_subject); add_ref(window_subject, r).subscribe()", "window: a share subscribed inside the stage"),
]


#: must-fail mutants of the after-emission obligations (C03): the re-check of the subscription is taken out / moved behind the work
MUTANTS_C03 = [
    ("reactivex/operators/_expand.py", "                    if d.is_disposed:\n                        return\n", "", "expand: no re-check after the emission"),
    ("reactivex/operators/_groupjoin.py", "                if rcd.is_disposed:\n                    return\n", "", "group_join: no re-check after the window was handed on"),
    ("reactivex/observable/generatewithrelativetime.py", "                if mad.is_disposed:\n", "                if False:\n", "generate_with_relative_time: no re-check"),
    ("reactivex/operators/_window.py", "                if d.is_disposed:\n                    return\n", "                if window.is_disposed:\n                    return\n",
     "window_when: re-checks something that is not part of the subscription"),
]


def must_fail():
    res = {"mutants": 0, "killed": 0, "survivors": []}
    base = Loader()
    for (rel, old, new, what) in MUTANTS + MUTANTS_C03:
        src = base.load_file(rel).src
        if old not in src:
            continue
        ld = Loader()
        ld.overrides = {rel: src.replace(old, new, 1)}
        try:
            rep = run_unit({"prop": "C03" if (rel, old, new, what) in MUTANTS_C03 else "C02"}, loader=ld, only=rel)
            killed = any(r["verdict"] != "proved" for r in rep["results"])
        except SyntaxError:
            continue
        res["mutants"] += 1
        if killed:
            res["killed"] += 1
        else:
            res["survivors"].append(what)
    return res


def run_unit(desc, loader=None, only=None):
    t0 = time.time()
    mutated = loader is not None
    loader = loader or Loader()
    results, functions = [], {}
    for rel in target_files(loader):
        if only is not None and rel != only:
            continue
        if desc.get("files") and rel not in desc["files"]:
            continue  # (a property that re-proves the ownership contracts of its own anchor files only)
        tree = loader.load_file(rel).tree
        for (fn, qual, why) in subscribe_functions(tree):
            u = Unit(rel, fn, qual, why)
            sites = u.run()
            label = f"{rel}::{qual}"
            if sites:
                try:
                    functions[label] = loader.sha(rel, qual.split(".")[0])
                except Exception:  # noqa: BLE001
                    pass
            counts = {}
            for (n, kind, ok, detail) in sites:
                attr = n.func.attr if isinstance(n.func, ast.Attribute) else n.func.id
                k = counts[attr] = counts.get(attr, 0) + 1
                results.append({"id": f"{label}/ownership/{attr}#{k}/{kind}-owned-by-the-returned-disposable", "verdict": "proved" if ok else "refuted",
                                "backend": "ownership-analysis", "model": {}, "path": [], "detail": detail, "seconds": 0.0, "kind": "ownership"})
            if desc.get("prop") == "C03" or desc.get("after_emission"):
                dup = {}
                for (hname, hline, k, ok, detail) in after_emission_obligations(u, tree):
                    # handlers are named by their function name (+ an ordinal when two nested handlers share a name), not by line
                    base = f"{label}/{hname}"
                    lines = dup.setdefault(base, [])
                    if hline not in lines:
                        lines.append(hline)
                    hid = base if lines.index(hline) == 0 else f"{base}~{lines.index(hline) + 1}"
                    leaf = "does-nothing-more-for-a-subscriber-that-may-have-unsubscribed-inside-on_next" if k == 0 else \
                        f"work#{k}-after-the-emission-is-behind-a-re-check-of-the-subscription"
                    results.append({"id": f"{hid}/after-handing-an-element-downstream/{leaf}", "verdict": "proved" if ok else "refuted",
                                    "backend": "ownership-analysis", "model": {}, "path": [], "detail": detail, "seconds": 0.0, "kind": "after-emission"})
                    try:
                        functions.setdefault(label, loader.sha(rel, qual.split(".")[0]))
                    except Exception:  # noqa: BLE001
                        pass
            for j, (n, ok, detail) in enumerate(share_obligations(u)):
                results.append({"id": f"{label}/ownership/share#{j + 1}/ref-counted-share-handed-only-to-the-subscriber", "verdict": "proved" if ok else "refuted",
                                "backend": "ownership-analysis", "model": {}, "path": [], "detail": detail, "seconds": 0.0, "kind": "ownership"})
    for r in results:
        if r["verdict"] == "refuted" and r["kind"] == "after-emission":
            # replayed by the shapes of that operator file only, with the subscriber unsubscribing inside its k-th on_next
            r["replay_info"] = {"runner": "ownrun.py", "module": "-", "name": r["id"].split("::")[0], "mode": "replay",
                                "opts": {"only_matching": True, "only_kind": "dispose_in_on_next"}}
        elif r["verdict"] == "refuted":
            r["replay_info"] = {"runner": "ownrun.py", "module": "-", "name": r["id"].split("/ownership/")[0], "mode": "replay"}
    rep = {"unit": f"ownership-conditions/{desc.get('prop', 'C02')}", "kind": "K5 ownership: every subscription is owned by the returned disposable (AST, modular)",
           "functions": functions, "results": results, "unsupported": None, "spec_validation": [], "bounded": [], "seconds": time.time() - t0}
    if desc.get("tier") == "thorough" and not mutated:
        import json
        import os
        from .report import native, VERIF
        mf = must_fail()
        rep["must_fail"] = dict(mf, unit=rep["unit"])
        if mf["mutants"] and mf["killed"] < mf["mutants"]:
            rep["crash"] = f"vacuity: ownership mutants not refuted: {mf['survivors']}"
        res, err = native([os.path.join(VERIF, "rxvc", "ownrun.py"), "replay", "-", "all", json.dumps({})], timeout=400)
        if res is None:
            rep["bounded"].append({"function": "ownrun table", "bound": "did not run: " + str(err)[:200], "cases": 0})
        else:
            rep["bounded"].append({"function": "ownrun table", "bound": f"{res.get('shapes', 74)} pipeline shapes x 16 termination patterns of two cold sources x every distinct dispose time "
                                   "(+ a subscriber whose terminal callback raises, + the subscriber unsubscribing inside its 1st / 2nd / 3rd on_next with "
                                   "every user function of the shape logging its calls), TestScheduler", "cases": res.get("cases", 0),
                                   "mismatches": len(res.get("found", [])), "role": "cross-check of the ownership analysis against CPython"})
            if res.get("found") and all(r["verdict"] == "proved" for r in results):
                rep["crash"] = f"cross-check failed: the ownership analysis passed but the native run found {json.dumps(res['found'][0], default=repr)[:600]}"
    return rep


if __name__ == "__main__":
    import sys
    r = run_unit({"prop": "C02"})
    bad = [x for x in r["results"] if x["verdict"] != "proved"]
    print(len(r["results"]), "sites;", len(bad), "not owned;", len(r["functions"]), "functions")
    for x in bad:
        print(" ", x["id"].split("::", 1)[0].split("/")[-1], x["id"].split("/ownership/")[0].split("::")[1], "|", x["detail"])
    sys.exit(1 if bad else 0)
