"""Value universe of the rxvc symbolic interpreter."""
from __future__ import annotations

import z3

from . import smt


class Unsupported(Exception):
    """construct outside the supported subset -> function is 'out of subset' (never a violation)."""


class PathEnd(Exception):
    """the current path stops here (infeasible, cut at a loop invariant, or harness decision)."""


class PyExc(Exception):
    """a Python exception travelling through interpreted code."""

    def __init__(self, value):
        super().__init__(repr(value))
        self.value = value


class SV:
    """symbolic value: z3 term + kind in int|bool|val|seq|ev|seqev"""

    __slots__ = ("t", "kind", "tag")

    def __init__(self, t, kind, tag=None):
        self.t = t
        self.kind = kind
        self.tag = tag

    def __repr__(self):
        return f"SV<{self.kind}:{self.t}>"


class ListObj:
    """Python list / deque. Either a concrete spine (items) or a symbolic sequence (term)."""

    __slots__ = ("items", "term", "elem", "oid", "is_deque")
    _n = 0

    def __init__(self, items=None, term=None, elem="val"):
        self.items = items if term is None else None
        if self.items is None and term is None:
            self.items = []
        self.term = term
        self.elem = elem
        ListObj._n += 1
        self.oid = ListObj._n
        self.is_deque = False

    @property
    def symbolic(self):
        return self.term is not None

    def __repr__(self):
        return f"List<{self.term if self.symbolic else self.items}>"


def frozen_copy(v):
    """an independent copy of a mutable container as it is NOW (containers are mutated in place: a state snapshot that keeps only the
    reference shows whatever the container holds when the snapshot is READ); everything else is returned as it is"""
    if isinstance(v, ListObj):
        c = ListObj(list(v.items) if v.items is not None else None, v.term, v.elem)
        c.is_deque = v.is_deque
        return c
    if isinstance(v, DictObj):
        c = DictObj(dict(v.d), v.log)
        c.ordered, c.symbolic, c.hist = v.ordered, v.symbolic, (list(v.hist) if v.hist is not None else None)
        return c
    if isinstance(v, SetObj):
        c = SetObj(list(v.s), v.log)
        c.symbolic, c.hist = v.symbolic, (list(v.hist) if v.hist is not None else None)
        return c
    return v


class DictObj:
    """`log`: the insertion history as a z3 Seq[Val] of (key, value) pairs - the dict's content is a function of it;
    `d` is only meaningful while every key was concrete (`symbolic` False)"""
    __slots__ = ("d", "oid", "ordered", "log", "symbolic", "hist")

    def __init__(self, d=None, log=None):
        self.d = d if d is not None else {}
        self.ordered = False
        self.log = log
        self.symbolic = log is not None
        #: (key, value) insertions so far while only insertions happened (None: unknown history)
        self.hist = [] if d is None else None


class SetObj:
    """`log`: the insertion history as a z3 Seq[Val]; `s` (deduplicated items) is only meaningful while `symbolic` is False"""
    __slots__ = ("s", "log", "symbolic", "hist")

    def __init__(self, s=None, log=None):
        self.s = s if s is not None else []
        self.log = log
        self.symbolic = log is not None
        self.hist = list(self.s)


class Obj:
    """instance of an interpreted repo class"""

    _n = 0

    def __init__(self, cls):
        self.cls = cls
        self.fields = {}
        Obj._n += 1
        self.oid = Obj._n

    def __repr__(self):
        return f"<{self.cls.name}#{self.oid}>"


class ClassRef:
    def __init__(self, name, node, module, bases, qualname=None):
        self.name = name
        self.node = node
        self.module = module
        self.bases = bases
        self.attrs = {}
        self.qualname = qualname or name
        self.mro = None

    def __repr__(self):
        return f"<class {self.name}>"


class NativeClass:
    """builtin/stdlib class modelled natively (exceptions, object, Generic, ...)"""

    def __init__(self, name, bases=(), construct=None, is_exc=False):
        self.name = name
        self.bases = list(bases)
        self.construct = construct
        self.is_exc = is_exc
        self.attrs = {}
        self.mro = None
        self.node = None
        self.module = None

    def __repr__(self):
        return f"<native class {self.name}>"


class Closure:
    def __init__(self, node, env, module, qualname):
        self.node = node
        self.env = env
        self.module = module
        self.qualname = qualname
        self.defaults = []
        self.kw_defaults = {}
        self.attrs = {}
        self.owner_cls = None  # class whose body defined it (for super())

    def __repr__(self):
        return f"<fn {self.qualname}>"


class BoundMethod:
    __slots__ = ("self_val", "func")

    def __init__(self, self_val, func):
        self.self_val = self_val
        self.func = func

    def __repr__(self):
        return f"<bound {self.func} of {self.self_val}>"

    def __eq__(self, o):
        return isinstance(o, BoundMethod) and o.self_val is self.self_val and o.func is self.func

    def __hash__(self):
        return hash((id(self.self_val), id(self.func)))


class Native:
    def __init__(self, name, fn):
        self.name = name
        self.fn = fn

    def __repr__(self):
        return f"<native {self.name}>"


class ModuleVal:
    def __init__(self, name, repo):
        self.name = name
        self.repo = repo

    def __repr__(self):
        return f"<module {self.name}>"


class PropertyVal:
    def __init__(self, fget=None, fset=None):
        self.fget = fget
        self.fset = fset


class StaticMethodVal:
    def __init__(self, f):
        self.f = f


class ClassMethodVal:
    def __init__(self, f):
        self.f = f


class SuperProxy:
    def __init__(self, obj, after_cls):
        self.obj = obj
        self.after_cls = after_cls


class Opaque:
    """object whose behaviour is given by the harness' World (interface contracts):
    downstream observer, upstream sources, schedulers, user callbacks, disposables, locks."""

    _n = 0

    def __init__(self, kind, name, **attrs):
        self.kind = kind
        self.name = name
        self.attrs = attrs
        Opaque._n += 1
        self.oid = Opaque._n

    def __repr__(self):
        return f"<{self.kind}:{self.name}>"


class OpaqueMethod:
    __slots__ = ("obj", "name")

    def __init__(self, obj, name):
        self.obj = obj
        self.name = name

    def __repr__(self):
        return f"<{self.obj}.{self.name}>"

    def __eq__(self, o):
        return isinstance(o, OpaqueMethod) and o.obj is self.obj and o.name == self.name

    def __hash__(self):
        return hash((id(self.obj), self.name))


class RangeVal:
    __slots__ = ("start", "stop", "step")

    def __init__(self, start, stop, step):
        self.start, self.stop, self.step = start, stop, step


class IterVal:
    """iterator over a concrete python list of values (position is state)"""

    def __init__(self, items, src=None):
        self.items = items
        self.pos = 0
        self.src = src


class SliceVal:
    __slots__ = ("lo", "hi", "step")

    def __init__(self, lo, hi, step):
        self.lo, self.hi, self.step = lo, hi, step


class Sentinel:
    def __init__(self, name):
        self.name = name

    def __repr__(self):
        return self.name


def is_sym(v):
    return isinstance(v, SV)


def IntSV(t):
    return SV(t, "int")


def BoolSV(t):
    return SV(t, "bool")


def ValSV(t):
    return SV(t, "val")


def simp(t):
    return z3.simplify(t)
