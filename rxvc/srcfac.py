"""C37: contracts for the source factories, discharged on the real code (subscribe + one arbitrary tick).

Every factory schedules a tick closure on its scheduler; the scheduler is opaque (its schedule* calls are recorded, the
tick is then run by the harness), iterables / iterators follow the iterator protocol over an ARBITRARY abstract sequence S
(`iter` gives a fresh iterator at position 0, `next` yields S[i] and advances, raises StopIteration at the end, or raises
anything), user functions are deterministic uninterpreted functions that may raise (A-cb).  For every factory:
  subscribe   emits nothing itself, makes exactly the one scheduling call the contract names, and returns a disposable that
              holds it;
  tick        from an ARBITRARY tick state (iterator position / loop cells) emits exactly what the equivalent Python loop
              yields at that point and either reschedules ITSELF exactly once or emits the terminal - so, by induction over
              the ticks, the whole emission is the Python sequence followed by its terminal, and nothing follows a terminal.
Contracts:  range_ (the iterable is Python's range with the caller's arguments; drains it one item per tick),
from_iterable_ (drains the iterator in a loop - cut at an invariant - until StopIteration -> completed, an iterator
exception -> on_error, or disposal), of (= from_iterable of its arguments), return_value_, empty_, never_, throw_,
generate_ (the while-loop `s = init; while cond(s): yield s; s = iterate(s)`), generate_with_relative_time_ (each state is
emitted one tick after it was computed, the tick being scheduled with the delay computed for that state - a zero delay
included), timer (timespan / date): 0 then completed at the due time.
"""
from __future__ import annotations

import time

import z3

from . import smt
from .interp import NOTSET, Interp, World, explore, _Break, _Continue, _Return
from .loader import Loader, all_functions
from .refine import Result
from .values import SV, BoundMethod, Closure, IntSV, ListObj, Native, Obj, Opaque, PathEnd, PyExc, Unsupported, ValSV
from .catchsched import conj, same

OBS = "reactivex/observable/"


class SWorld(World):
    def __init__(self):
        super().__init__()
        self.log = []
        self.n = 0
        self.iters = []
        self.after_down = None  # hook: what a downstream call may do (dispose)

    def getattr(self, it, o, name):
        if o.kind == "scheduler" and name == "now":
            return it.ctx.fresh("now", "int")
        return super().getattr(it, o, name)

    def truthy(self, it, o):
        return True

    def isinstance(self, it, o, cls):
        n = str(getattr(cls, "name", ""))
        if o.kind == "exception":
            return n.endswith("Exception")
        if o.kind == "rel_time":
            return n.split(".")[-1] == "timedelta"
        return super().isinstance(it, o, cls)

    def getattr(self, it, o, name):
        if o.kind == "rel_time" and name in ("seconds", "days", "microseconds"):
            return Opaque("rel_part", f"{o.name}.{name}", of=o)
        return super().getattr(it, o, name)

    def new_iterator(self, it, iterable, pos=None):
        i = Opaque("iterator", f"iter#{len(self.iters)}", seq=iterable.attrs["seq"], pos=pos if pos is not None else IntSV(z3.IntVal(0)),
                   of=iterable)
        self.iters.append(i)
        return i

    def call(self, it, o, method, args, kwargs):
        ctx = it.ctx
        if o.kind == "scheduler":
            if method in ("to_seconds", "to_timedelta", "to_datetime"):
                a0 = args[0]
                if isinstance(a0, Opaque) and a0.kind == "rel_time" and method == "to_seconds":
                    return a0.attrs["total"]  # the scheduler's conversion (C36): the WHOLE span in seconds
                return a0
            self.n += 1
            d = Opaque("disposable", f"{o.name}.{method}#{self.n}")
            self.log.append(("sched", o, method, list(args), dict(kwargs), d))
            self.__dict__.setdefault("sched_objs", []).append((o, method))  # (never cleared: which scheduler objects the code used)
            return d
        if o.kind == "observer":
            self.log.append(("down", method, list(args)))
            if self.after_down is not None:
                self.after_down(it)
            return None
        if o.kind == "iterable" and method == "__iter__":
            self.log.append(("iter", o))
            return self.new_iterator(it, o)
        if o.kind == "iterator" and method == "__iter__":
            return o
        if o.kind == "iterator" and method == "__next__":
            seq, pos = o.attrs["seq"], it.to_int(o.attrs["pos"])
            k = ctx.choose(2 if o.attrs["of"].attrs.get("no_raise") else 3, "next: item / exhausted / raises")
            if k == 0:
                ctx.assume(z3.And(pos >= 0, pos < z3.Length(seq)))
                v = ValSV(seq[pos])
                o.attrs["pos"] = IntSV(pos + 1)
                self.log.append(("next", o, "item", v))
                return v
            if k == 1:
                ctx.assume(pos == z3.Length(seq))
                self.log.append(("next", o, "stop", None))
                if args:
                    return args[0]  # next(it, default)
                raise PyExc(it.make_exc("StopIteration"))
            e = SV(ctx.fresh("iter_exc", "val").t, "val", tag="exc")
            # (an iterator that raises StopIteration is an exhausted iterator: the other case)
            ctx.assume(z3.Not(z3.Function("exc_isinstance_StopIteration", smt.Val, z3.BoolSort())(e.t)))
            self.log.append(("next", o, "raise", e))
            raise PyExc(e)
        if o.kind == "disposable":
            self.log.append(("dispose", o))
            return None
        if o.kind in ("lock", "logger"):
            return None
        return super().call(it, o, method, args, kwargs)


class SrcHarness:
    def __init__(self, loader=None):
        self.loader = loader or Loader()
        self.results = []
        self.unsupported = None
        self.functions = {}

    def rec(self, ctx, oid, goal, detail=""):
        t0 = time.time()
        if isinstance(goal, bool):
            goal = z3.BoolVal(goal)
        v, m, b = smt.prove(ctx.pc, goal)
        ctx.results.append(Result(oid, v, b, smt.model_to_dict(m), list(ctx.branch_log), detail, time.time() - t0, "post"))

    def setup(self, ctx):
        w = self.w = SWorld()
        it = Interp(self.loader, ctx, w)

        def hook(it_, f, args, kwargs):
            fn = f.func if isinstance(f, BoundMethod) else f
            q = getattr(fn, "qualname", None) if isinstance(fn, Closure) else None
            if q in ("Scheduler.to_seconds", "Scheduler.to_timedelta", "Scheduler.to_datetime"):
                return args[-1] if args else kwargs.get("value")
            return NOTSET
        it.call_hook = hook
        self.sched = Opaque("scheduler", "sched")
        #: a second scheduler, handed to subscribe(): the one given to the FACTORY is the one to use (the subscribe-time one is the fallback)
        self.sub_sched = Opaque("scheduler", "subscribe_time_scheduler")
        self.observer = Opaque("observer", "observer")
        return it

    def subscribe_fn(self, obs):
        sub = obs.fields.get("_subscribe") if isinstance(obs, Obj) else None
        if not isinstance(sub, Closure):
            raise Unsupported("the factory did not return Observable(subscribe)")
        return sub

    def downs(self):
        return [e for e in self.w.log if e[0] == "down"]

    def scheds(self):
        return [e for e in self.w.log if e[0] == "sched"]

    def named(self, sched_ev, names):
        got = dict(zip(names, sched_ev[3]))
        got.update(sched_ev[4])
        return got

    def expect_down(self, ctx, oid, want):
        """want: list of (method, value or None)"""
        ds = self.downs()
        ok = len(ds) == len(want)
        parts = []
        if ok:
            for d, (m, v) in zip(ds, want):
                if d[1] != m:
                    ok = False
                elif v is not None:
                    parts.append(same(d[2][0], v) if d[2] else False)
        self.rec(ctx, oid, conj(parts) if ok else False, detail=f"downstream calls: {[(d[1], len(d[2])) for d in ds]}, expected {[m for m, _ in want]}")

    # -- range ---------------------------------------------------------------------------------------------
    def run_range(self, ctx):
        it = self.setup(ctx)
        w = self.w
        uid = f"{OBS}range.py::range_"
        ranges = []

        def my_range(it_, a, k):
            r = Opaque("iterable", f"range#{len(ranges)}", seq=ctx.fresh("range_items", "seq").t, args=list(a), no_raise=True)
            ranges.append(r)
            return r
        it.externals["builtins.range"] = Native("range", my_range)
        shape = ctx.choose(3, "arguments")  # (start), (start, stop), (start, stop, step)
        start, stop, step = ctx.fresh("start", "int"), ctx.fresh("stop", "int"), ctx.fresh("step", "int")
        args = [start] + ([stop] if shape >= 1 else []) + ([step] if shape == 2 else [])
        f = it.module_get("reactivex.observable.range", "range_")
        obs = it.call(f, args + [None] * (3 - len(args)) + [self.sched], {})
        ok = len(ranges) == 1 and len(ranges[0].attrs["args"]) == len(args) and conj([same(x, y) for x, y in zip(ranges[0].attrs["args"], args)]) is not False
        self.rec(ctx, uid + "/the-iterable-is-python's-range-of-the-same-arguments",
                 conj([same(x, y) for x, y in zip(ranges[0].attrs["args"], args)]) if ok else False,
                 detail=f"range called with {len(ranges[0].attrs['args']) if ranges else None} arguments for {len(args)} given")
        if not ranges:
            return  # (no range object to follow: the obligation above has failed)
        sub = self.subscribe_fn(obs)
        w.log.clear()
        res = it.call(sub, [self.observer, self.sub_sched], {})
        sc = self.scheds()
        ok = len(sc) == 1 and sc[0][2] == "schedule" and not self.downs()
        self.rec(ctx, uid + "/subscribe/one-schedule-call-and-no-emission", ok)
        if not ok:
            return
        got = self.named(sc[0], ["action", "state"])
        A, it0 = got.get("action"), got.get("state")
        self.rec(ctx, uid + "/subscribe/starts-a-fresh-iterator-over-the-range", isinstance(it0, Opaque) and it0.kind == "iterator"
                 and it0.attrs["of"] is ranges[0] and same(it0.attrs["pos"], IntSV(z3.IntVal(0))) is True)
        self.rec(ctx, uid + "/subscribe/returns-a-disposable-holding-the-tick", isinstance(res, Obj) and res.fields.get("current") is sc[0][5])
        # an arbitrary tick
        pos = ctx.fresh("i", "int")
        ctx.assume(z3.And(pos.t >= 0, pos.t <= z3.Length(ranges[0].attrs["seq"])))
        itr = w.new_iterator(it, ranges[0], pos)
        w.log.clear()
        it.call(A, [self.sched, itr], {})
        nx = [e for e in w.log if e[0] == "next"]
        if nx and nx[0][2] == "raise":
            raise PathEnd()  # range's iterator does not raise
        sc = self.scheds()
        if nx and nx[0][2] == "item":
            self.expect_down(ctx, uid + "/tick/emits-exactly-the-next-item", [("on_next", nx[0][3])])
            ok = len(sc) == 1 and sc[0][2] == "schedule"
            got = self.named(sc[0], ["action", "state"]) if ok else {}
            self.rec(ctx, uid + "/tick/reschedules-itself-once-with-the-same-iterator", ok and got.get("action") is A and got.get("state") is itr)
            self.rec(ctx, uid + "/tick/the-new-tick-replaces-the-old-one-in-the-disposable", ok and res.fields.get("current") is sc[0][5])
        else:
            self.expect_down(ctx, uid + "/tick/exhausted/emits-exactly-on_completed", [("on_completed", None)])
            self.rec(ctx, uid + "/tick/exhausted/nothing-is-rescheduled", not sc)

    # -- from_iterable / of ---------------------------------------------------------------------------------
    def run_from_iterable(self, ctx):
        it = self.setup(ctx)
        w = self.w
        uid = f"{OBS}fromiterable.py::from_iterable_"
        xs = Opaque("iterable", "xs", seq=ctx.fresh("items", "seq").t)
        f = it.module_get("reactivex.observable.fromiterable", "from_iterable_")
        obs = it.call(f, [xs, self.sched], {})
        sub = self.subscribe_fn(obs)
        w.log.clear()
        res = it.call(sub, [self.observer, self.sub_sched], {})
        sc = self.scheds()
        ok = len(sc) == 1 and sc[0][2] == "schedule" and not self.downs() and len([e for e in w.log if e[0] == "iter"]) == 1
        self.rec(ctx, uid + "/subscribe/one-iterator-one-schedule-call-and-no-emission", ok)
        if not ok:
            return
        A = self.named(sc[0], ["action", "state"]).get("action")
        env = A.env
        e_d = env.lookup_env("disposed")
        e_i = env.lookup_env("iterator")
        if e_d is None or e_i is None:
            raise Unsupported("from_iterable_: no `disposed` / `iterator` cells (drift)")
        from .cells import require_known
        require_known(A, {"disposed", "iterator"}, uid)
        self.rec(ctx, uid + "/subscribe/iterator-starts-at-the-first-item", isinstance(e_i.vars["iterator"], Opaque)
                 and same(e_i.vars["iterator"].attrs["pos"], IntSV(z3.IntVal(0))) is True and e_d.vars["disposed"] is False)
        # disposing the returned disposable stops the loop and cancels the scheduled action
        w.log.clear()
        it.call(it.get_attr(res, "dispose"), [], {})
        self.rec(ctx, uid + "/dispose/sets-the-stop-flag-and-cancels-the-scheduled-action",
                 e_d.vars["disposed"] is True and [e[1] for e in w.log if e[0] == "dispose"] == [sc[0][5]])
        e_d.vars["disposed"] = False
        # the loop, one arbitrary iteration
        self.loop = {"uid": uid, "e_d": e_d, "e_i": e_i, "xs": xs}
        it.loop_contracts = {("from_iterable_.subscribe.action", 0): {"name": "drain"}}
        it.on_loop = self.on_loop_drain
        w.log.clear()
        try:
            it.call(A, [self.sched, None], {})
        except PyExc as e:
            self.rec(ctx, uid + "/action/no-exception-escapes", False, detail=f"{e.value!r}")

    def on_loop_drain(self, it, st, env, key, lc, iterable=None):
        import ast as _ast

        if not isinstance(st, _ast.While):
            # the loop contract is stated for `while <test>: ... next(iterator) ...`; another loop shape is drift (bounded stand-in)
            raise Unsupported(f"from_iterable_'s emission loop is a {type(st).__name__} loop: the loop contract does not match (drift)")
        ctx = it.ctx
        w = self.w
        L = self.loop
        uid = L["uid"] + "/action/loop"
        pos = ctx.fresh("i", "int")
        ctx.assume(z3.And(pos.t >= 0, pos.t <= z3.Length(L["xs"].attrs["seq"])))
        itr = w.new_iterator(it, L["xs"], pos)
        L["e_i"].vars["iterator"] = itr
        disposed0 = ctx.choose(2, "disposed at the loop head") == 1
        L["e_d"].vars["disposed"] = disposed0

        def after_down(it_):
            # the subscriber may dispose from inside on_next
            L["e_d"].vars["disposed"] = ctx.choose(2, "disposed by the subscriber") == 1
        w.after_down = after_down
        w.log.clear()
        if not it.truth(it.eval(st.test, env), "loop condition"):
            self.rec(ctx, uid + "/leaves-silently-only-when-disposed", disposed0 and not self.downs())
            raise PathEnd()
        self.rec(ctx, uid + "/runs-only-while-not-disposed", not disposed0)
        w.after_down = None
        outcome = "continue"
        try:
            w.after_down = after_down
            it.exec_block(st.body, env)
        except _Break:
            outcome = "break"
        except _Continue:
            pass
        except PyExc as e:
            # caught by the try around the loop in the real code: re-raise to let the real handlers run
            w.after_down = None
            raise
        finally:
            w.after_down = None
        nx = [e for e in w.log if e[0] == "next"]
        self.rec(ctx, uid + "/iteration/asks-the-iterator-exactly-once", len(nx) == 1)
        if nx and nx[0][2] == "item":
            self.expect_down(ctx, uid + "/iteration/emits-exactly-that-item-and-goes-on", [("on_next", nx[0][3])])
            self.rec(ctx, uid + "/iteration/an-item-never-ends-the-loop", outcome == "continue")
        elif nx and nx[0][2] == "stop":
            # next(it, default) style: the real code decided itself what to do at exhaustion
            self.expect_down(ctx, uid + "/iteration/exhausted/emits-exactly-on_completed", [("on_completed", None)])
            self.rec(ctx, uid + "/iteration/exhausted/ends-the-loop", outcome == "break")
        raise PathEnd()

    def check_action_handlers(self, ctx):
        """StopIteration -> completed, other exceptions -> on_error: the handlers around the loop, run for real"""
        it = self.setup(ctx)
        w = self.w
        uid = f"{OBS}fromiterable.py::from_iterable_/action"
        xs = Opaque("iterable", "xs", seq=ctx.fresh("items", "seq").t)
        f = it.module_get("reactivex.observable.fromiterable", "from_iterable_")
        obs = it.call(f, [xs, self.sched], {})
        sub = self.subscribe_fn(obs)
        it.call(sub, [self.observer, self.sub_sched], {})
        A = self.named(self.scheds()[0], ["action", "state"]).get("action")
        # from a position at which exactly one `next` is still to come before the loop ends one way or another
        e_i = A.env.lookup_env("iterator")
        pos = ctx.fresh("i", "int")
        n = z3.Length(xs.attrs["seq"])
        ctx.assume(z3.And(pos.t >= 0, pos.t <= n, pos.t >= n - 1))
        e_i.vars["iterator"] = w.new_iterator(it, xs, pos)
        w.log.clear()
        try:
            it.call(A, [self.sched, None], {})
        except PyExc as e:
            self.rec(ctx, uid + "/no-exception-escapes", False, detail=f"{e.value!r}")
            return
        nx = [e for e in w.log if e[0] == "next"]
        ds = self.downs()
        kinds = [e[2] for e in nx]
        if kinds and kinds[-1] == "stop":
            items = [e[3] for e in nx if e[2] == "item"]
            self.expect_down(ctx, uid + "/exhaustion/the-remaining-items-then-on_completed", [("on_next", v) for v in items] + [("on_completed", None)])
        elif kinds and kinds[-1] == "raise":
            items = [e[3] for e in nx if e[2] == "item"]
            self.expect_down(ctx, uid + "/iterator-raises/the-items-so-far-then-on_error-with-that-exception",
                             [("on_next", v) for v in items] + [("on_error", nx[-1][3])])
        _ = ds

    def run_of(self, ctx):
        it = self.setup(ctx)
        uid = "reactivex/__init__.py::of"
        calls = []

        def hook(it_, f, args, kwargs):
            fn = f.func if isinstance(f, BoundMethod) else f
            if isinstance(fn, Closure) and fn.qualname == "from_iterable_":
                calls.append((list(args), dict(kwargs)))
                return Opaque("observable", "result")
            return NOTSET
        it.call_hook = hook
        a, b = ctx.fresh("a", "val"), ctx.fresh("b", "val")
        f = it.module_get("reactivex", "of")
        r = it.call(f, [a, b], {})
        ok = len(calls) == 1 and calls[0][0] and isinstance(calls[0][0][0], tuple) and len(calls[0][0][0]) == 2
        self.rec(ctx, uid + "/is-from_iterable-of-its-arguments", conj([same(calls[0][0][0][0], a), same(calls[0][0][0][1], b)]) if ok else False)
        self.rec(ctx, uid + "/returns-that-observable", isinstance(r, Opaque) and r.name == "result")

    # -- one-shot factories ------------------------------------------------------------------------------
    def run_simple(self, ctx, which):
        it = self.setup(ctx)
        w = self.w
        mod, fn = {"return_value": ("returnvalue", "return_value_"), "empty": ("empty", "empty_"), "throw": ("throw", "throw_"),
                   "never": ("never", "never_"), "timer_timespan": ("timer", "observable_timer_timespan"),
                   "timer_date": ("timer", "observable_timer_date")}[which]
        uid = f"{OBS}{mod}.py::{fn}"
        f = it.module_get(f"reactivex.observable.{mod}", fn)
        v = ctx.fresh("value", "val")
        d = ctx.fresh("d", "int")
        exc_is_exc = None
        if which == "return_value":
            obs = it.call(f, [v, self.sched], {})
        elif which == "empty":
            obs = it.call(f, [self.sched], {})
        elif which == "never":
            obs = it.call(f, [], {})
        elif which == "throw":
            exc_is_exc = ctx.choose(2, "argument is an exception") == 0
            arg = Opaque("exception", "exc") if exc_is_exc else "message"
            obs = it.call(f, [arg, self.sched], {})
        elif which == "timer_timespan" and ctx.choose(2, "the due time is given as a timedelta") == 1:
            # a timedelta is an opaque span: only the scheduler's to_seconds (C36) says how many seconds it is - a component of it
            # (.seconds, .microseconds: days and sign dropped) is another number
            obs = it.call(f, [Opaque("rel_time", "duetime-as-timedelta", total=d), self.sched], {})
        else:
            obs = it.call(f, [d, self.sched], {})
        sub = self.subscribe_fn(obs)
        w.log.clear()
        res = it.call(sub, [self.observer, self.sched if which == "throw" else self.sub_sched], {})
        sc = self.scheds()
        self.rec(ctx, uid + "/subscribe/emits-nothing-itself", not self.downs())
        if which == "never":
            self.rec(ctx, uid + "/subscribe/schedules-nothing", not sc)
            self.rec(ctx, uid + "/subscribe/returns-a-disposable", isinstance(res, Obj) and res.cls.name == "Disposable")
            return
        ok = len(sc) == 1
        self.rec(ctx, uid + "/subscribe/exactly-one-scheduling-call", ok)
        if not ok:
            return
        method = sc[0][2]
        if which == "timer_timespan":
            if ctx.branch(d.t <= 0, "due time not positive"):
                self.rec(ctx, uid + "/subscribe/non-positive-due-time-schedules-at-once", method == "schedule")
                A = self.named(sc[0], ["action", "state"]).get("action")
            else:
                got = self.named(sc[0], ["duetime", "action", "state"])
                self.rec(ctx, uid + "/subscribe/scheduled-after-the-due-time", method == "schedule_relative" and same(got.get("duetime"), d))
                A = got.get("action")
        elif which == "timer_date":
            got = self.named(sc[0], ["duetime", "action", "state"])
            self.rec(ctx, uid + "/subscribe/scheduled-at-the-date", method == "schedule_absolute" and same(got.get("duetime"), d))
            A = got.get("action")
        else:
            self.rec(ctx, uid + "/subscribe/scheduled-for-now", method == "schedule")
            A = self.named(sc[0], ["action", "state"]).get("action")
        self.rec(ctx, uid + "/subscribe/returns-the-scheduler's-disposable", res is sc[0][5])
        w.log.clear()
        it.call(A, [self.sched, None], {})
        self.rec(ctx, uid + "/tick/schedules-nothing-more", not self.scheds())
        if which == "return_value":
            self.expect_down(ctx, uid + "/tick/emits-the-value-then-completes", [("on_next", v), ("on_completed", None)])
        elif which == "empty":
            self.expect_down(ctx, uid + "/tick/emits-exactly-on_completed", [("on_completed", None)])
        elif which == "throw":
            ds = self.downs()
            ok = len(ds) == 1 and ds[0][1] == "on_error"
            self.rec(ctx, uid + "/tick/emits-exactly-on_error", ok)
            if ok:
                e = ds[0][2][0]
                if exc_is_exc:
                    self.rec(ctx, uid + "/tick/with-the-given-exception", isinstance(e, Opaque) and e.name == "exc")
                else:
                    self.rec(ctx, uid + "/tick/with-an-Exception-carrying-the-message", isinstance(e, Obj) and e.fields.get("args") == ("message",))
        else:
            self.expect_down(ctx, uid + "/tick/emits-0-then-completes", [("on_next", 0), ("on_completed", None)])

    # -- generate -------------------------------------------------------------------------------------------
    def run_generate(self, ctx, timed):
        it = self.setup(ctx)
        w = self.w
        mod, fn = ("generatewithrelativetime", "generate_with_relative_time_") if timed else ("generate", "generate_")
        uid = f"{OBS}{mod}.py::{fn}"
        f = it.module_get(f"reactivex.observable.{mod}", fn)
        init = ctx.fresh("init", "val")
        cond, iterate, tm = Opaque("callback", "condition"), Opaque("callback", "iterate"), Opaque("callback", "time_mapper")
        obs = it.call(f, [init, cond, iterate] + ([tm] if timed else []), {})
        sub = self.subscribe_fn(obs)
        w.log.clear()
        res = it.call(sub, [self.observer, self.sched], {})
        sc = self.scheds()
        ok = len(sc) == 1 and not self.downs() and not [e for e in w.events if e[0] == "cb"]
        self.rec(ctx, uid + "/subscribe/one-scheduling-call-no-emission-no-user-function-called", ok)
        if not ok:
            return
        if timed:
            got = self.named(sc[0], ["duetime", "action", "state"])
            self.rec(ctx, uid + "/subscribe/first-tick-at-once", sc[0][2] == "schedule_relative" and got.get("duetime") == 0)
        else:
            got = self.named(sc[0], ["action", "state"])
            self.rec(ctx, uid + "/subscribe/first-tick-at-once", sc[0][2] == "schedule")
        A = got.get("action")
        self.rec(ctx, uid + "/subscribe/returns-a-disposable-holding-the-tick", isinstance(res, Obj) and res.fields.get("current") is sc[0][5])
        env = A.env
        cells = {n: env.lookup_env(n) for n in (["first", "state"] + (["has_result", "result", "time"] if timed else []))}
        if any(v is None for v in cells.values()):
            raise Unsupported(f"{fn}: loop cells {[k for k, v in cells.items() if v is None]} not found (drift)")
        from .cells import require_known
        require_known(A, set(cells), uid)
        self.rec(ctx, uid + "/subscribe/loop-starts-at-the-initial-state", cells["first"].vars["first"] is True and same(cells["state"].vars["state"], init) is True
                 and (not timed or cells["has_result"].vars["has_result"] is False))
        # an arbitrary tick
        first = ctx.choose(2, "first tick") == 0
        state = ctx.fresh("state", "val")
        cells["first"].vars["first"] = first
        cells["state"].vars["state"] = state
        pending = None
        if timed:
            has = False if first else (ctx.choose(2, "a computed state is pending") == 0)
            cells["has_result"].vars["has_result"] = has
            pending = ctx.fresh("pending", "val")
            cells["result"].vars["result"] = pending
            cells["time"].vars["time"] = ctx.fresh("pending_delay", "int")
            if not has and not first:
                raise PathEnd()  # a tick only runs with a pending state (or the first time)
            if has:
                # the pending state IS the loop state (invariant)
                ctx.assume(pending.t == state.t)
        if timed:
            # precondition on the user's delay function: it returns a time, not None
            tmf = z3.Function("time_mapper/1", smt.Val, smt.Val)
            for x in (state.t, z3.Function("iterate/1", smt.Val, smt.Val)(state.t)):
                ctx.assume(tmf(x) != smt.NONE)
        w.log.clear()
        w.events.clear()
        # the subscriber may dispose its subscription from inside on_next (take(n), first, an explicit dispose()): from then on no user
        # function of this source runs on its behalf (C03) and the source stops producing (C14)
        disp_in_next = ctx.choose(2, "the subscriber disposes its subscription from inside on_next") == 1
        marker = {}

        def after_down(it_):
            if "at" not in marker:
                marker["at"] = len(w.events)
                it.call(it.get_attr(res, "dispose"), [], {})
        w.after_down = after_down if disp_in_next else None
        try:
            it.call(A, [self.sched, None], {})
        except PyExc as e:
            self.rec(ctx, uid + "/tick/no-exception-escapes-into-the-scheduler", False, detail=f"{e.value!r} {getattr(e.value, 'fields', '')}")
            return
        finally:
            w.after_down = None
        self.rec(ctx, uid + "/tick/no-exception-escapes-into-the-scheduler", True)
        if disp_in_next:
            if "at" not in marker:
                raise PathEnd()  # nothing was emitted in this tick
            late = [e[1] for e in w.events[marker["at"]:] if e[0] in ("cb", "cb_raised")]
            self.rec(ctx, uid + "/tick/disposed-inside-on_next/no-user-function-runs-afterwards", not late,
                     detail=f"after the subscriber disposed its subscription (inside on_next) the tick still called: {late}")
            return
        cbs = [e for e in w.events if e[0] in ("cb", "cb_raised")]
        raised = [e for e in cbs if e[0] == "cb_raised"]
        calls = [e for e in cbs if e[0] == "cb"]
        names = [e[1] for e in calls]
        ds = self.downs()
        sc = self.scheds()
        head = [("on_next", pending)] if (timed and not first and pending is not None and cells["has_result"] is not None and len(ds) > 0 and ds[0][1] == "on_next" and False) else []
        _ = head
        emitted_pending = timed and not first
        prefix = [("on_next", pending)] if emitted_pending else []
        # the loop step: s' = state if first else iterate(state)
        want_calls = ([] if first else ["iterate"]) + ["condition"]
        new_state = state if first else ValSV(z3.Function("iterate/1", smt.Val, smt.Val)(state.t))
        # every user function is called when the loop `s = init; while cond(s): yield s; s = iterate(s)` calls it and at no other time: a delay is
        # asked for only for a state that is going to be emitted (a delay function need not be defined on the state that ends the loop)
        full = want_calls + (["time_mapper"] if timed else [])
        self.rec(ctx, uid + "/tick/calls-the-user-functions-of-one-loop-step-in-order-and-no-others", names == full[:len(names)],
                 detail=f"user functions called: {names}; one step of the loop calls {full}")
        if "time_mapper" in names and names == full[:len(names)]:
            self.rec(ctx, uid + "/tick/asks-for-a-delay-only-for-a-state-the-condition-accepted",
                     smt.truthy(z3.Function("condition/1", smt.Val, smt.Val)(new_state.t)),
                     detail="time_mapper was called although the condition may have rejected the state (the loop ends there)")
        if raised:
            self.rec(ctx, uid + "/tick/a-raising-user-function-ends-in-on_error-and-nothing-more",
                     len(ds) == len(prefix) + 1 and ds[-1][1] == "on_error" and not sc)
            return
        self.rec(ctx, uid + "/tick/steps-the-loop-exactly-once", names[:len(want_calls)] == want_calls and same(cells["state"].vars["state"], new_state),
                 detail=f"user functions called: {names}")
        cond_val = smt.truthy(z3.Function("condition/1", smt.Val, smt.Val)(new_state.t))
        if ctx.branch(cond_val, "condition holds"):
            if timed:
                self.expect_down(ctx, uid + "/tick/emits-the-state-computed-one-tick-ago", prefix)
                ok = len(sc) == 1 and sc[0][2] == "schedule_relative"
                got = self.named(sc[0], ["duetime", "action", "state"]) if ok else {}
                delay = ValSV(z3.Function("time_mapper/1", smt.Val, smt.Val)(new_state.t))
                self.rec(ctx, uid + "/tick/reschedules-itself-once-after-the-delay-computed-for-the-new-state",
                         conj([same(got.get("duetime"), delay)]) if ok and got.get("action") is A else False,
                         detail="whatever that delay is - a zero delay included")
                self.rec(ctx, uid + "/tick/keeps-the-new-state-pending", cells["has_result"].vars["has_result"] is not False and same(cells["result"].vars["result"], new_state))
            else:
                self.expect_down(ctx, uid + "/tick/emits-exactly-the-loop-state", [("on_next", new_state)])
                ok = len(sc) == 1 and sc[0][2] == "schedule"
                self.rec(ctx, uid + "/tick/reschedules-itself-once", ok and self.named(sc[0], ["action", "state"]).get("action") is A)
            if ok:
                self.rec(ctx, uid + "/tick/the-new-tick-replaces-the-old-one-in-the-disposable", res.fields.get("current") is sc[0][5])
        else:
            self.expect_down(ctx, uid + "/tick/condition-false/emits-the-pending-state-if-any-then-completes", prefix + [("on_completed", None)])
            self.rec(ctx, uid + "/tick/condition-false/nothing-is-rescheduled", not sc)

    def run(self):
        t0 = time.time()
        try:
            for rel, fns in (("range.py", ["range_"]), ("fromiterable.py", ["from_iterable_"]), ("returnvalue.py", ["return_value_"]),
                             ("empty.py", ["empty_"]), ("never.py", ["never_"]), ("throw.py", ["throw_"]), ("generate.py", ["generate_"]),
                             ("generatewithrelativetime.py", ["generate_with_relative_time_"]),
                             ("timer.py", ["observable_timer_timespan", "observable_timer_date"])):
                for fn in fns:
                    node = self.loader.find(OBS + rel, fn)
                    self.functions[f"{OBS}{rel}::{fn}"] = self.loader.sha(OBS + rel, fn)
                    for q, n in all_functions(node, fn):
                        self.functions[f"{OBS}{rel}::{q}"] = self.loader.sha(OBS + rel, q)
            scen = [self.run_range, self.run_from_iterable, self.check_action_handlers, self.run_of]
            for wch in ("return_value", "empty", "throw", "never", "timer_timespan", "timer_date"):
                scen.append(lambda ctx, _w=wch: self.run_simple(ctx, _w))
            scen += [lambda ctx: self.run_generate(ctx, False), lambda ctx: self.run_generate(ctx, True)]
            def framed(f):
                def g(ctx):
                    try:
                        return f(ctx)
                    finally:
                        w = getattr(self, "w", None)
                        used = list(getattr(w, "sched_objs", [])) if w is not None else []
                        wrong = [(o.name, m) for o, m in used if o is getattr(self, "sub_sched", None)]
                        if used:
                            self.rec(ctx, f"{OBS}::source-factories/schedules-on-the-scheduler-the-factory-was-given (the subscribe-time scheduler is only the fallback)",
                                     not wrong, detail=f"scheduled on the subscribe-time scheduler although the factory was given one: {wrong}")
                return g
            for f in scen:
                for p in explore(framed(f)):
                    self.results.extend(p.results)
        except Unsupported as e:
            self.unsupported = str(e)
        except PyExc as e:
            self.unsupported = f"interpreter-level exception: {e.value!r} {getattr(e.value, 'fields', '')}"
        self.seconds = time.time() - t0
        return self


#: must-fail mutants (thorough tier, in memory)
MUTANTS = {
    OBS + "range.py": {
        "range(start) read as range(0, start, 1) with a swapped bound": ("        range_t = range(start)", "        range_t = range(start, 0)"),
        "tick does not reschedule": ("                sd.disposable = _scheduler.schedule(action, state=iterator)", "                pass"),
        "completion swallowed": ("            except StopIteration:\n                observer.on_completed()", "            except StopIteration:\n                pass"),
    },
    OBS + "fromiterable.py": {
        "iterator error swallowed": ("            except Exception as error:  # pylint: disable=broad-except\n                observer.on_error(error)",
                                     "            except Exception as error:  # pylint: disable=broad-except\n                pass"),
        "dispose does not stop the loop": ("            disposed = True", "            pass"),
        "None ends the sequence": ("                    value = next(iterator)\n                    observer.on_next(value)",
                                   "                    value = next(iterator)\n                    if value is None:\n                        break\n                    observer.on_next(value)"),
    },
    OBS + "generate.py": {
        "iterates before the first state": ("                if first:\n                    first = False\n                else:\n                    state = iterate(state)",
                                            "                first = False\n                state = iterate(state)"),
        "emits after a false condition": ("            if has_result:\n                observer.on_next(result)\n                mad.disposable = scheduler.schedule(action)",
                                          "            if True:\n                observer.on_next(result)\n                mad.disposable = scheduler.schedule(action)"),
    },
    OBS + "generatewithrelativetime.py": {
        "delay of the previous state": ("                    time = time_mapper(state)", "                    time = time_mapper(result) if first else time"),
        "zero delay rejected": ("                assert time is not None", "                assert time"),
    },
    OBS + "returnvalue.py": {"no completion": ("            observer.on_next(value)\n            observer.on_completed()", "            observer.on_next(value)")},
    OBS + "timer.py": {"timer emits 1": ("            observer.on_next(0)\n            observer.on_completed()\n\n        if d <= 0.0:",
                                         "            observer.on_next(1)\n            observer.on_completed()\n\n        if d <= 0.0:")},
}


def must_fail():
    out = {"mutants": 0, "killed": 0, "survivors": []}
    for rel, ms in MUTANTS.items():
        src = Loader().load_file(rel).src
        for name, (a, b) in ms.items():
            if a not in src:
                continue
            ld = Loader()
            ld.overrides = {rel: src.replace(a, b, 1)}
            h = SrcHarness(ld).run()
            out["mutants"] += 1
            if h.unsupported or any(r.verdict == "refuted" for r in h.results):
                out["killed"] += 1
            else:
                out["survivors"].append(f"{rel}: {name}")
    return out


def run_unit(desc):
    import json
    import os
    h = SrcHarness().run()
    res = [r.as_dict() for r in h.results]
    rep = {
        "unit": f"{OBS}::source-factories",
        "kind": "function / closure contracts for the source factories (subscribe + one arbitrary tick)",
        "functions": h.functions,
        "results": res,
        "unsupported": h.unsupported,
        "spec_validation": [],
        "bounded": [],
        "replayable": {"runner": "srcrun.py", "module": "-", "name": "C37"},
    }
    if desc.get("tier") == "thorough" and not h.unsupported:
        mf = must_fail()
        rep["must_fail"] = dict(mf, unit=rep["unit"])
        if mf["mutants"] and mf["killed"] < mf["mutants"]:
            rep["crash"] = f"vacuity: must-fail mutants survived: {mf['survivors']}"
    if h.unsupported or desc.get("tier") == "thorough":
        from .report import native, VERIF, REPLAY_DIR
        r, err = native([os.path.join(VERIF, "rxvc", "srcrun.py"), "replay", "-", "C37",
                         json.dumps({"replay_path": os.path.join(REPLAY_DIR, f"{desc['prop']}-standin-sources.py"), "prop": desc["prop"],
                                     "oid": rep["unit"] + "/bounded-standin"})], timeout=200)
        st = r if r is not None else {"found": [], "error": err, "cases": 0}
        rep["bounded"].append({"function": rep["unit"], "bound": "argument grids of srcrun.py on a VirtualTimeScheduler (ranges over {-2..3} with steps, iterables "
                               "with None/falsy items, raising generators, generate with faults, delays incl. 0 and timedelta)",
                               "cases": st.get("cases", 0), "mismatches": len(st.get("found", [])),
                               "role": "stand-in (out of subset)" if h.unsupported else "cross-check of the contracts against CPython"})
        if h.unsupported:
            rep["standin"] = st
        elif st.get("found") and all(x["verdict"] == "proved" for x in res):
            rep["crash"] = f"cross-check failed: contracts proved but the native run disagrees: {st['found'][0]}"
    return rep
