"""Builtins and the small slice of the standard library the repo code touches, over the
rxvc value universe.  External behaviour that is *assumed* (DESIGN §2.6) is implemented here
and listed in ASSUMED so every evidence file can repeat it."""
from __future__ import annotations

import ast

import z3

from . import smt
from .values import (
    SV,
    BoolSV,
    BoundMethod,
    ClassMethodVal,
    ClassRef,
    Closure,
    DictObj,
    IntSV,
    IterVal,
    ListObj,
    ModuleVal,
    Native,
    NativeClass,
    Obj,
    Opaque,
    OpaqueMethod,
    PropertyVal,
    PyExc,
    RangeVal,
    Sentinel,
    SetObj,
    SliceVal,
    StaticMethodVal,
    Unsupported,
    ValSV,
)

ASSUMED = [
    "A-static: names resolve lexically as written; no monkey-patching/metaclass tricks",
    "A-order: left-to-right evaluation, short-circuit and/or, exceptions per language reference",
    "Python ints are mathematical integers (exact); list/deque contents are mathematical sequences",
]


def mk_and(a, b):
    if isinstance(a, bool):
        return b if a else False
    if isinstance(b, bool):
        return a if b else False
    return z3.And(a, b)


def mk_or(a, b):
    if isinstance(a, bool):
        return True if a else b
    if isinstance(b, bool):
        return True if b else a
    return z3.Or(a, b)


def mk_ite(it, c, a, b):
    """spec-mode if-expression over symbolic values"""
    if isinstance(a, (SV, int, bool)) and isinstance(b, (SV, int, bool)) and not (
        isinstance(a, SV) and a.kind in ("val", "seq", "seqev", "ev")
    ) and not (isinstance(b, SV) and b.kind in ("val", "seq", "seqev", "ev")):
        ka = a.kind if isinstance(a, SV) else ("bool" if isinstance(a, bool) else "int")
        kb = b.kind if isinstance(b, SV) else ("bool" if isinstance(b, bool) else "int")
        if ka == "bool" and kb == "bool":
            ta, tb = it.truth_term(a), it.truth_term(b)
            ta = z3.BoolVal(ta) if isinstance(ta, bool) else ta
            tb = z3.BoolVal(tb) if isinstance(tb, bool) else tb
            return BoolSV(z3.If(c, ta, tb))
        return IntSV(z3.If(c, it.to_int(a), it.to_int(b)))
    if isinstance(a, (ListObj,)) or isinstance(b, ListObj) or (isinstance(a, SV) and a.kind in ("seq", "seqev")):
        ta, tb = seq_of(it, a), seq_of(it, b)
        kind = "seqev" if ta.sort() == smt.SeqEv else "seq"
        return SV(z3.If(c, ta, tb), kind)
    if isinstance(a, SV) and a.kind == "ev":
        return SV(z3.If(c, a.t, b.t), "ev")
    return ValSV(z3.If(c, it.to_val(a), it.to_val(b)))


def seq_of(it, v):
    if isinstance(v, SV) and v.kind in ("seq", "seqev"):
        return v.t
    if isinstance(v, ListObj):
        if v.symbolic:
            return v.term
        if v.items and all(isinstance(x, SV) and x.kind == "ev" for x in v.items):
            t = z3.Empty(smt.SeqEv)
            for x in v.items:
                t = z3.Concat(t, z3.Unit(x.t))
            return t
        if not v.items:
            return None  # polymorphic empty
        return it.seq_term(v)
    raise Unsupported(f"seq_of({v!r})")


# ---------------------------------------------------------------------------
# recursive functions over sequences of time-stamped records (t, x) = tup2(int2val(t), x): uninterpreted, with the
# defining equations (by head/tail) instantiated on the ground terms that occur - at every application and for
# every decomposition  T == [h] ++ rest  that a pop(0) produced.  Quantifier-free, so counter-models stay available.
#   drop_aged_prefix(T, now, d)  the records left after removing the longest prefix with now - t >= d
#   aged_prefix_vals(T, now, d)  the values of that prefix
#   young_vals(T, now, d)        the values of ALL records with now - t < d
SEQFUNS = {
    "drop_aged_prefix": z3.Function("drop_aged_prefix", smt.SeqVal, z3.IntSort(), z3.IntSort(), smt.SeqVal),
    "aged_prefix_vals": z3.Function("aged_prefix_vals", smt.SeqVal, z3.IntSort(), z3.IntSort(), smt.SeqVal),
    "young_vals": z3.Function("young_vals", smt.SeqVal, z3.IntSort(), z3.IntSort(), smt.SeqVal),
}


def _seqfun_unfold(it, name, T, now, d, h=None, tl=None):
    f = SEQFUNS[name]
    n = z3.Length(T)
    E = z3.Empty(smt.SeqVal)
    if h is None:
        h, tl = T[0], z3.Extract(T, 1, n - 1)
        nonempty = n > 0
        it.ctx.assume(z3.Implies(n == 0, f(T, now, d) == E))
    else:
        nonempty = z3.BoolVal(True)
    aged = now - smt.val2int(smt.tup2_0(h)) >= d
    x = z3.Unit(smt.tup2_1(h))
    if name == "drop_aged_prefix":
        body = z3.If(aged, f(tl, now, d), T)
    elif name == "aged_prefix_vals":
        body = z3.If(aged, z3.Concat(x, f(tl, now, d)), E)
    else:
        body = z3.Concat(z3.If(aged, E, x), f(tl, now, d))
    it.ctx.assume(z3.Implies(nonempty, f(T, now, d) == body))


def seqfun_apply(it, name, T, now, d):
    apps = it.ctx.__dict__.setdefault("seqfun_apps", [])
    key = (name, T, now, d)
    if not any(k[0] == name and k[1].eq(T) and k[2].eq(now) and k[3].eq(d) for k in apps):
        apps.append(key)
        _seqfun_unfold(it, name, T, now, d)
        for (T2, h, tl) in it.ctx.__dict__.get("seqfun_pops", []):
            if T2.eq(T):
                _seqfun_unfold(it, name, T, now, d, h, tl)
    return SEQFUNS[name](T, now, d)


def seqfun_pop_fact(it, T, h, tl):
    it.ctx.__dict__.setdefault("seqfun_pops", []).append((T, h, tl))
    for (name, T2, now) in it.ctx.__dict__.get("duefun_apps", []):
        if T2.eq(T):
            _duefun_unfold(it, name, T, now, h, tl)
    for (name, T2, now, d) in it.ctx.__dict__.get("seqfun_apps", []):
        if T2.eq(T):
            _seqfun_unfold(it, name, T, now, d, h, tl)
    for (name, T2) in it.ctx.__dict__.get("duepred_apps", []):
        if T2.eq(T):
            _duepred_unfold(it, name, T, h, tl)
    for (cmp, T2, key) in it.ctx.__dict__.get("match_apps", []):
        if T2.eq(T):
            _match_unfold(it, cmp, T, key, h, tl)


# functions of delay's queue: records (notification, due) = tup2(tup2(int2val(kind), payload), int2val(due)); kind 1 = element,
# 2 = completion.  Same ground-unfolding scheme as SEQFUNS.
#   due_prefix_vals(T, now)       the elements of the longest prefix of due records (due <= now), up to a completion
#   due_prefix_completes(T, now)  that prefix reaches the completion record
#   drop_due_prefix(T, now)       what is left after that prefix (nothing after a completion)
DUEFUNS = {
    "due_prefix_vals": z3.Function("due_prefix_vals", smt.SeqVal, z3.IntSort(), smt.SeqVal),
    "due_prefix_completes": z3.Function("due_prefix_completes", smt.SeqVal, z3.IntSort(), z3.BoolSort()),
    "drop_due_prefix": z3.Function("drop_due_prefix", smt.SeqVal, z3.IntSort(), smt.SeqVal),
}


def _duefun_unfold(it, name, T, now, h=None, tl=None):
    f = DUEFUNS[name]
    n = z3.Length(T)
    E = z3.Empty(smt.SeqVal)
    base = {"due_prefix_vals": E, "due_prefix_completes": z3.BoolVal(False), "drop_due_prefix": E}[name]
    if h is None:
        h, tl = T[0], z3.Extract(T, 1, n - 1)
        nonempty = n > 0
        it.ctx.assume(z3.Implies(n == 0, f(T, now) == base))
    else:
        nonempty = z3.BoolVal(True)
    due = smt.val2int(smt.tup2_1(h)) <= now
    is_elem = smt.val2int(smt.tup2_0(smt.tup2_0(h))) == 1
    x = z3.Unit(smt.tup2_1(smt.tup2_0(h)))
    if name == "due_prefix_vals":
        body = z3.If(z3.And(due, is_elem), z3.Concat(x, f(tl, now)), E)
    elif name == "due_prefix_completes":
        body = z3.If(due, z3.If(is_elem, f(tl, now), z3.BoolVal(True)), z3.BoolVal(False))
    else:
        body = z3.If(due, z3.If(is_elem, f(tl, now), E), T)
    it.ctx.assume(z3.Implies(nonempty, f(T, now) == body))


# well-formedness of delay's queue (same records): unary predicates, same ground-unfolding scheme
#   all_elements(T)     every record is an element
#   completion_last(T)  a completion record, if there is one, is the last record
DUEPREDS = {
    "all_elements": z3.Function("all_elements", smt.SeqVal, z3.BoolSort()),
    "completion_last": z3.Function("completion_last", smt.SeqVal, z3.BoolSort()),
}


def rec_is_elem(h):
    return smt.val2int(smt.tup2_0(smt.tup2_0(h))) == 1


def _duepred_unfold(it, name, T, h=None, tl=None):
    f = DUEPREDS[name]
    n = z3.Length(T)
    if h is None:
        h, tl = T[0], z3.Extract(T, 1, n - 1)
        nonempty = n > 0
        it.ctx.assume(z3.Implies(n == 0, f(T)))
    else:
        nonempty = z3.BoolVal(True)
    if name == "all_elements":
        body = z3.And(rec_is_elem(h), f(tl))
    else:
        body = z3.If(rec_is_elem(h), f(tl), z3.Length(tl) == 0)
    it.ctx.assume(z3.Implies(nonempty, f(T) == body))


def duepred_apply(it, name, T):
    apps = it.ctx.__dict__.setdefault("duepred_apps", [])
    if not any(k[0] == name and k[1].eq(T) for k in apps):
        apps.append((name, T))
        _duepred_unfold(it, name, T)
        for (T2, h, tl) in it.ctx.__dict__.get("seqfun_pops", []):
            if T2.eq(T):
                _duepred_unfold(it, name, T, h, tl)
        for (T0, r, T2) in it.ctx.__dict__.get("snoc_facts", []):
            if T2.eq(T) or T0.eq(T):
                _snoc_lemmas(it, T0, r, T2)
    return DUEPREDS[name](T)


def _snoc_lemmas(it, T, r, T2):
    """instances of the two snoc lemmas (proved by structural induction in the seqlemma unit) at an append T2 = T ++ [r]:
         all_elements(T)                      ==>  completion_last(T ++ [r])
         all_elements(T) and is_element(r)    ==>  all_elements(T ++ [r])"""
    AE, CL = DUEPREDS["all_elements"], DUEPREDS["completion_last"]
    it.ctx.assume(z3.Implies(AE(T), CL(T2)))
    it.ctx.assume(z3.Implies(z3.And(AE(T), rec_is_elem(r)), AE(T2)))


def snoc_fact(it, T, r, T2):
    """an append to a symbolic queue of notification records"""
    it.ctx.__dict__.setdefault("snoc_facts", []).append((T, r, T2))
    if it.ctx.__dict__.get("duepred_apps"):
        _snoc_lemmas(it, T, r, T2)


def duefun_apply(it, name, T, now):
    apps = it.ctx.__dict__.setdefault("duefun_apps", [])
    if not any(k[0] == name and k[1].eq(T) and k[2].eq(now) for k in apps):
        apps.append((name, T, now))
        _duefun_unfold(it, name, T, now)
        for (T2, h, tl) in it.ctx.__dict__.get("seqfun_pops", []):
            if T2.eq(T):
                _duefun_unfold(it, name, T, now, h, tl)
    return DUEFUNS[name](T, now)


def seq_pair(it, a, b):
    ta, tb = seq_of(it, a), seq_of(it, b)
    if ta is None and tb is None:
        return z3.Empty(smt.SeqVal), z3.Empty(smt.SeqVal)
    if ta is None:
        ta = z3.Empty(tb.sort())
    if tb is None:
        tb = z3.Empty(ta.sort())
    return ta, tb


def seq_kind(t):
    return "seqev" if t.sort() == smt.SeqEv else "seq"


def hashable(it, v):
    if isinstance(v, (int, str, bool, float, tuple)) or v is None:
        return v
    if isinstance(v, (Obj, Opaque, Closure, ClassRef, Sentinel, BoundMethod, OpaqueMethod)):
        return v
    raise Unsupported(f"dict key {v!r} (symbolic keys need a Map contract)")


def is_numeric(v):
    return isinstance(v, (int, float)) and not isinstance(v, bool) or isinstance(v, bool)


def _ground_int_facts(it, extra):
    """is_int(int2val(t)) and val2int(int2val(t)) == t for every int2val(t) that occurs in the path condition so far
    (quantifier-free: keeps counter-models available)"""
    seen = it.ctx.__dict__.setdefault("_int_seen", set())
    todo = list(it.ctx.pc) + list(extra)
    visited = set()
    while todo:
        t = todo.pop()
        if t.get_id() in visited:
            continue
        visited.add(t.get_id())
        if z3.is_app(t):
            if t.decl().name() == "int2val" and t.get_id() not in seen:
                seen.add(t.get_id())
                it.ctx.assume(z3.And(smt.is_int(t), smt.val2int(t) == t.arg(0)))
            todo.extend(t.children())
        elif z3.is_quantifier(t):
            todo.append(t.body())


def binop(it, op, a, b, inplace=False):
    k = type(op)
    if (isinstance(a, Opaque) or isinstance(b, Opaque)) and hasattr(it.world, "binop"):
        r = it.world.binop(it, op, a, b)
        if r is not NotImplemented:
            return r
    # concrete fast path
    if isinstance(a, (int, float, str, tuple)) and isinstance(b, (int, float, str, tuple)) and not (
        isinstance(a, tuple) and any(isinstance(x, SV) for x in a)
    ):
        try:
            if k is ast.Add:
                return a + b
            if k is ast.Sub:
                return a - b
            if k is ast.Mult:
                return a * b
            if k is ast.FloorDiv:
                return a // b
            if k is ast.Mod:
                return a % b
            if k is ast.Div:
                return a / b
            if k is ast.Pow:
                return a**b
        except ZeroDivisionError:
            raise PyExc(it.make_exc("ZeroDivisionError", "division by zero"))
        except TypeError as e:
            raise PyExc(it.make_exc("TypeError", str(e)))
    if isinstance(a, tuple) and isinstance(b, tuple) and k is ast.Add:
        return a + b
    if isinstance(a, ListObj) or isinstance(b, ListObj) or (isinstance(a, SV) and a.kind in ("seq", "seqev")) or (
        isinstance(b, SV) and b.kind in ("seq", "seqev")
    ):
        if k is ast.Add:
            if isinstance(a, ListObj) and isinstance(b, ListObj) and not a.symbolic and not b.symbolic and not it.ctx.spec:
                if inplace:
                    a.items.extend(b.items)
                    return a
                return ListObj(a.items + b.items)
            ta, tb = seq_pair(it, a, b)
            t = z3.Concat(ta, tb)
            if it.ctx.spec:
                return SV(t, seq_kind(t))
            if inplace and isinstance(a, ListObj):
                a.items, a.term = None, t
                return a
            return ListObj(term=t)
        if k is ast.Mult and isinstance(a, ListObj) and not a.symbolic and isinstance(b, int):
            return ListObj(a.items * b)
        raise Unsupported("list binop")
    if isinstance(a, SV) and a.kind == "val" or isinstance(b, SV) and b.kind == "val":
        # arithmetic on user elements: abstract, deterministic (same symbol on both sides of a spec)
        name = {ast.Add: "val_add", ast.Sub: "val_sub", ast.Mult: "val_mul", ast.Div: "val_div",
                ast.FloorDiv: "val_floordiv", ast.Mod: "val_mod"}.get(k)
        if name is None:
            raise Unsupported("binop on Val")
        f = z3.Function(name, smt.Val, smt.Val, smt.Val)
        ta, tb = it.to_val(a), it.to_val(b)
        res = f(ta, tb)
        if k in (ast.Add, ast.Sub, ast.Mult):
            # on Python ints the abstract operation IS integer arithmetic: ground instances for these operands
            iop = {ast.Add: lambda x, y: x + y, ast.Sub: lambda x, y: x - y, ast.Mult: lambda x, y: x * y}[k]
            _ground_int_facts(it, [ta, tb])
            it.ctx.assume(z3.Implies(z3.And(smt.is_int(ta), smt.is_int(tb)),
                                     res == smt.int2val(iop(smt.val2int(ta), smt.val2int(tb)))))
        return ValSV(res)
    if isinstance(a, float) and a == int(a):
        a = int(a)  # A-time: an integral float tick count is that many ticks
    if isinstance(b, float) and b == int(b):
        b = int(b)
    if isinstance(a, float) or isinstance(b, float):
        raise Unsupported("float arithmetic with symbolic operand")
    ta, tb = it.to_int(a), it.to_int(b)
    # A-time keeps WHICH representation an instant / span has where the harness tagged it (an instant as a datetime, as a number of seconds, a
    # span): instant + span and instant - span stay that kind of instant (a datetime plus a timedelta is a datetime)
    rep = None
    tga, tgb = getattr(a, "tag", None), getattr(b, "tag", None)
    if k in (ast.Add, ast.Sub) and tga in ("datetime", "num") and tgb in ("span", None) and not (tga == "datetime" and tgb is None):
        rep = tga
    elif k is ast.Add and tgb == "datetime" and tga == "span":
        rep = "datetime"
    if k is ast.Add:
        return SV(ta + tb, "int", tag=rep) if rep else IntSV(ta + tb)
    if k is ast.Sub:
        return SV(ta - tb, "int", tag=rep) if rep else IntSV(ta - tb)
    if k is ast.Mult:
        return IntSV(ta * tb)
    if k is ast.FloorDiv:
        if not it.ctx.spec and it.ctx.branch(tb == 0, "division by zero"):
            raise PyExc(it.make_exc("ZeroDivisionError", "division by zero"))
        return IntSV(smt.py_floordiv(ta, tb))
    if k is ast.Mod:
        if not it.ctx.spec and it.ctx.branch(tb == 0, "modulo by zero"):
            raise PyExc(it.make_exc("ZeroDivisionError", "modulo by zero"))
        return IntSV(smt.py_mod(ta, tb))
    raise Unsupported(f"binop {k.__name__}")


def _is_private_sentinel(v):
    return isinstance(v, Obj) and getattr(v.cls, "name", "") == "NotSet"


def _identity_eq(it, a, b):
    """`is` on two values -> python bool or z3 Bool"""
    sa = isinstance(a, Opaque) and a.kind == "symref"
    sb = isinstance(b, Opaque) and b.kind == "symref"
    if sa or sb:
        if sa and sb:
            return a.attrs["term"] == b.attrs["term"]
        other = b if sa else a
        if other is None or isinstance(other, (bool, int, str, float, tuple)):
            return False
        if isinstance(other, SV) and other.kind == "val":
            return (a if sa else b).attrs["term"] == other.t
        return False
    for x_, y_ in ((a, b), (b, a)):
        # a callback the user MAY have left out, in which case the library put its default there (Disposable(action=None) -> noop): whether the
        # opaque callback IS that default function is one more unknown of the state (the same answer every time it is asked)
        if (isinstance(x_, Opaque) and x_.attrs.get("may_be_default") and isinstance(y_, Closure)
                and getattr(y_.node, "name", None) == x_.attrs["may_be_default"]):
            if "_default_term" not in x_.attrs:
                x_.attrs["_default_term"] = z3.Bool(f"{x_.name}_is_the_default_{x_.attrs['may_be_default']}")
            return x_.attrs["_default_term"]
    if _is_private_sentinel(a) or _is_private_sentinel(b):
        # A-sentinel: a library-private sentinel object (NotSet instance) is never a user element
        return a is b
    if isinstance(a, SV) or isinstance(b, SV):
        if isinstance(a, SV) and isinstance(b, SV) and a.kind == b.kind:
            return a.t == b.t
        sv, other = (a, b) if isinstance(a, SV) else (b, a)
        if sv.kind == "val":
            if it.ctx.taint_hook and other is None:
                it.ctx.taint_hook("is None", sv)
            return sv.t == it.to_val(other)
        if sv.kind == "int" and isinstance(other, int) and not isinstance(other, bool):
            return sv.t == other
        if sv.kind == "bool" and isinstance(other, bool):
            return sv.t == other
        return False
    if isinstance(a, (BoundMethod, OpaqueMethod)):
        return a == b
    if a is None or b is None or isinstance(a, (bool,)) or isinstance(b, bool):
        return a is b
    if isinstance(a, (int, str)) and isinstance(b, (int, str)):
        return type(a) is type(b) and a == b
    return a is b


def _eq(it, a, b):
    """`==` -> python bool or z3 Bool"""
    if (isinstance(a, Opaque) or isinstance(b, Opaque)) and hasattr(it.world, "eq"):
        r = it.world.eq(it, a, b)
        if r is not NotImplemented:
            return r
    if (isinstance(a, Opaque) and a.kind == "symref") or (isinstance(b, Opaque) and b.kind == "symref"):
        return _identity_eq(it, a, b)  # disposables/observers do not define __eq__
    if _is_private_sentinel(a) or _is_private_sentinel(b):
        return a is b  # NotSet.__eq__ is identity; A-sentinel: user values do not claim equality with it
    if isinstance(a, SV) or isinstance(b, SV):
        ka = a.kind if isinstance(a, SV) else None
        kb = b.kind if isinstance(b, SV) else None
        if "val" in (ka, kb):
            if ka == "val" and kb == "val" and z3.eq(a.t, b.t) and it.ctx.spec:
                return True
            if it.ctx.spec:
                return it.to_val(a) == it.to_val(b)
            if it.ctx.taint_hook:
                it.ctx.taint_hook("==", a if ka == "val" else b)
            return smt.py_eq(it.to_val(a), it.to_val(b))
        if ka in ("seq", "seqev") or kb in ("seq", "seqev") or isinstance(a, ListObj) or isinstance(b, ListObj):
            ta, tb = seq_pair(it, a, b)
            return ta == tb
        if ka == "ev" or kb == "ev":
            return a.t == b.t
        if (ka == "bool" or isinstance(a, bool)) and (kb == "bool" or isinstance(b, bool)):
            ta, tb = it.truth_term(a), it.truth_term(b)
            ta = z3.BoolVal(ta) if isinstance(ta, bool) else ta
            tb = z3.BoolVal(tb) if isinstance(tb, bool) else tb
            return ta == tb
        if isinstance(a, (SV, int)) and isinstance(b, (SV, int)):
            return it.to_int(a) == it.to_int(b)
        return False
    if isinstance(a, ListObj) and isinstance(b, ListObj):
        if a.symbolic or b.symbolic or it.ctx.spec:
            ta, tb = seq_pair(it, a, b)
            return ta == tb
        if len(a.items) != len(b.items):
            return False
        r = True
        for x, y in zip(a.items, b.items):
            r = mk_and(r, _eq(it, x, y))
        return r
    if isinstance(a, tuple) and isinstance(b, tuple):
        if len(a) != len(b):
            return False
        r = True
        for x, y in zip(a, b):
            r = mk_and(r, _eq(it, x, y))
        return r
    if isinstance(a, Obj):
        m = it.class_lookup(a.cls, "__eq__")
        if m is not None and isinstance(m, Closure):
            return it.truth_term(it.call(it.bind(a, m), [b], {}))
        return a is b
    if isinstance(a, (Opaque, Closure, ClassRef, NativeClass, Sentinel, DictObj, SetObj)) or isinstance(
        b, (Opaque, Closure, ClassRef, NativeClass, Sentinel, DictObj, SetObj, Obj)
    ):
        return a is b
    if isinstance(a, (BoundMethod, OpaqueMethod)) or isinstance(b, (BoundMethod, OpaqueMethod)):
        return a == b
    try:
        return a == b
    except Exception:
        return False


def compare(it, op, a, b):
    k = type(op)
    if k is ast.Is:
        r = _identity_eq(it, a, b)
        return r if isinstance(r, bool) else BoolSV(r)
    if k is ast.IsNot:
        r = _identity_eq(it, a, b)
        return (not r) if isinstance(r, bool) else BoolSV(z3.Not(r))
    if k is ast.Eq:
        r = _eq(it, a, b)
        return r if isinstance(r, bool) else BoolSV(r)
    if k is ast.NotEq:
        r = _eq(it, a, b)
        return (not r) if isinstance(r, bool) else BoolSV(z3.Not(r))
    if k in (ast.In, ast.NotIn):
        r = contains(it, b, a)
        if k is ast.NotIn:
            r = (not r) if isinstance(r, bool) else z3.Not(r)
        return r if isinstance(r, bool) else BoolSV(r)
    # ordering
    if isinstance(a, (int, float, str)) and isinstance(b, (int, float, str)):
        try:
            return {ast.Lt: a < b, ast.LtE: a <= b, ast.Gt: a > b, ast.GtE: a >= b}[k]
        except TypeError as e:
            raise PyExc(it.make_exc("TypeError", str(e)))
    if isinstance(a, Obj):
        name = {ast.Lt: "__lt__", ast.LtE: "__le__", ast.Gt: "__gt__", ast.GtE: "__ge__"}[k]
        m = it.class_lookup(a.cls, name)
        if m is not None:
            return it.call(it.bind(a, m), [b], {})
    if isinstance(a, tuple) and isinstance(b, tuple):
        # lexicographic comparison using element comparisons (python semantics)
        for x, y in zip(a, b):
            e = _eq(it, x, y)
            if isinstance(e, bool):
                if not e:
                    return compare(it, op, x, y)
            elif not it.ctx.branch(e, "tuple elt =="):
                return compare(it, op, x, y)
        la, lb = len(a), len(b)
        return {ast.Lt: la < lb, ast.LtE: la <= lb, ast.Gt: la > lb, ast.GtE: la >= lb}[k]
    if (isinstance(a, SV) and a.kind == "val") or (isinstance(b, SV) and b.kind == "val"):
        f = z3.Function("val_lt", smt.Val, smt.Val, z3.BoolSort())
        ta, tb = it.to_val(a), it.to_val(b)
        # A-order: the ordering operators of user values are mutually consistent (a < b implies a <= b)
        g_ = z3.Function("val_le", smt.Val, smt.Val, z3.BoolSort())
        it.ctx.assume(z3.And(z3.Implies(f(ta, tb), g_(ta, tb)), z3.Implies(f(tb, ta), g_(tb, ta))))
        if k is ast.Lt:
            return BoolSV(f(ta, tb))
        if k is ast.Gt:
            return BoolSV(f(tb, ta))
        g = z3.Function("val_le", smt.Val, smt.Val, z3.BoolSort())
        if k is ast.LtE:
            return BoolSV(g(ta, tb))
        return BoolSV(g(tb, ta))
    if isinstance(a, float) and a == int(a):
        a = int(a)  # A-time: an integral float tick count is that many ticks
    if isinstance(b, float) and b == int(b):
        b = int(b)
    ta, tb = it.to_int(a), it.to_int(b)
    return BoolSV({ast.Lt: ta < tb, ast.LtE: ta <= tb, ast.Gt: ta > tb, ast.GtE: ta >= tb}[k])


def contains(it, container, x):
    if isinstance(container, ListObj):
        if container.symbolic:
            return z3.Contains(container.term, z3.Unit(it.to_val(x)))
        r = False
        for y in container.items:
            r = mk_or(r, _eq(it, y, x))
        return r
    if isinstance(container, tuple):
        r = False
        for y in container:
            r = mk_or(r, _eq(it, y, x))
        return r
    if isinstance(container, DictObj):
        return hashable(it, x) in container.d
    if isinstance(container, SetObj):
        r = False
        for y in container.s:
            r = mk_or(r, _eq(it, y, x))
        return r
    if isinstance(container, str) and isinstance(x, str):
        return x in container
    if isinstance(container, SV) and container.kind == "seq":
        return z3.Contains(container.t, z3.Unit(it.to_val(x)))
    if isinstance(container, Opaque):
        return it.truth_term(it.world.call(it, container, "__contains__", [x], {}))
    raise Unsupported(f"in {container!r}")


# ---------------------------------------------------------------------------
# subscripting


def norm_index(it, lst_len, i):
    """python index normalisation for a concrete-length sequence with concrete index"""
    if i < 0:
        i += lst_len
    return i


def py_slice_bounds(it, n, lo, hi):
    """python slice clamping (step 1) as terms over length n: returns (start, stop) with 0<=start, stop<=n"""
    def clamp(v, default):
        if v is None:
            return default
        t = it.to_int(v)
        t = z3.If(t < 0, t + n, t)
        return z3.If(t < 0, 0, z3.If(t > n, n, t))

    s = clamp(lo, z3.IntVal(0))
    e = clamp(hi, n)
    return s, e


def getitem(it, base, idx):
    if isinstance(base, ListObj) or (isinstance(base, SV) and base.kind in ("seq", "seqev")):
        sym = isinstance(base, SV) or base.symbolic
        if isinstance(idx, SliceVal):
            if idx.step is not None and idx.step != 1:
                raise Unsupported("slice step")
            if not sym and all(x is None or isinstance(x, int) for x in (idx.lo, idx.hi)) and not it.ctx.spec:
                return ListObj(base.items[idx.lo:idx.hi])
            t = seq_of(it, base)
            if t is None:
                t = z3.Empty(smt.SeqVal)
            n = z3.Length(t)
            s, e = py_slice_bounds(it, n, idx.lo, idx.hi)
            r = z3.Extract(t, s, z3.If(e - s > 0, e - s, 0))
            if isinstance(base, SV) or it.ctx.spec:
                return SV(r, seq_kind(r))
            return ListObj(term=r, elem=base.elem)
        if not sym and isinstance(idx, int):
            n = len(base.items)
            j = idx + n if idx < 0 else idx
            if not 0 <= j < n:
                raise PyExc(it.make_exc("IndexError", "list index out of range"))
            return base.items[j]
        if not sym and isinstance(idx, SV):
            # symbolic index into a concrete list: case split
            ti = it.to_int(idx)
            n = len(base.items)
            for j in range(n):
                if it.ctx.branch(z3.Or(ti == j, ti == j - n), f"index=={j}"):
                    return base.items[j]
            raise PyExc(it.make_exc("IndexError", "list index out of range"))
        # symbolic sequence
        t = seq_of(it, base)
        n = z3.Length(t)
        ti = it.to_int(idx)
        elemkind = base.elem if isinstance(base, ListObj) else "val"
        if it.ctx.spec:
            j = z3.If(ti < 0, ti + n, ti)
            if t.sort() == smt.SeqEv:
                return SV(t[j], "ev")
            return it.elem_from_term(elemkind, t[j])
        j = z3.simplify(z3.If(ti < 0, ti + n, ti))
        if not it.ctx.branch(z3.And(j >= 0, j < n), "index in range"):
            raise PyExc(it.make_exc("IndexError", "list index out of range"))
        # name the element without seq.nth: t == pre ++ [x] ++ post, len(pre) == j
        x = it.ctx.fresh("elt", "val")
        pre = it.ctx.fresh("pre", "seq")
        post = it.ctx.fresh("post", "seq")
        it.ctx.assume(z3.And(t == z3.Concat(pre.t, z3.Unit(x.t), post.t), z3.Length(pre.t) == j))
        return it.elem_from_term(elemkind, x.t)
    if isinstance(base, tuple):
        if isinstance(idx, SliceVal):
            return base[idx.lo:idx.hi:idx.step]
        if isinstance(idx, int):
            try:
                return base[idx]
            except IndexError:
                raise PyExc(it.make_exc("IndexError", "tuple index out of range"))
        if isinstance(idx, SV):
            ti = it.to_int(idx)
            n = len(base)
            for j in range(n):
                if it.ctx.branch(z3.Or(ti == j, ti == j - n), f"index=={j}"):
                    return base[j]
            raise PyExc(it.make_exc("IndexError", "tuple index out of range"))
    if isinstance(base, DictObj):
        if base.symbolic:
            raise Unsupported("lookup in a dict known only by its insertion history")
        k = hashable(it, idx)
        if k not in base.d:
            raise PyExc(it.make_exc("KeyError", repr(k)))
        return base.d[k]
    if isinstance(base, str):
        if isinstance(idx, SliceVal):
            return base[idx.lo:idx.hi:idx.step]
        try:
            return base[idx]
        except IndexError:
            raise PyExc(it.make_exc("IndexError", "string index out of range"))
    if isinstance(base, Obj):
        m = it.class_lookup(base.cls, "__getitem__")
        if m is not None:
            return it.call(it.bind(base, m), [idx], {})
    if isinstance(base, Opaque):
        return it.world.call(it, base, "__getitem__", [idx], {})
    if isinstance(base, SV) and base.kind == "val":
        f = z3.Function("val_getitem", smt.Val, smt.Val, smt.Val)
        return ValSV(f(base.t, it.to_val(idx)))
    raise Unsupported(f"subscript of {base!r}")


def setitem(it, base, idx, val):
    if isinstance(base, ListObj) and isinstance(idx, SliceVal) and idx.lo is None and idx.hi is None and idx.step is None:
        # xs[:] = ys  (replace the contents in place)
        if it.list_hook is not None:
            it.list_hook(it, base, "clear", [])
        if isinstance(val, ListObj) and val.symbolic:
            base.items, base.term, base.elem = None, val.term, val.elem
        else:
            items = it.iterate(val)
            if base.symbolic and not items:
                base.term = z3.Empty(base.term.sort())
            elif base.symbolic:
                base.term = it.seq_term(ListObj(items))
            else:
                base.items[:] = items
        return
    if isinstance(base, ListObj):
        if it.list_hook is not None:
            it.list_hook(it, base, "setitem", [idx, val])
        if not base.symbolic and isinstance(idx, int):
            n = len(base.items)
            j = idx + n if idx < 0 else idx
            if not 0 <= j < n:
                raise PyExc(it.make_exc("IndexError", "list assignment index out of range"))
            base.items[j] = val
            return
        if not base.symbolic and isinstance(idx, SV):
            ti = it.to_int(idx)
            n = len(base.items)
            for j in range(n):
                if it.ctx.branch(z3.Or(ti == j, ti == j - n), f"index=={j}"):
                    base.items[j] = val
                    return
            raise PyExc(it.make_exc("IndexError", "list assignment index out of range"))
        raise Unsupported("setitem on symbolic list")
    if isinstance(base, DictObj):
        if not base.symbolic and isinstance(idx, SV):
            # a symbolic key: from here on the dict is known by its insertion history only
            if base.hist is None:
                raise Unsupported("symbolic key into a dict with an unknown history")
            base.log = it.seq_term(ListObj([(k, x) for k, x in base.hist]))
            base.symbolic = True
        if base.symbolic:
            base.log = z3.Concat(base.log, z3.Unit(it.to_val((idx, val))))
            return
        base.d[hashable(it, idx)] = val
        if base.hist is not None:
            base.hist.append((idx, val))
        return
    if isinstance(base, Obj):
        m = it.class_lookup(base.cls, "__setitem__")
        if m is not None:
            it.call(it.bind(base, m), [idx, val], {})
            return
    if isinstance(base, Opaque):
        it.world.call(it, base, "__setitem__", [idx, val], {})
        return
    raise Unsupported(f"setitem on {base!r}")


def delitem(it, base, idx):
    if isinstance(base, DictObj):
        if base.symbolic:
            raise Unsupported("del on a dict known only by its insertion history")
        base.hist = None
        k = hashable(it, idx)
        if k not in base.d:
            raise PyExc(it.make_exc("KeyError", repr(k)))
        del base.d[k]
        return
    if isinstance(base, ListObj) and not base.symbolic and isinstance(idx, int):
        del base.items[idx]
        return
    if isinstance(base, ListObj) and isinstance(idx, SliceVal) and idx.lo is None and idx.hi is None and idx.step in (None, 1):
        # del q[:]  - the list is emptied in place
        if base.symbolic:
            base.term = z3.Empty(smt.SeqVal)
        else:
            del base.items[:]
        if it.list_hook is not None:
            it.list_hook(it, base, "clear", [])
        return
    if isinstance(base, Opaque):
        it.world.call(it, base, "__delitem__", [idx], {})
        return
    raise Unsupported("del item")


# ---------------------------------------------------------------------------
# attribute access on builtin values


def list_method(it, lst: ListObj, name):
    def append(it_, args, kw):
        (x,) = args
        if lst.symbolic:
            r = it.elem_to_val(lst.elem, x)
            t2 = z3.Concat(lst.term, z3.Unit(r))
            if lst.elem in ("tsnotif", "tupnotif"):
                snoc_fact(it, lst.term, r, t2)
            lst.term = t2
        else:
            lst.items.append(x)

    def pop(it_, args, kw):
        idx = args[0] if args else -1
        if not isinstance(idx, int) or idx not in (0, -1):
            if not lst.symbolic and isinstance(idx, int):
                try:
                    return lst.items.pop(idx)
                except IndexError:
                    raise PyExc(it.make_exc("IndexError", "pop index out of range"))
            raise Unsupported("pop(index)")
        if not lst.symbolic:
            if not lst.items:
                raise PyExc(it.make_exc("IndexError", "pop from empty list"))
            return lst.items.pop(idx)
        if not it.ctx.branch(z3.Length(lst.term) > 0, "pop: non-empty"):
            raise PyExc(it.make_exc("IndexError", "pop from empty list"))
        x = it.ctx.fresh("popped", "val")
        rest = it.ctx.fresh("rest", "seq")
        if idx == 0:
            it.ctx.assume(lst.term == z3.Concat(z3.Unit(x.t), rest.t))
            seqfun_pop_fact(it, lst.term, x.t, rest.t)
        else:
            it.ctx.assume(lst.term == z3.Concat(rest.t, z3.Unit(x.t)))
        lst.term = rest.t
        return it.elem_from_term(lst.elem, x.t)

    def popleft(it_, args, kw):
        return pop(it_, [0], {})

    def clear(it_, args, kw):
        if lst.symbolic:
            lst.term = z3.Empty(lst.term.sort())
        else:
            lst.items.clear()

    def copy(it_, args, kw):
        if lst.symbolic:
            return ListObj(term=lst.term, elem=lst.elem)
        return ListObj(list(lst.items))

    def extend(it_, args, kw):
        (other,) = args
        if lst.symbolic or (isinstance(other, ListObj) and other.symbolic):
            ta, tb = seq_pair(it, lst, other)
            lst.items, lst.term = None, z3.Concat(ta, tb)
        else:
            lst.items.extend(it.iterate(other))

    def insert(it_, args, kw):
        i, x = args
        if lst.symbolic:
            if i == 0:
                lst.term = z3.Concat(z3.Unit(it.to_val(x)), lst.term)
                return
            raise Unsupported("insert on symbolic list")
        lst.items.insert(i, x)

    def remove(it_, args, kw):
        (x,) = args
        if lst.symbolic:
            xv = it.to_val(x)
            if not it.ctx.branch(z3.Contains(lst.term, z3.Unit(xv)), "list.remove: present"):
                raise PyExc(it.make_exc("ValueError", "list.remove(x): x not in list"))
            # removal of the first occurrence as a deterministic (uninterpreted) function of the list
            # and the item, so two removals of the same item from the same list are the same term
            f = z3.Function("seq_remove_first", smt.SeqVal, smt.Val, smt.SeqVal)
            r = f(lst.term, xv)
            it.ctx.assume(z3.Length(r) == z3.Length(lst.term) - 1)
            # ... and its definition at this list: T = pre ++ [x] ++ post with x not in pre, the result is pre ++ post
            pre, post = it.ctx.fresh("before_removed", "seq").t, it.ctx.fresh("after_removed", "seq").t
            it.ctx.assume(z3.And(lst.term == z3.Concat(pre, z3.Unit(xv), post), z3.Not(z3.Contains(pre, z3.Unit(xv))), r == z3.Concat(pre, post)))
            lst.term = r
            return None
        for i, y in enumerate(lst.items):
            e = _eq(it, y, x)
            if (e if isinstance(e, bool) else it.ctx.branch(e, "list.remove ==")):
                del lst.items[i]
                return
        raise PyExc(it.make_exc("ValueError", "list.remove(x): x not in list"))

    def index(it_, args, kw):
        (x,) = args
        if lst.symbolic:
            raise Unsupported("index on symbolic list")
        for i, y in enumerate(lst.items):
            e = _eq(it, y, x)
            if (e if isinstance(e, bool) else it.ctx.branch(e, "list.index ==")):
                return i
        raise PyExc(it.make_exc("ValueError", "x not in list"))

    def sort(it_, args, kw):
        raise Unsupported("list.sort")

    def count(it_, args, kw):
        raise Unsupported("list.count")

    table = {
        "append": append, "pop": pop, "popleft": popleft, "clear": clear, "copy": copy,
        "extend": extend, "insert": insert, "remove": remove, "index": index, "sort": sort,
        "count": count, "appendleft": lambda i, a, k: insert(i, [0, a[0]], {}),
    }
    if name in table:
        fn = table[name]
        if it.list_hook is not None and name not in ("copy", "index", "count"):
            def hooked(it_, args, kw, _fn=fn, _name=name):
                it.list_hook(it, lst, _name, args)
                return _fn(it_, args, kw)
            return Native(f"list.{name}", hooked)
        return Native(f"list.{name}", fn)
    raise PyExc(it.make_exc("AttributeError", f"list has no {name}"))


def dict_method(it, d: DictObj, name):
    if d.symbolic:
        raise Unsupported(f"dict.{name} on a dict known only by its insertion history")
    if name in ("pop", "setdefault", "clear", "update", "popitem"):
        d.hist = None
    def get(it_, args, kw):
        if not d.symbolic and not d.d:
            return args[1] if len(args) > 1 else None  # an empty dict has no key, whatever the key is
        k = hashable(it, args[0])
        return d.d.get(k, args[1] if len(args) > 1 else None)

    def pop(it_, args, kw):
        k = hashable(it, args[0])
        if k in d.d:
            return d.d.pop(k)
        if len(args) > 1:
            return args[1]
        raise PyExc(it.make_exc("KeyError", repr(k)))

    def setdefault(it_, args, kw):
        k = hashable(it, args[0])
        return d.d.setdefault(k, args[1] if len(args) > 1 else None)

    table = {
        "get": get, "pop": pop, "setdefault": setdefault,
        "keys": lambda i, a, k: ListObj(list(d.d.keys())),
        "values": lambda i, a, k: ListObj(list(d.d.values())),
        "items": lambda i, a, k: ListObj([(x, y) for x, y in d.d.items()]),
        "clear": lambda i, a, k: d.d.clear(),
        "copy": lambda i, a, k: DictObj(dict(d.d)),
        "update": lambda i, a, k: d.d.update(a[0].d if a else {}) or d.d.update(k),
    }
    if name in table:
        return Native(f"dict.{name}", table[name])
    raise PyExc(it.make_exc("AttributeError", f"dict has no {name}"))


def set_method(it, s: SetObj, name):
    if s.symbolic and name != "add":
        raise Unsupported(f"set.{name} on a set known only by its insertion history")
    if name not in ("add", "copy"):
        s.hist = None

    def add(it_, args, kw):
        if s.symbolic:
            s.log = z3.Concat(s.log, z3.Unit(it.to_val(args[0])))
            return
        if s.hist is not None:
            s.hist.append(args[0])
        r = contains(it, s, args[0])
        if not (r if isinstance(r, bool) else it.ctx.branch(r, "set.add: present")):
            s.s.append(args[0])

    def discard(it_, args, kw):
        for i, y in enumerate(s.s):
            e = _eq(it, y, args[0])
            if (e if isinstance(e, bool) else it.ctx.branch(e, "set.discard ==")):
                del s.s[i]
                return

    def remove(it_, args, kw):
        n = len(s.s)
        discard(it_, args, kw)
        if len(s.s) == n:
            raise PyExc(it.make_exc("KeyError", "set.remove"))

    table = {"add": add, "discard": discard, "remove": remove,
             "clear": lambda i, a, k: s.s.clear(), "copy": lambda i, a, k: SetObj(list(s.s))}
    if name in table:
        return Native(f"set.{name}", table[name])
    raise PyExc(it.make_exc("AttributeError", f"set has no {name}"))


def builtin_attr(it, v, name):
    if isinstance(v, ListObj):
        return list_method(it, v, name)
    if isinstance(v, DictObj):
        return dict_method(it, v, name)
    if isinstance(v, SetObj):
        return set_method(it, v, name)
    if isinstance(v, SliceVal):
        return {"start": v.lo, "stop": v.hi, "step": v.step}[name]
    if isinstance(v, str):
        if name in ("format", "join", "replace", "split", "strip", "startswith", "endswith", "lower", "upper"):
            def m(it_, args, kw, _n=name):
                if all(isinstance(a, (str, int)) for a in args):
                    return getattr(v, _n)(*args)
                if _n == "format":
                    return v
                if _n == "join":
                    return v.join(str(x) for x in it.iterate(args[0]))
                raise Unsupported(f"str.{_n} with symbolic args")
            return Native(f"str.{name}", m)
    if isinstance(v, (BoundMethod,)) and name == "__self__":
        return v.self_val
    if (isinstance(v, SV) and v.kind == "int" or isinstance(v, int)) and name == "total_seconds":
        # A-time: a time span in ticks is its own number of seconds
        return Native("timedelta.total_seconds", lambda it_, a, k: v)
    if isinstance(v, SV) and v.kind == "val":
        # attribute of a user element / exception: abstract projection
        f = z3.Function(f"attr_{name}", smt.Val, smt.Val)
        return ValSV(f(v.t))
    if isinstance(v, Sentinel):
        return Sentinel(f"{v.name}.{name}")
    if isinstance(v, Native) and name in ("__name__",):
        return v.name
    if isinstance(v, IterVal) and name == "__next__":
        return Native("next", lambda it_, a, k: _next(it, [v], {}))
    raise PyExc(it.make_exc("AttributeError", f"{type(v).__name__} {v!r} has no attribute {name}"))


def builtin_isinstance(it, v, cls):
    name = getattr(cls, "name", None)
    if isinstance(cls, Sentinel):
        # typing constructs (Callable, Iterable...)
        n = cls.name
        if "Callable" in n:
            return isinstance(v, (Closure, BoundMethod, Native, OpaqueMethod))
        if "Iterable" in n or "Sequence" in n:
            return isinstance(v, (ListObj, tuple, RangeVal, IterVal, SetObj, DictObj, str))
        raise Unsupported(f"isinstance against {n}")
    table = {
        "int": lambda: isinstance(v, int) or (isinstance(v, SV) and v.kind in ("int", "bool")),
        "bool": lambda: isinstance(v, bool) or (isinstance(v, SV) and v.kind == "bool"),
        "float": lambda: isinstance(v, float),
        "str": lambda: isinstance(v, str),
        "list": lambda: isinstance(v, ListObj) and not v.is_deque,
        "tuple": lambda: isinstance(v, tuple),
        "dict": lambda: isinstance(v, DictObj),
        "set": lambda: isinstance(v, SetObj),
        "slice": lambda: isinstance(v, SliceVal),
        "object": lambda: True,
        "type": lambda: isinstance(v, (ClassRef, NativeClass)),
    }
    if isinstance(v, SV) and v.tag == "exc" and name in ("Exception", "BaseException"):
        return True
    if str(name).split(".")[-1] == "datetime" and not isinstance(v, Obj):
        # A-time: an absolute time is an integer tick count tagged as such; relative times are plain integers
        return isinstance(v, SV) and v.tag == "datetime"
    if str(name).split(".")[-1] == "timedelta" and not isinstance(v, Obj):
        return False
    if isinstance(v, Obj) and isinstance(cls, NativeClass):
        return cls in it.mro(v.cls)
    if isinstance(v, SV) and v.kind == "val" and name in table and name != "object":
        p = z3.Function(f"val_isinstance_{name}", smt.Val, z3.BoolSort())
        return it.ctx.branch(p(v.t), f"isinstance(val,{name})")
    if name in table:
        return table[name]()
    if isinstance(v, SV) and v.kind == "val":
        p = z3.Function(f"val_isinstance_{name}", smt.Val, z3.BoolSort())
        return it.ctx.branch(p(v.t), f"isinstance(val,{name})")
    if isinstance(cls, (ClassRef, NativeClass)):
        return False
    raise Unsupported(f"isinstance({v!r}, {cls!r})")


# ---------------------------------------------------------------------------
# builtins


def _len(it, args, kw):
    (v,) = args
    if isinstance(v, ListObj):
        return IntSV(z3.Length(v.term)) if v.symbolic else len(v.items)
    if isinstance(v, SV) and v.kind in ("seq", "seqev"):
        return IntSV(z3.Length(v.t))
    if isinstance(v, (tuple, str)):
        return len(v)
    if isinstance(v, DictObj):
        return len(v.d)
    if isinstance(v, SetObj):
        return len(v.s)
    if isinstance(v, RangeVal):
        return it.range_len(v)
    if isinstance(v, Obj):
        m = it.class_lookup(v.cls, "__len__")
        if m is not None:
            return it.call(it.bind(v, m), [], {})
    if isinstance(v, Opaque):
        return it.world.call(it, v, "__len__", [], {})
    raise PyExc(it.make_exc("TypeError", f"object has no len(): {v!r}"))


def _range(it, args, kw):
    if len(args) == 1:
        return RangeVal(0, args[0], 1)
    if len(args) == 2:
        return RangeVal(args[0], args[1], 1)
    return RangeVal(*args)


def _isinstance(it, args, kw):
    return it.isinstance_(args[0], args[1])


def _getattr(it, args, kw):
    if len(args) == 3:
        try:
            return it.get_attr(args[0], args[1])
        except PyExc as e:
            if it.exc_matches(e.value, it.externals["builtins.AttributeError"]):
                return args[2]
            raise
    return it.get_attr(args[0], args[1])


def _callable(it, args, kw):
    v = args[0]
    if isinstance(v, (Closure, BoundMethod, Native, OpaqueMethod, ClassRef, NativeClass)):
        return True
    if isinstance(v, Opaque):
        return v.kind == "callback"
    if isinstance(v, Obj):
        return it.class_lookup(v.cls, "__call__") is not None
    return False


def _iter(it, args, kw):
    v = args[0]
    if isinstance(v, IterVal):
        return v
    if isinstance(v, Opaque):
        return it.world.call(it, v, "__iter__", [], {})
    if isinstance(v, Obj):
        m = it.class_lookup(v.cls, "__iter__")
        if m is not None:
            return it.call(it.bind(v, m), [], {})
    return IterVal(it.iterate(v))


def _next(it, args, kw):
    v = args[0]
    if isinstance(v, IterVal):
        from .interp import NOTSET

        x = it.iter_next(v)
        if x is NOTSET:
            if len(args) > 1:
                return args[1]
            raise PyExc(it.make_exc("StopIteration"))
        return x
    if isinstance(v, Opaque):
        return it.world.call(it, v, "__next__", list(args[1:]), {})
    raise Unsupported(f"next({v!r})")


def _minmax(name):
    def f(it, args, kw):
        xs = args if len(args) > 1 else it.iterate(args[0])
        if all(isinstance(x, (int, float)) for x in xs):
            return (min if name == "min" else max)(xs)
        xs = [int(x) if isinstance(x, float) and x == int(x) else x for x in xs]  # A-time: integral float ticks
        r = it.to_int(xs[0])
        for x in xs[1:]:
            t = it.to_int(x)
            r = z3.If(t < r, t, r) if name == "min" else z3.If(t > r, t, r)
        return IntSV(r)
    return f


def _list(it, args, kw):
    if not args:
        return ListObj([])
    v = args[0]
    if isinstance(v, ListObj) and v.symbolic:
        return ListObj(term=v.term, elem=v.elem)
    return ListObj(it.iterate(v))


def _tuple(it, args, kw):
    return tuple(it.iterate(args[0])) if args else ()


def _dict(it, args, kw):
    d = DictObj()
    if args:
        src = args[0]
        if isinstance(src, DictObj):
            d.d.update(src.d)
        else:
            for k, v in it.iterate(src):
                d.d[hashable(it, k)] = v
    d.d.update(kw)
    return d


def _enumerate(it, args, kw):
    start = args[1] if len(args) > 1 else kw.get("start", 0)
    src = args[0]
    if isinstance(src, ListObj) and src.symbolic and start == 0:
        # enumerate over a symbolic list: usable as the iterable of a for-loop that has a loop contract
        return ListObj(term=src.term, elem="enum:" + src.elem)
    return ListObj([(start + i, x) for i, x in enumerate(it.iterate(args[0]))])


# "does a stored key match?" - the scan of distinct's lookup list with a user comparer that may raise:
#   match_code(T, key) = 0 no stored key matches, 1 the first decisive key matches, 2 the comparer raises before any key matched
#   match_exc(T, key)  = what it raises (when the code is 2)
# defined by head/tail with the SAME uninterpreted symbols the comparer's calls use; ground unfolding as for SEQFUNS
def _match_syms(cmpname):
    return (z3.Function(f"match_code[{cmpname}]", smt.SeqVal, smt.Val, z3.IntSort()),
            z3.Function(f"match_exc[{cmpname}]", smt.SeqVal, smt.Val, smt.Val))


def _cmp_terms(it, cmp, a, key):
    """(truth, raises, exc) of comparer(a, key) as terms"""
    if isinstance(cmp, Opaque) and cmp.kind == "callback":
        f = z3.Function(f"{cmp.name}/2", smt.Val, smt.Val, smt.Val)
        fr = z3.Function(f"{cmp.name}_raises/2", smt.Val, smt.Val, z3.BoolSort())
        fe = z3.Function(f"{cmp.name}_exc/2", smt.Val, smt.Val, smt.Val)
        raises = fr(a, key) if cmp.attrs.get("may_raise", True) else z3.BoolVal(False)
        return smt.truthy(f(a, key)), raises, fe(a, key)
    if isinstance(cmp, Closure) and cmp.qualname == "default_comparer":
        return smt.py_eq(a, key), z3.BoolVal(False), smt.NONE  # `x == y` of user values: their own (uninterpreted) equality
    raise Unsupported(f"match_code: comparer {cmp!r}")


def cmp_name(cmp):
    return cmp.name if isinstance(cmp, Opaque) else "default"


def _match_unfold(it, cmp, T, key, h=None, tl=None):
    M, ME = _match_syms(cmp_name(cmp))
    n = z3.Length(T)
    if h is None:
        h, tl = T[0], z3.Extract(T, 1, n - 1)
        nonempty = n > 0
        it.ctx.assume(z3.Implies(n == 0, M(T, key) == 0))
    else:
        nonempty = z3.BoolVal(True)
    truth, raises, exc = _cmp_terms(it, cmp, h, key)
    it.ctx.assume(z3.Implies(nonempty, z3.And(
        M(T, key) == z3.If(raises, 2, z3.If(truth, 1, M(tl, key))),
        z3.Implies(z3.And(z3.Not(raises), z3.Not(truth)), ME(T, key) == ME(tl, key)),
        z3.Implies(raises, ME(T, key) == exc))))


def match_apply(it, cmp, T, key):
    apps = it.ctx.__dict__.setdefault("match_apps", [])
    if not any(k[0] is cmp and k[1].eq(T) and k[2].eq(key) for k in apps):
        apps.append((cmp, T, key))
        _match_unfold(it, cmp, T, key)
        for (T2, h, tl) in it.ctx.__dict__.get("seqfun_pops", []):
            if T2.eq(T):
                _match_unfold(it, cmp, T, key, h, tl)
    return _match_syms(cmp_name(cmp))


def _zip(it, args, kw):
    cols = [it.iterate(a) for a in args]
    return ListObj([tuple(r) for r in zip(*cols)])


def _bool(it, args, kw):
    if not args:
        return False
    t = it.truth_term(args[0])
    return t if isinstance(t, bool) else BoolSV(t)


def _int(it, args, kw):
    v = args[0] if args else 0
    if isinstance(v, (int, float, str)):
        try:
            return int(v)
        except ValueError as e:
            raise PyExc(it.make_exc("ValueError", str(e)))
    return IntSV(it.to_int(v))


def _abs(it, args, kw):
    v = args[0]
    if isinstance(v, (int, float)):
        return abs(v)
    t = it.to_int(v)
    return IntSV(z3.If(t < 0, -t, t))


def _exc_construct(it, cls, args, kw):
    o = Obj(cls)
    o.fields["args"] = tuple(args)
    return o


def _any(it, args, kw):
    for x in it.iterate(args[0]):
        if it.truth(x):
            return True
    return False


def _all(it, args, kw):
    for x in it.iterate(args[0]):
        if not it.truth(x):
            return False
    return True


def _sum(it, args, kw):
    r = args[1] if len(args) > 1 else 0
    for x in it.iterate(args[0]):
        r = binop(it, ast.Add(), r, x)
    return r


def _property(it, args, kw):
    fget = args[0] if args else kw.get("fget")
    fset = args[1] if len(args) > 1 else kw.get("fset")
    return PropertyVal(fget, fset)


def _reversed(it, args, kw):
    return IterVal(list(reversed(it.iterate(args[0]))))


def _sorted(it, args, kw):
    xs = it.iterate(args[0])
    if all(isinstance(x, (int, float, str)) for x in xs) and not kw:
        return ListObj(sorted(xs))
    raise Unsupported("sorted on symbolic values")


def _id(it, args, kw):
    return it.ref_id(args[0])


def _print(it, args, kw):
    return None


def _type(it, args, kw):
    v = args[0]
    if isinstance(v, Obj):
        return v.cls
    raise Unsupported("type()")


def _hasattr(it, args, kw):
    return it.has_attr(args[0], args[1])


def _setattr(it, args, kw):
    it.set_attr(args[0], args[1], args[2])


def _str(it, args, kw):
    v = args[0] if args else ""
    if isinstance(v, (int, float, str, bool)) or v is None:
        return str(v)
    return f"<str of {type(v).__name__}>"


def install(it):
    E = it.externals
    obj = NativeClass("object")
    obj.attrs["__init__"] = Native("object.__init__", lambda it_, a, k: None)
    obj.construct = lambda it_, c, a, k: Obj(c)
    obj.attrs["__new__"] = Native("object.__new__", lambda it_, a, k: Obj(a[0]))
    E["builtins.object"] = obj
    base = NativeClass("BaseException", [obj], _exc_construct, is_exc=True)
    base.attrs["__init__"] = Native("BaseException.__init__", lambda it_, a, k: a[0].fields.__setitem__("args", tuple(a[1:])))
    E["builtins.BaseException"] = base
    exc = NativeClass("Exception", [base], _exc_construct, is_exc=True)
    E["builtins.Exception"] = exc
    hier = {
        "ArithmeticError": "Exception", "ZeroDivisionError": "ArithmeticError", "AssertionError": "Exception",
        "AttributeError": "Exception", "LookupError": "Exception", "IndexError": "LookupError",
        "KeyError": "LookupError", "NameError": "Exception", "RuntimeError": "Exception",
        "NotImplementedError": "RuntimeError", "StopIteration": "Exception", "TypeError": "Exception",
        "ValueError": "Exception", "OSError": "Exception", "TimeoutError": "OSError",
        "KeyboardInterrupt": "BaseException", "GeneratorExit": "BaseException", "RecursionError": "RuntimeError",
    }
    for n, b in hier.items():
        E[f"builtins.{n}"] = NativeClass(n, [E[f"builtins.{b}"]], _exc_construct, is_exc=True)
    for n, f in {
        "len": _len, "range": _range, "isinstance": _isinstance, "getattr": _getattr, "hasattr": _hasattr,
        "setattr": _setattr, "callable": _callable, "iter": _iter, "next": _next, "min": _minmax("min"),
        "max": _minmax("max"), "list": _list, "tuple": _tuple, "dict": _dict, "enumerate": _enumerate,
        "zip": _zip, "bool": _bool, "int": _int, "abs": _abs, "any": _any, "all": _all, "sum": _sum,
        "property": _property, "reversed": _reversed, "sorted": _sorted, "id": _id, "print": _print,
        "type": _type, "str": _str,
    }.items():
        E[f"builtins.{n}"] = Native(n, f)
    # constructors that double as classes in isinstance checks
    for n in ("float", "set", "slice"):
        E[f"builtins.{n}"] = Native(n, lambda it_, a, k, _n=n: _ctor(it_, _n, a, k))
    E["builtins.staticmethod"] = Native("staticmethod", lambda it_, a, k: StaticMethodVal(a[0]))
    E["builtins.classmethod"] = Native("classmethod", lambda it_, a, k: ClassMethodVal(a[0]))
    E["builtins.NotImplemented"] = Sentinel("NotImplemented")
    E["builtins.Ellipsis"] = Sentinel("Ellipsis")
    E["builtins.True"] = True
    E["builtins.False"] = False
    E["builtins.None"] = None
    E["builtins.__name__"] = "module"
    E["builtins.TYPE_CHECKING"] = False

    # typing
    E["typing.cast"] = Native("cast", lambda it_, a, k: a[1])
    E["typing.TYPE_CHECKING"] = False
    E["typing.Generic"] = Sentinel("<typing Generic>")
    E["typing.Protocol"] = Sentinel("<typing Protocol>")
    E["typing.overload"] = Sentinel("<typing overload>")
    E["abc.abstractmethod"] = Native("abstractmethod", lambda it_, a, k: a[0])
    E["abc.ABC"] = obj
    E["abc.ABCMeta"] = obj
    # functools
    E["functools.wraps"] = Native("wraps", lambda it_, a, k: Native("wraps_dec", lambda i2, a2, k2: a2[0]))
    E["functools.partial"] = Native("partial", _partial)
    E["functools.reduce"] = Native("reduce", _reduce)
    # threading
    E["threading.RLock"] = Native("RLock", lambda it_, a, k: Opaque("lock", it_.ctx.fresh_name("rlock"), reentrant=True))
    E["threading.Lock"] = Native("Lock", lambda it_, a, k: Opaque("lock", it_.ctx.fresh_name("lock"), reentrant=False))
    E["threading.current_thread"] = Native("current_thread", lambda it_, a, k: it_.world.current_thread(it_))
    E["threading.get_ident"] = Native("get_ident", lambda it_, a, k: it_.world.current_thread(it_))
    E["threading.local"] = NativeClass("local", [obj], lambda it_, c, a, k: Obj(c))
    E["threading.Thread"] = NativeClass("Thread", [obj], None)
    # futures: only values the world marks as futures are futures
    E["asyncio.isfuture"] = Native("isfuture", lambda it_, a, k: isinstance(a[0], Opaque) and a[0].kind == "future")
    E["asyncio.Future"] = NativeClass("Future", [obj], None)
    E["concurrent.futures.Future"] = NativeClass("ConcurrentFuture", [obj], None)
    # logging
    E["logging.getLogger"] = Native("getLogger", lambda it_, a, k: Opaque("logger", "log"))
    # collections
    def _timedelta(it_, a, k):
        # A-time: a time span is an integer tick count; timedelta(seconds=x) is x ticks
        if not a and set(k) == {"seconds"}:
            return k["seconds"]
        if not k and (not a or (len(a) == 1 and a[0] == 0)):
            return 0
        raise Unsupported("timedelta(...) other than timedelta(seconds=x)")
    E["datetime.timedelta"] = Native("timedelta", _timedelta)

    def _fromtimestamp(it_, a, k):
        # A-time: an instant IS its number of time units since the epoch (datetimes are tagged integers); only the tz-aware form
        if a and isinstance(a[0], (int, float)) and not isinstance(a[0], bool) and float(a[0]) == int(a[0]) and k.get("tz", a[1] if len(a) > 1 else None) is not None:
            return SV(z3.IntVal(int(a[0])), "int", tag="datetime")
        raise Unsupported("datetime.fromtimestamp(...) other than fromtimestamp(<whole number>, tz=...)")
    E["datetime.datetime.fromtimestamp"] = Native("fromtimestamp", _fromtimestamp)
    E["collections.deque"] = Native("deque", _deque)
    E["collections.OrderedDict"] = Native("OrderedDict", lambda it_, a, k: _dict(it_, a, k))
    E["weakref.WeakKeyDictionary"] = Native("WeakKeyDictionary", lambda it_, a, k: _dict(it_, a, k))
    E["dataclasses.dataclass"] = Native("dataclass", _dataclass)
    # sys
    E["sys.maxsize"] = 2**63 - 1
    E["math.inf"] = float("inf")


def _dataclass(it, args, kw):
    """@dataclass / @dataclass(...): synthesise __init__ (and field-wise __eq__) from the annotated class body"""
    if not (args and isinstance(args[0], ClassRef)):
        return Native("dataclass(...)", lambda it_, a, k: _dataclass(it_, a, {}))
    cls = args[0]
    names, defaults = [], {}
    for st in cls.node.body:
        if isinstance(st, ast.AnnAssign) and isinstance(st.target, ast.Name):
            names.append(st.target.id)
            if st.value is not None:
                defaults[st.target.id] = cls.attrs.get(st.target.id)

    def init(it_, a, k):
        o = a[0]
        vals = dict(zip(names, a[1:]))
        if len(a) - 1 > len(names):
            raise PyExc(it.make_exc("TypeError", f"{cls.name}() takes {len(names)} positional arguments"))
        for kk, vv in k.items():
            if kk not in names or kk in vals:
                raise PyExc(it.make_exc("TypeError", f"{cls.name}() got an unexpected or repeated argument {kk}"))
            vals[kk] = vv
        for n in names:
            if n not in vals:
                if n not in defaults:
                    raise PyExc(it.make_exc("TypeError", f"{cls.name}() missing argument {n}"))
                vals[n] = defaults[n]
            o.fields[n] = vals[n]
        return None

    def eq(it_, a, k):
        x, y = a[0], a[1]
        if not (isinstance(y, Obj) and y.cls is x.cls):
            return False
        r = True
        for n in names:
            r = mk_and(r, _eq(it, x.fields.get(n), y.fields.get(n)))
        return r if isinstance(r, bool) else BoolSV(r)
    cls.attrs["__init__"] = Native(f"{cls.name}.__init__", init)
    if "__eq__" not in cls.attrs:
        cls.attrs["__eq__"] = Native(f"{cls.name}.__eq__", eq)
    return cls


def _ctor(it, name, args, kw):
    if name == "set":
        return SetObj(it.iterate(args[0]) if args else [])
    if name == "float":
        v = args[0] if args else 0.0
        if isinstance(v, (int, float, str)):
            return float(v)
        return v
    if name == "slice":
        a = list(args) + [None] * (3 - len(args))
        if len(args) == 1:
            return SliceVal(None, args[0], None)
        return SliceVal(a[0], a[1], a[2])
    raise Unsupported(f"constructor {name}")


def _deque(it, args, kw):
    l = _list(it, args[:1], {})
    l.is_deque = True
    return l


def _partial(it, args, kw):
    f, pre = args[0], list(args[1:])
    prekw = dict(kw)
    return Native("partial", lambda it_, a, k: it_.call(f, pre + list(a), {**prekw, **k}))


def _reduce(it, args, kw):
    f, xs = args[0], it.iterate(args[1])
    if len(args) > 2:
        acc = args[2]
    else:
        acc, xs = xs[0], xs[1:]
    for x in xs:
        acc = it.call(f, [acc, x], {})
    return acc
