"""K2: the methods of a real class refine a spec machine (object invariants with the call-out
discipline, DESIGN §3 K2).

For every method M and every path:
    inv(fields, s)  ==>  after the real M:  the sequence of call-outs (which object, which method,
    which payload - broadcasts over a list as one event on the list *value*) equals the spec's,
    the same exception (or none) is raised, inv(fields', s') holds at exit - normal or exceptional -
    and inv already holds at every call-out, pairing the k-th call-out of the real code with the
    k-th call-out of the spec (a callback may re-enter any method, and re-entrant calls assume inv).
    A call-out may raise.  A loop that calls out must iterate over a snapshot, never over a list
    that the object's fields still reference (re-entrant subscribe/unsubscribe would mutate it).
"""
from __future__ import annotations

import ast
import time

import z3

from . import natives, smt
from .contract import ClassContract  # noqa: F401
from .interp import NOTSET, Env, Interp, World, explore
from .loader import Loader, all_functions
from .refine import SPEC_HELPERS, Result, havoc_cell
from .values import frozen_copy
from .values import (
    SV,
    BoolSV,
    BoundMethod,
    Closure,
    ListObj,
    Obj,
    Opaque,
    OpaqueMethod,
    PathEnd,
    PyExc,
    Unsupported,
    ValSV,
)


class CalloutRaised(Exception):
    pass


class ClassWorld(World):
    def __init__(self, h):
        super().__init__()
        self.h = h
        self.log = {"impl": [], "spec": []}
        self.snaps = {"impl": [], "spec": []}
        self.side = "impl"
        self.violations = []

    def new_ref(self, it, base, role):
        t = it.ctx.fresh(base, "val").t
        it.ctx.assume(t != smt.NONE)
        return Opaque("symref", base, term=t, role=role)

    def deref(self, it, role, t):
        return Opaque("symref", "elt", term=t, role=role)

    def hasattr(self, it, o, name):
        if o.kind == "symref":
            role = o.attrs.get("role")
            if role == "observer":
                return name in ("on_next", "on_error", "on_completed")
            return name in ("dispose",)
        return super().hasattr(it, o, name)

    def isinstance(self, it, o, cls):
        n = getattr(cls, "name", "")
        if o.kind == "symref":
            return n in {"observer": ("ObserverBase",), "disposable": ("DisposableBase",),
                         "scheduler": ("SchedulerBase",)}.get(o.attrs.get("role"), ())
        if o.kind == "scheduler":
            return n in ("SchedulerBase",)
        return super().isinstance(it, o, cls)

    def callout(self, it, ev):
        """record a call-out; unknown code runs: it may raise"""
        k = len(self.log[self.side])
        self.log[self.side].append(ev)
        self.snaps[self.side].append(self.h.snapshot(it, self.side))
        h = self.h
        if getattr(h, "reentrant_dispose", False) and not getattr(self, "in_reentrant", False) and ev[0] in ("one", "all") \
                and any(x[0] in ("on_next", "on_error", "on_completed") for x in ev[2]):
            # the code that is called out to may call back into the object: an observer may dispose the subject from inside its callback (the
            # k-th call-out of the real code and the k-th of the spec make the same choice).  What the method does AFTER the call-out - the
            # rest of the broadcast, its own return - is then compared with the spec as ever: a call made on a live subject returns normally
            if it.ctx.branch(z3.Bool(f"callout_{k}_disposes_the_object"), f"the observer disposes the object from inside call-out #{k}"):
                self.in_reentrant = True
                try:
                    if self.side == "impl":
                        it.call(BoundMethod(h.obj, it.class_lookup(h.cls, "dispose")), [], {})
                    else:
                        it.call(BoundMethod(h.s, it.class_lookup(h.s.cls, "dispose")), [], {})
                finally:
                    self.in_reentrant = False
        b = z3.Bool(f"callout_{k}_raises")
        if it.ctx.branch(b, f"call-out #{k} raises"):
            raise PyExc(SV(z3.Const(f"callout_{k}_exc", smt.Val), "val", tag="exc"))

    def setattr(self, it, o, name, value):
        if o.kind == "symref":
            # property assignment on a collaborator (e.g. `self._subscription.disposable = d`): a call-out
            self.callout(it, ("one", o.attrs["term"], (("set:" + name, (self.h.lift(it, value),)),)))
            return
        super().setattr(it, o, name, value)

    def call(self, it, o, method, args, kwargs):
        if o.kind == "symref":
            payload = tuple(self.h.lift(it, a) for a in args)
            self.callout(it, ("one", o.attrs["term"], ((method, payload),)))
            return None
        if o.kind == "callback":
            # a user callback held by the object: a call-out that may raise (its result is not used)
            payload = tuple(self.h.lift(it, a) for a in args)
            self.callout(it, ("one", it.to_val(o), (("call", payload),)))
            return None
        if o.kind == "lock":
            return None
        return super().call(it, o, method, args, kwargs)

    def broadcast(self, it, lst, method, args):
        self.broadcast_multi(it, lst, [(method, args)])

    def broadcast_multi(self, it, lst, calls):
        if self.side == "impl":
            for name, v in self.h.obj.fields.items():
                if v is lst:
                    self.violations.append(
                        f"iterates self.{name} itself while calling out: a callback that subscribes/unsubscribes mutates the list "
                        f"under the running loop (must iterate a snapshot)")
        self.callout(it, ("all", lst.term, tuple((m, tuple(self.h.lift(it, a) for a in args)) for m, args in calls)))

    def broadcast_general(self, it, st, env, lst):
        """a loop over a symbolic list of collaborators whose body is not literally `x.m(args)`.  Call-out discipline for loops:
        every iteration runs unknown code, which may re-enter the object (subscribe, unsubscribe, dispose ...) - so the loop
        must iterate a snapshot AND its body must not read the object's fields (it has to work on locals taken before the first
        call-out).  Then ONE arbitrary iteration must amount to calls on the loop variable only."""
        import ast as _ast

        if not isinstance(st.target, _ast.Name) or st.orelse:
            raise Unsupported("loop over a symbolic list of collaborators: target / else")
        if self.side == "impl":
            reads = sorted({n.attr for b in st.body for n in _ast.walk(b)
                            if isinstance(n, _ast.Attribute) and isinstance(n.value, _ast.Name) and n.value.id == "self"
                            and n.attr in self.h.obj.fields and not isinstance(self.h.obj.fields[n.attr], (Closure, BoundMethod))})
            if reads:
                self.violations.append(
                    f"the loop calls out on every member and reads self.{', self.'.join(reads)} inside its body: a callback of an earlier member "
                    f"may have re-entered the object (dispose, subscribe, a further notification) and changed them - later members are "
                    f"served from the changed state (the values have to be taken into locals before the first call-out)")
                return
        e = it.ctx.fresh("member", "val").t
        it.ctx.assume(z3.Contains(lst.term, z3.Unit(e)))
        n0 = len(self.log[self.side])
        it.assign(st.target, self.deref(it, lst.elem[4:], e), env)
        it.exec_block(st.body, env)
        new = self.log[self.side][n0:]
        if not new or any(ev[0] != "one" or not z3.eq(ev[1], e) for ev in new):
            raise Unsupported("loop over a symbolic list of collaborators: the body is not just calls on the loop variable")
        calls = tuple(c for ev in new for c in ev[2])
        del self.log[self.side][n0:]
        del self.snaps[self.side][n0:]
        k = len(self.log[self.side])
        self.log[self.side].append(("all", lst.term, calls))
        self.snaps[self.side].append(self.h.snapshot(it, self.side))
        _ = k

    def current_thread(self, it):
        return Opaque("thread", "T")


class ClassHarness:
    def __init__(self, contract, loader=None):
        self.c = contract
        self.loader = loader or Loader()
        self.results = []
        self.unsupported = None
        self.functions = {}

    def record(self, ctx, oid, goal, kind="post", detail=""):
        t0 = time.time()
        if isinstance(goal, bool):
            goal = z3.BoolVal(goal)
        v, m, b = smt.prove(ctx.pc, goal)
        ctx.results.append(Result(oid, v, b, smt.model_to_dict(m), list(ctx.branch_log), detail, time.time() - t0, kind))
        return v == "proved"

    def fail(self, ctx, oid, detail, kind="post"):
        v, m, b = smt.check_sat(ctx.pc)
        if v == "unsat":
            raise PathEnd()
        ctx.results.append(Result(oid, "refuted" if v == "sat" else "unknown", b, smt.model_to_dict(m),
                                  list(ctx.branch_log), detail, 0.0, kind))

    def lift(self, it, v):
        if isinstance(v, Obj) and any(getattr(k, "is_exc", False) for k in it.mro(v.cls)):
            f = z3.Function(f"exc_{v.cls.name}", smt.Val, smt.Val)
            return f(it.to_val(tuple(ValSV(self.lift(it, x)) for x in v.fields.get("args", ()))))
        return it.to_val(v)

    def snapshot(self, it, side):
        if side == "impl":
            d = {}
            for k, v in self.obj.fields.items():
                d[k] = SV(v.term, "seq") if isinstance(v, ListObj) and v.symbolic else frozen_copy(v)
            return d
        d = {}
        for k, v in self.s.fields.items():
            d[k] = SV(v.term, "seq") if isinstance(v, ListObj) and v.symbolic else frozen_copy(v)
        return d

    def inv_term(self, it, fields, sfields):
        env = Env(None, self.loader.load(self.modname))
        o = Obj(self.cls)
        o.fields = dict(fields)
        s = Obj(self.s.cls)
        s.fields = dict(sfields)
        env.vars.update(fields)
        env.vars["self"] = o
        env.vars["s"] = s
        for n, f in SPEC_HELPERS.items():
            env.vars[n] = f
        it.ctx.spec += 1
        hooks = (it.attr_read_hook, it.attr_write_hook)
        it.attr_read_hook = it.attr_write_hook = None
        try:
            return it.truth_term(it.eval(ast.parse(self.c.inv, mode="eval").body, env))
        finally:
            it.ctx.spec -= 1
            it.attr_read_hook, it.attr_write_hook = hooks

    def make_arg(self, it, ctx, name, kind):
        if kind == "val":
            return ctx.fresh(name, "val")
        if kind == "exc":
            v = SV(ctx.fresh(name, "val").t, "val", tag="exc")
            # A-exc: an exception instance is not None; its truth value is arbitrary (a class may define __bool__ / __len__)
            ctx.assume(v.t != smt.NONE)
            return v
        if kind == "int":
            return ctx.fresh(name, "int")
        if kind.startswith("ref:"):
            return self.w.new_ref(it, name, kind[4:])
        if kind == "none":
            return None
        raise Unsupported(f"arg kind {kind}")

    def init_fields(self, it, ctx, target, kinds, tag):
        for name, kind in kinds.items():
            if kind == "lock":
                target.fields[name] = Opaque("lock", f"self.{name}", reentrant=True)
            elif kind.startswith("const:"):
                target.fields[name] = eval(kind[6:], {})
            elif kind.startswith("reflist:"):
                target.fields[name] = ListObj(term=ctx.fresh(f"{tag}{name}", "seq").t, elem="ref:" + kind[8:])
            elif kind == "optexc":
                if ctx.choose(2, f"{tag}{name}_is_none") == 0:
                    target.fields[name] = None
                else:
                    target.fields[name] = self.make_arg(it, ctx, f"{tag}{name}", "exc")
            elif kind == "callback":
                target.fields[name] = Opaque("callback", name)
            elif kind.startswith("ref:"):
                target.fields[name] = self.w.new_ref(it, f"{tag}{name}", kind[4:])
            elif kind == "shared":
                target.fields[name] = None
            elif kind in ("int", "bool", "val"):
                target.fields[name] = ctx.fresh(f"{tag}{name}", kind)
            elif kind == "nat":
                v = ctx.fresh(f"{tag}{name}", "int")
                ctx.assume(v.t >= 0)
                target.fields[name] = v
            elif kind == "seq":
                target.fields[name] = ListObj(term=ctx.fresh(f"{tag}{name}", "seq").t, elem="val")
            elif kind.startswith("seq["):
                target.fields[name] = ListObj(term=ctx.fresh(f"{tag}{name}", "seq").t, elem=kind[4:-1])
            else:
                raise Unsupported(f"field kind {kind}")

    def run_init(self, ctx):
        """the constructor: the real __init__ with arbitrary arguments yields an object coupled with the spec machine's initial state"""
        c = self.c
        w = self.w = ClassWorld(self)
        it = Interp(self.loader, ctx, w)
        from .values import Native
        it.externals["threading.RLock"] = Native("RLock", lambda it_, a, k: Opaque("lock", "self.lock", reentrant=True))
        self.modname = c.file[:-3].replace("/", ".")
        cls = None
        for part in c.cls.split("."):
            cls = it.module_get(self.modname, part) if cls is None else it.get_attr(cls, part)
        self.cls = cls
        uid = f"{c.uid}.__init__"
        args = {n: self.make_arg(it, ctx, n, k) if k != "callback" else Opaque("callback", n) for n, k in c.init.get("args", {}).items()}
        w.side = "impl"
        n0 = len(getattr(w, "events", []))
        try:
            o = self.obj = it.call(cls, list(args.values()), {})
        except PyExc as e:
            self.record(ctx, uid + "/no-exception", False, detail=repr(e.value))
            return
        smod, scls = c.spec.split(":")
        s = self.s = Obj(it.module_get(smod, scls))
        for f, v in c.init.get("spec", {}).items():
            if isinstance(v, str) and v.startswith("arg:"):
                s.fields[f] = args[v[4:]]
            elif isinstance(v, str) and v.startswith("field:"):
                s.fields[f] = o.fields.get(v[6:])
            elif v == []:
                s.fields[f] = ListObj([])
            else:
                s.fields[f] = v
        missing = [f for f in c.fields if f not in o.fields]
        self.record(ctx, uid + "/sets-every-field-of-the-contract", not missing, detail=f"missing: {missing}")
        if missing:
            return
        for f, kind in c.fields.items():
            # a list the constructor built is the (empty) sequence of the contract
            if kind.startswith("reflist:") and isinstance(o.fields[f], ListObj) and not o.fields[f].symbolic and not o.fields[f].items:
                o.fields[f] = ListObj(term=z3.Empty(smt.SeqVal), elem="ref:" + kind[8:])
        for f, kind in c.spec_fields.items():
            if kind.startswith("reflist:") and isinstance(s.fields.get(f), ListObj) and not s.fields[f].symbolic and not s.fields[f].items:
                s.fields[f] = ListObj(term=z3.Empty(smt.SeqVal), elem="ref:" + kind[8:])
        self.record(ctx, uid + "/establishes-the-coupling-invariant-with-the-initial-state-of-the-spec-machine", self.inv_term(it, o.fields, s.fields),
                    detail=f"fields after __init__: { {k: v for k, v in o.fields.items() if k != 'lock'} }")
        evs = getattr(w, "events", [])[n0:]
        self.record(ctx, uid + "/calls-nothing", not evs, detail=f"{evs}")
        stores = c.init.get("stores", {})
        if stores:
            bad = [f for f, a in stores.items() if o.fields.get(f) is not args[a]]
            self.record(ctx, uid + "/keeps-the-very-arguments-it-was-given", not bad, detail=f"fields that do not hold their argument: {bad}")

    def run_method(self, ctx, mname, m):
        c = self.c
        w = self.w = ClassWorld(self)
        it = Interp(self.loader, ctx, w)
        self.modname = c.file[:-3].replace("/", ".")
        cls = None
        for part in c.cls.split("."):
            cls = it.module_get(self.modname, part) if cls is None else it.get_attr(cls, part)
        self.cls = cls
        o = self.obj = Obj(cls)
        self.init_fields(it, ctx, o, c.fields, "")
        smod, scls = c.spec.split(":")
        speccls = it.module_get(smod, scls)
        s = self.s = Obj(speccls)
        self.init_fields(it, ctx, s, c.spec_fields, "s_")
        for sf, f in getattr(c, "shared", {}).items():
            s.fields[sf] = o.fields[f]  # collaborators are the same objects on both sides
        uid = f"{c.uid}.{mname}"
        self.reentrant_dispose = (it.class_lookup(cls, "dispose") is not None and it.class_lookup(speccls, "dispose") is not None
                                  and mname in ("on_next", "on_error", "on_completed") and getattr(c, "reentrant_dispose", True))
        inv0 = self.inv_term(it, o.fields, s.fields)
        ctx.assume(inv0 if not isinstance(inv0, bool) else z3.BoolVal(inv0))
        if c.requires:
            pass
        args = {n: self.make_arg(it, ctx, n, k) for n, k in m.get("args", {}).items()}
        env = Env(None, self.loader.load(self.modname))
        env.vars["self"] = o
        env.vars.update(args)
        for alias, (modn, nm) in c.imports.items():
            env.vars[alias] = it.module_get(modn, nm)
        # real code
        w.side = "impl"
        impl_exc = None
        impl_ret = spec_ret = None
        try:
            impl_ret = it.eval(ast.parse(m["call"], mode="eval").body, env)
        except PyExc as e:
            impl_exc = e.value
        for v in w.violations:
            self.fail(ctx, uid + "/call-out-discipline/iterates-snapshot", v, kind="callout")
            return
        # spec
        w.side = "spec"
        spec_exc = None
        sm = it.class_lookup(speccls, m.get("spec", mname))
        if sm is None:
            raise Unsupported(f"spec has no method {m.get('spec', mname)}")
        try:
            spec_ret = it.call(BoundMethod(s, sm), list(args.values()), {})
        except PyExc as e:
            spec_exc = e.value
        # exceptions
        def exc_name(e):
            if e is None:
                return None
            if isinstance(e, Obj):
                return e.cls.name
            return "callout-exception"
        if exc_name(impl_exc) != exc_name(spec_exc):
            self.fail(ctx, uid + "/same-exception", f"real code raises {exc_name(impl_exc)}, spec {exc_name(spec_exc)}", kind="exc")
            return
        self.record(ctx, uid + "/same-exception", True, kind="exc")
        if spec_ret is not None and impl_exc is None:
            r = natives._eq(it, impl_ret, spec_ret) if impl_ret is not None else False
            self.record(ctx, uid + "/same-result", r, kind="post", detail=f"real returns {impl_ret!r}, spec {spec_ret!r}")
        # events
        li, ls = w.log["impl"], w.log["spec"]
        if len(li) != len(ls) or any(a[0] != b[0] or [x[0] for x in a[2]] != [x[0] for x in b[2]] for a, b in zip(li, ls)):
            self.fail(ctx, uid + "/call-outs/shape", f"real code call-outs {self.show(li)}; spec {self.show(ls)}", kind="events")
            return
        for k, (a, b) in enumerate(zip(li, ls)):
            goal = a[1] == b[1]
            for (ma, pa), (mb, pb) in zip(a[2], b[2]):
                if len(pa) != len(pb):
                    goal = z3.BoolVal(False)
                    break
                for x, y in zip(pa, pb):
                    goal = z3.And(goal, x == y)
            self.record(ctx, uid + f"/call-out#{k}/same-target-and-payload", goal, kind="events",
                        detail=f"real {self.show([a])}; spec {self.show([b])}")
            # the invariant holds at the call-out (re-entrant calls assume it)
            self.record(ctx, uid + f"/call-out#{k}/inv-holds", self.inv_term(it, w.snaps["impl"][k], w.snaps["spec"][k]), kind="inv")
        if not li:
            self.record(ctx, uid + "/call-outs/none", True, kind="events")
        self.record(ctx, uid + "/inv-at-exit", self.inv_term(it, o.fields, s.fields), kind="inv")

    def show(self, log):
        return "[" + "; ".join(f"{e[0]}:{z3.simplify(e[1])}.{'+'.join(m for m, _ in e[2])}" for e in log)[:300] + "]"

    def run(self):
        c = self.c
        t0 = time.time()
        try:
            node = self.loader.find(c.file, c.cls)
            self.functions[f"{c.file}::{c.cls}"] = self.loader.sha(c.file, c.cls)
            for q, n in all_functions(node, c.cls):
                self.functions[f"{c.file}::{q}"] = self.loader.sha(c.file, q)
            for f2, c2 in getattr(c, "also", []):
                self.functions[f"{f2}::{c2}"] = self.loader.sha(f2, c2)
            if getattr(c, "init", None):
                for p in explore(self.run_init):
                    self.results.extend(p.results)
            for mname, m in c.methods.items():
                paths = explore(lambda ctx, _n=mname, _m=m: self.run_method(ctx, _n, _m))
                for p in paths:
                    self.results.extend(p.results)
        except Unsupported as e:
            self.unsupported = str(e)
        except PyExc as e:
            self.unsupported = f"interpreter-level exception: {e.value!r} {getattr(e.value, 'fields', '')}"
        self.seconds = time.time() - t0
        return self


SUBJECT_STATE = {"is_stopped", "is_disposed", "observers", "exception", "value", "has_value", "queue"}


def subscribe_lock_discipline(c, loader):
    """The refinement above is about call histories of one thread (and re-entrant calls).  What lets it speak for subscribers that arrive while
    another thread is inside on_next / on_completed is the monitor discipline of `_subscribe_core`, checked on the real AST:
      - it decides ("terminated? disposed?") and registers the observer (observers.append) in ONE critical section of self.lock, and reads no
        state of the subject outside the lock (a decision taken outside may be stale when the registration happens: the subscriber would be
        appended to a subject that has just completed and never hear of it);
      - what a NEW subscriber is handed from the live subject (the current value of a BehaviorSubject, the retained values of a ReplaySubject)
        is handed over inside that same critical section (handed over after releasing it, a concurrent on_next can overtake it)."""
    import ast as _ast
    try:
        node = loader.find(c.file, c.cls + "._subscribe_core")
    except Exception:  # noqa: BLE001
        return []
    uid = f"{c.uid}._subscribe_core/lock-discipline"
    parents = {}
    for n in _ast.walk(node):
        for ch in _ast.iter_child_nodes(n):
            parents[ch] = n

    def locked_block(n):
        p = parents.get(n)
        while p is not None:
            if isinstance(p, _ast.With) and any(isinstance(i.context_expr, _ast.Attribute) and i.context_expr.attr == "lock" and isinstance(i.context_expr.value, _ast.Name)
                                                and i.context_expr.value.id == "self" for i in p.items):
                return p
            p = parents.get(p)
        return None
    out = []

    def res(leaf, ok, detail):
        out.append({"id": f"{uid}/{leaf}", "verdict": "proved" if ok else "refuted", "backend": "lock-discipline (AST)", "model": {}, "path": [], "detail": detail,
                    "seconds": 0.0, "kind": "lock"})
    unlocked = []
    appends, decisions, handovers = [], [], []
    for n in _ast.walk(node):
        if isinstance(n, _ast.Attribute) and isinstance(n.value, _ast.Name) and n.value.id == "self" and n.attr in SUBJECT_STATE and locked_block(n) is None:
            unlocked.append(f"self.{n.attr} (line {n.lineno})")
        if isinstance(n, _ast.Call) and isinstance(n.func, _ast.Attribute) and isinstance(n.func.value, _ast.Name) and n.func.value.id == "self" \
                and n.func.attr == "check_disposed" and locked_block(n) is None:
            unlocked.append(f"self.check_disposed() (line {n.lineno})")
        if isinstance(n, _ast.Call) and isinstance(n.func, _ast.Attribute) and n.func.attr == "append" and isinstance(n.func.value, _ast.Attribute) and n.func.value.attr == "observers":
            appends.append(n)
        if isinstance(n, (_ast.If, _ast.IfExp, _ast.Assign)) and any(isinstance(x, _ast.Attribute) and x.attr == "is_stopped" for x in _ast.walk(n.test if not isinstance(n, _ast.Assign) else n.value)):
            decisions.append(n)
    res("reads-the-subject's-state-only-under-its-lock", not unlocked, f"outside `with self.lock`: {unlocked}")
    if appends:
        blk = locked_block(appends[0])
        same = blk is not None and all(locked_block(d) is blk for d in decisions) and bool(decisions or c.cls == "ReplaySubject")
        res("decides-and-registers-in-one-critical-section", same, f"registration at line {appends[0].lineno}; the is_stopped decision at "
            f"{[d.lineno for d in decisions]} must sit in the same `with self.lock` block")
        # what the new subscriber gets from the live subject: on_next calls on the observer that follow the registration on its path
        for n in _ast.walk(node):
            if isinstance(n, _ast.Call) and isinstance(n.func, _ast.Attribute) and n.func.attr == "on_next" and n.lineno > appends[0].lineno:
                anc, p = [], parents.get(n)
                while p is not None:
                    anc.append(p)
                    p = parents.get(p)
                # in the branch that registered (shares the If / With ancestors of the append up to the function)?
                a_anc, p = [], parents.get(appends[0])
                while p is not None:
                    a_anc.append(p)
                    p = parents.get(p)
                branch = [x for x in a_anc if isinstance(x, _ast.If)]
                if all(x in anc for x in branch) or not branch:
                    handovers.append(n)
        live = [n for n in handovers if not any(isinstance(x, _ast.If) and any(isinstance(y, _ast.Attribute) and y.attr in ("exception", "has_value") for y in _ast.walk(x.test))
                                                for x in [parents.get(n)] if x is not None)]
        if c.cls in ("BehaviorSubject", "ReplaySubject") or live:
            bad = [n.lineno for n in live if locked_block(n) is not blk]
            res("hands-the-new-subscriber-its-values-inside-the-critical-section-that-registered-it", bool(live) and not bad if c.cls in ("BehaviorSubject", "ReplaySubject") else not bad,
                f"on_next to the new subscriber at lines {[n.lineno for n in live]}; outside the registering critical section: {bad}")
    return out


HANDED_STATE = {"observers", "exception", "value", "has_value", "queue"}


def state_lock_discipline(c, loader):
    """... and the other half of that discipline: the state `_subscribe_core` reads under the lock (the observer list, the recorded error, the
    current / last value, the retained values) is read and WRITTEN only under that lock by every other method of the class - a store made
    before taking the lock (`self.value = v; with self.lock: snapshot`) can be seen by a subscriber that registers in between, which then
    gets v twice.  A helper that touches the state without locking is fine when every call of it sits inside a locked block (ReplaySubject._trim)."""
    import ast as _ast
    try:
        cnode = loader.find(c.file, c.cls)
    except Exception:  # noqa: BLE001
        return []
    uid = f"{c.uid}/lock-discipline"
    methods = [n for n in cnode.body if isinstance(n, (_ast.FunctionDef, _ast.AsyncFunctionDef))]

    def parents_of(node):
        par = {}
        for n in _ast.walk(node):
            for ch in _ast.iter_child_nodes(n):
                par[ch] = n
        return par

    def locked(n, par):
        p = par.get(n)
        while p is not None:
            if isinstance(p, _ast.With) and any(isinstance(i.context_expr, _ast.Attribute) and i.context_expr.attr == "lock" for i in p.items):
                return True
            p = par.get(p)
        return False
    unlocked = {}
    for m in methods:
        if m.name in ("__init__", "_subscribe_core"):
            continue  # (construction happens before the object is shared; _subscribe_core has obligations of its own)
        par = parents_of(m)
        for n in _ast.walk(m):
            if isinstance(n, _ast.Attribute) and isinstance(n.value, _ast.Name) and n.value.id == "self" and n.attr in HANDED_STATE and not locked(n, par):
                unlocked.setdefault(m.name, []).append(f"self.{n.attr} (line {n.lineno})")
    # helpers whose every call site is inside a locked block
    for name in list(unlocked):
        calls, ok = 0, True
        for m in methods:
            par = parents_of(m)
            for n in _ast.walk(m):
                if isinstance(n, _ast.Call) and isinstance(n.func, _ast.Attribute) and n.func.attr == name and isinstance(n.func.value, _ast.Name) and n.func.value.id == "self":
                    calls += 1
                    ok = ok and locked(n, par)
        if calls and ok:
            del unlocked[name]
    return [{"id": f"{uid}/touches-the-state-handed-to-new-subscribers-only-under-the-lock", "verdict": "proved" if not unlocked else "refuted",
             "backend": "lock-discipline (AST)", "model": {}, "path": [], "seconds": 0.0, "kind": "lock",
             "detail": f"outside `with self.lock` (and not in a helper called only under it): {unlocked}"}]


def run_unit(desc):
    import importlib

    mod = importlib.import_module(desc["module"])
    c = next(x for x in mod.CLASSES if x.name == desc["name"])
    h = ClassHarness(c).run()
    rep = {
        "unit": c.uid,
        "kind": "K2 class refinement with call-out discipline",
        "functions": h.functions,
        "results": [r.as_dict() for r in h.results],
        "unsupported": h.unsupported,
        "spec_validation": [],
        "bounded": [],
    }
    rep["results"] += subscribe_lock_discipline(c, h.loader)
    if any(x.get("id", "").endswith("/lock-discipline/reads-the-subject's-state-only-under-its-lock") for x in rep["results"]):
        rep["results"] += state_lock_discipline(c, h.loader)
    if c.witness:
        import json
        import os

        from . import report
        from .loader import VERIF

        runner = getattr(c, "runner", None) or "histrun.py"
        rep["replayable"] = {"runner": runner, "module": desc["module"], "name": c.name}
        tier = desc.get("tier", "quick")
        if h.unsupported or tier == "thorough":
            # bounded stand-in (drift) / thorough cross-check of the encoding against CPython
            res, err = report.native([os.path.join(VERIF, "rxvc", runner), "replay", desc["module"], c.name,
                                      json.dumps({"max_len": 4, "prop": desc["prop"], "oid": c.uid + "/bounded-standin",
                                                  "replay_path": os.path.join(report.REPLAY_DIR, f"{desc['prop']}-standin-{c.name}.py")})],
                                     timeout=900)
            st = res if res is not None else {"found": [], "error": err, "cases": 0}
            rep["standin"] = st
            rep["bounded"].append({"function": c.uid, "bound": "all call histories of length<=4 x 5 re-entrant observer behaviours",
                                   "cases": st.get("cases", 0), "mismatches": len(st.get("found", [])),
                                   "role": "stand-in (out of subset)" if h.unsupported else "cross-check of the encoding against CPython"})
            if not h.unsupported and st.get("found") and all(r.verdict == "proved" for r in h.results):
                rep["crash"] = f"encoding cross-check failed: verifier proved {c.uid} but the native run disagrees: {st['found'][0]}"
    return rep
