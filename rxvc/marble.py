"""C38: loop contracts for the marble parser and the marble sources, discharged on the real code.

`parse` tokenises with a regular expression and then walks the tokens.  The tokeniser is used through its CONTRACT
(assumed of Python's `re` for the pattern in the module, cross-checked natively on every string of the documented alphabet
up to a bound): on a string over the documented syntax (spaces removed, groups balanced and not nested) findall yields, in
order, 4-tuples with exactly one non-empty component - a group "(...)" up to the first ")", a run of "-", a stray ",", or
an element ("#", "|", or a maximal run of ordinary characters) - whose texts tile the string.  Hence
      frame index of a token = total length of the tokens before it.
What is proved, for ONE ARBITRARY round of the token loop from an arbitrary state (iframe, is_stopped), strings being
opaque values with a symbolic length and symbolic answers to `== "|"`, `== "#"`, `== ""`, int(), float():
  time      every message produced in the round carries  iframe * timespan + time_shift  (the time of the character that
            starts the token, the group's opening parenthesis for grouped values);
  advance   iframe grows by exactly the length of the token's text (group: with its parentheses; ticks; element: all its
            characters) - so the invariant "iframe = index of the next character" is kept;
  values    "|" -> OnCompleted, "#" -> OnError(the given error, else Exception("error")), anything else -> OnNext(v) with v the
            element read as int if it parses as one, else as float if it parses as one, else the text itself, then replaced by
            lookup[v] iff v is a key of the lookup - whatever the looked-up value is (None, 0, "" included);
  groups    one message per non-empty element of the group, in order (structural: a list comprehension over the split text),
            each stamped with the group's opening position; a stray comma raises ValueError;
  stopped   with raise_stopped a marble (also inside a group) after a terminal one raises ValueError before anything is
            emitted for it; a terminal marble latches `is_stopped`; without raise_stopped nothing is rejected.
from_marbles.subscribe: one schedule_relative(time, action) per parsed message, kept in the returned composite; the action
delivers exactly that notification to the subscriber.  hot(): one schedule_relative(time, action) per message at creation
(times shifted by the due time through parse's time_shift); the action delivers the notification to every observer
subscribed at that moment, under the lock, and a terminal one latches is_stopped, after which subscribers are not added."""
from __future__ import annotations

import ast
import time

import z3

from . import smt
from .interp import NOTSET, Interp, World, explore, _Break, _Continue
from .loader import Loader
from .refine import Result
from .values import SV, BoolSV, BoundMethod, Closure, IntSV, ListObj, Native, Obj, Opaque, PathEnd, PyExc, SliceVal, Unsupported

MFILE = "reactivex/observable/marbles.py"
STR_KINDS = ["|", "#", "", "other"]


def same(a, b):
    if isinstance(a, SV) and isinstance(b, SV):
        return a.t == b.t
    return a is b or (not isinstance(a, (SV, Obj, Opaque)) and type(a) is type(b) and a == b)


class MWorld(World):
    def __init__(self, h):
        super().__init__()
        self.h = h
        self.log = []
        self.n = 0

    def new_str(self, it, tag, kind=None, nonempty=False):
        ctx = it.ctx
        self.n += 1
        if kind is None:
            kinds = [k for k in STR_KINDS if not (nonempty and k == "")]
            kind = kinds[ctx.choose(len(kinds), f"{tag} is one of {kinds}")]
        ln = ctx.fresh(f"len_{tag}", "int")
        if kind in ("|", "#"):
            ctx.assume(ln.t == 1)
        elif kind == "":
            ctx.assume(ln.t == 0)
        else:
            ctx.assume(ln.t >= 1)
        return Opaque("str", f"{tag}#{self.n}", skind=kind, length=ln, term=ctx.fresh(f"text_{tag}", "val").t)

    def truthy(self, it, o):
        if o.kind == "str":
            return o.attrs["skind"] != ""
        if o.kind == "mapping":
            return True
        return True

    def eq(self, it, a, b):
        """Opaque str against a constant string"""
        s, c = (a, b) if isinstance(a, Opaque) else (b, a)
        if isinstance(s, Opaque) and s.kind == "str" and isinstance(c, str):
            if c in ("|", "#", ""):
                return s.attrs["skind"] == c
            return False if s.attrs["skind"] in ("|", "#", "") else NotImplemented
        return NotImplemented

    def isinstance(self, it, o, cls):
        n = getattr(cls, "name", "") or ""
        if o.kind == "exc":
            return n in ("Exception", "BaseException")
        if o.kind == "observer":
            return n == "ObserverBase"
        if o.kind == "abs_time":
            return n.split(".")[-1] == "datetime"
        if o.kind in ("rel_time", "rel_part"):
            return n.split(".")[-1] == "timedelta" and o.kind == "rel_time"
        return super().isinstance(it, o, cls)

    def binop(self, it, op, a, b):
        import ast as _ast
        if isinstance(op, _ast.Sub) and isinstance(a, Opaque) and a.kind == "abs_time" and isinstance(b, Opaque) and b.kind == "abs_time":
            # datetime - datetime: THE timedelta between them (an opaque value: identified by its two operands)
            return Opaque("rel_time", f"({a.name} - {b.name})", minuend=a, subtrahend=b)
        raise Unsupported(f"binary operation on {getattr(a, 'kind', a)} / {getattr(b, 'kind', b)}")

    def getattr(self, it, o, name):
        if o.kind == "scheduler" and name == "now":
            self.n += 1
            t = Opaque("abs_time", f"scheduler.now#{self.n}")
            self.log.append(("now", t))
            return t
        if o.kind == "rel_time" and name in ("seconds", "days", "microseconds"):
            # a component of the timedelta (.seconds, .days, .microseconds) or something computed from it is NOT the timedelta
            return Opaque("rel_part", f"{o.name}.{name}", of=o)
        return super().getattr(it, o, name)

    def length(self, it, o):
        if o.kind == "str":
            return o.attrs["length"]
        raise Unsupported(f"len({o.kind})")

    def getitem(self, it, o, idx):
        if o.kind == "str" and isinstance(idx, SliceVal) and idx.lo == 1 and idx.hi == -1 and o.attrs.get("is_group"):
            inner = Opaque("str", o.name + "[1:-1]", skind="other", length=IntSV(it.to_int(o.attrs["length"]) - 2), term=it.ctx.fresh("inner", "val").t, is_inner=True)
            return inner
        raise Unsupported(f"subscript {idx!r} of {o.kind}")

    def iterate(self, it, v):
        if isinstance(v, Opaque) and v.kind == "strlist":
            # an ARBITRARY element of the split text stands for each of them (the loop body / the comprehension treats them alike)
            e = self.new_str(it, "elm")
            self.log.append(("iterate", v, e))
            return [e]
        raise Unsupported(f"iteration over {getattr(v, 'kind', v)}")

    def call(self, it, o, method, args, kwargs):
        ctx = it.ctx
        if o.kind == "str" and method == "__getitem__":
            return self.getitem(it, o, args[0])
        if o.kind == "str":
            if method == "replace" and args == [" ", ""]:
                return o
            if method == "split" and args == [","] and o.attrs.get("is_inner"):
                return Opaque("strlist", "elements")
        if o.kind == "rel_time" and method == "total_seconds" and "total" in o.attrs:
            return o.attrs["total"]
        if o.kind == "regex" and method == "findall":
            return Opaque("tokenlist", "tokens")
        if o.kind == "mapping" and method == "get":
            k = args[0]
            kt = it.to_val(k)
            has = z3.Function("lookup_has", smt.Val, z3.BoolSort())(kt)
            val = z3.Function("lookup_val", smt.Val, smt.Val)(kt)
            self.log.append(("lookup.get", k, len(args)))
            if len(args) > 1:
                return SV(z3.If(has, val, it.to_val(args[1])), "val")
            return SV(z3.If(has, val, smt.NONE), "val")
        if o.kind == "scheduler":
            self.n += 1
            d = Opaque("disposable", f"scheduled#{self.n}")
            self.log.append(("schedule", method, list(args), dict(kwargs), d))
            return d
        if o.kind == "observer":
            self.log.append(("down", o, method, list(args)))
            return None
        if o.kind == "disposable":
            self.log.append(("dispose", o))
            return None
        if o.kind in ("lock", "logger"):
            return None
        return super().call(it, o, method, args, kwargs)

    def enter(self, it, o):
        if o.kind == "lock":
            self.log.append(("acquire",))
            return o
        return super().enter(it, o)

    def exit(self, it, o):
        if o.kind == "lock":
            self.log.append(("release",))
            return
        return super().exit(it, o)


class MarbleHarness:
    def __init__(self, loader=None):
        self.loader = loader or Loader()
        self.results = []
        self.unsupported = None
        self.functions = {}

    def rec(self, ctx, oid, goal, detail=""):
        t0 = time.time()
        if isinstance(goal, bool):
            goal = z3.BoolVal(goal)
        v, m, b = smt.prove(ctx.pc, goal)
        ctx.results.append(Result(oid, v, b, smt.model_to_dict(m), list(ctx.branch_log), detail, time.time() - t0, "post"))

    def setup(self, ctx):
        w = self.w = MWorld(self)
        it = self.it = Interp(self.loader, ctx, w)
        it.externals["re.compile"] = Native("re.compile", lambda it_, a, k: Opaque("regex", "tokens"))
        base_int = it.externals.get("builtins.int")
        base_len = it.externals.get("builtins.len")

        def my_int(it_, a, k):
            if a and isinstance(a[0], Opaque) and a[0].kind == "str":
                s = a[0]
                if s.attrs["skind"] != "other" or ctx.choose(2, f"{s.name} parses as int") == 1:
                    raise PyExc(it.make_exc("ValueError", "invalid literal for int()"))
                s.attrs["parsed"] = "int"
                return SV(z3.Function("int_of_text", smt.Val, z3.IntSort())(s.attrs["term"]), "int")
            return base_int.fn(it_, a, k)

        def my_float(it_, a, k):
            if a and isinstance(a[0], Opaque) and a[0].kind == "str":
                s = a[0]
                if s.attrs["skind"] != "other" or ctx.choose(2, f"{s.name} parses as float") == 1:
                    raise PyExc(it.make_exc("ValueError", "could not convert string to float"))
                s.attrs["parsed"] = "float"
                return SV(z3.Function("float_of_text", smt.Val, smt.Val)(s.attrs["term"]), "val")
            raise Unsupported("float()")

        def my_len(it_, a, k):
            if a and isinstance(a[0], Opaque):
                return w.length(it, a[0])
            return base_len.fn(it_, a, k)
        it.externals["builtins.int"] = Native("int", my_int)
        it.externals["builtins.float"] = Native("float", my_float)
        it.externals["builtins.len"] = Native("len", my_len)
        base_isinstance = it.externals["builtins.isinstance"]

        def my_isinstance(it_, a, k):
            n = getattr(a[1], "name", "") or ""
            if isinstance(a[0], Opaque) and a[0].kind in ("abs_time", "rel_time", "rel_part"):
                return w.isinstance(it_, a[0], a[1])
            if n.endswith("timedelta") or n.endswith("datetime"):
                return False
            return base_isinstance.fn(it_, a, k)
        it.externals["builtins.isinstance"] = Native("isinstance", my_isinstance)

        def my_timedelta(it_, a, k):
            # marble times are floats of any size (timespan 1/3, 2.5e-7, ...): a timedelta BUILT from such a number holds it only to the microsecond.
            # What comes back from total_seconds() is therefore some other number (an uninterpreted function of it) - a marble time computed
            # through such a round trip is not provably index * timespan + shift.  (A timedelta the CALLER handed in is exact: it is its own length.)
            if not a and set(k) == {"seconds"} and not isinstance(k["seconds"], (int, float)):
                q = z3.Function("held_to_the_microsecond", z3.IntSort(), z3.IntSort())
                from .values import IntSV as _IntSV
                return Opaque("rel_time", "timedelta-built-from-a-number", total=_IntSV(q(it_.to_int(k["seconds"]))))
            if not a and set(k) == {"seconds"}:
                return k["seconds"]
            if not k and (not a or (len(a) == 1 and a[0] == 0)):
                return 0
            raise Unsupported("timedelta(...) other than timedelta(seconds=x)")
        it.externals["datetime.timedelta"] = Native("timedelta", my_timedelta)
        return it, w

    # -- parse: one arbitrary round of the token loop -----------------------------------------------------------------
    def run_parse(self, ctx):
        it, w = self.setup(ctx)
        uid = f"{MFILE}::parse"
        timespan, shift = ctx.fresh("timespan", "int"), ctx.fresh("time_shift", "int")
        lookup = Opaque("mapping", "lookup") if ctx.choose(2, "lookup given") == 0 else None
        error = Opaque("exc", "the-given-error") if ctx.choose(2, "error given") == 0 else None
        raise_stopped = ctx.choose(2, "raise_stopped") == 0
        string = Opaque("str", "string", skind="other", length=ctx.fresh("len_string", "int"), term=ctx.fresh("string", "val").t)
        info = {}

        def on_loop(it_, st, env, key, lc, iterable=None):
            if key[1] == 1:
                return self.elements_loop(it_, ctx, uid, st, env, iterable, info)
            # the token loop: arbitrary state, one arbitrary token
            e_if, e_ms, e_st = env.lookup_env("iframe"), env.lookup_env("messages"), env.lookup_env("is_stopped")
            ok = e_if is not None and e_ms is not None and e_st is not None
            self.rec(ctx, uid + "/state/iframe-messages-is_stopped", ok)
            if not ok:
                raise PathEnd()
            iframe0 = ctx.fresh("iframe", "int")
            ctx.assume(iframe0.t >= 0)
            st0 = ctx.fresh("is_stopped", "bool")
            e_if.vars["iframe"] = iframe0
            e_st.vars["is_stopped"] = st0
            msgs = ListObj([])
            e_ms.vars["messages"] = msgs
            kind = ("group", "ticks", "comma", "element")[ctx.choose(4, "token kind")]
            tok = {"group": "", "ticks": "", "comma": "", "element": ""}
            if kind == "group":
                tok["group"] = w.new_str(it, "group", kind="other")
                tok["group"].attrs["is_group"] = True
                ctx.assume(it.to_int(tok["group"].attrs["length"]) >= 2)
            elif kind == "ticks":
                tok["ticks"] = w.new_str(it, "ticks", kind="other")
            elif kind == "comma":
                tok["comma"] = ","
            else:
                tok["element"] = w.new_str(it, "element", nonempty=True)
            info.update(kind=kind, tok=tok, iframe0=iframe0, st0=st0, msgs=msgs, timespan=timespan, shift=shift, lookup=lookup, error=error,
                        raise_stopped=raise_stopped, e_if=e_if, e_st=e_st)
            it.assign(st.target, (tok["group"], tok["ticks"], tok["comma"], tok["element"]), env)
            raised = None
            try:
                it.exec_block(st.body, env)
            except PyExc as e:
                raised = e.value
            except (_Break, _Continue):
                pass
            self.after_round(it, ctx, uid, info, raised)
            raise PathEnd()
        it.loop_contracts = {("parse", 0): {}, ("parse", 1): {}}
        it.on_loop = on_loop
        f = it.module_get("reactivex.observable.marbles", "parse")
        a_ts, a_sh = timespan, shift
        if ctx.choose(2, "timespan and time_shift are given as timedeltas") == 1:
            # a timedelta counts with its WHOLE length in seconds (total_seconds(): days and fractions included) - the integer the clauses
            # below speak about; a component (.seconds, .days) is another value
            a_ts = Opaque("rel_time", "timespan-as-timedelta", total=timespan)
            a_sh = Opaque("rel_time", "time_shift-as-timedelta", total=shift)
        it.call(f, [string], {"timespan": a_ts, "time_shift": a_sh, "lookup": lookup, "error": error, "raise_stopped": raise_stopped})

    def elements_loop(self, it, ctx, uid, st, env, iterable, info):
        """`for elm in elements: check_stopped(elm)` - one arbitrary element from an arbitrary latch state, or no more elements"""
        w = self.w
        if not (isinstance(iterable, Opaque) and iterable.kind == "strlist"):
            raise Unsupported("the inner loop does not run over the split group text")
        if ctx.choose(2, "elements loop: one more element / done") == 1:
            info["elements_loop"] = "done"
            return
        st1 = ctx.fresh("is_stopped_in_group", "bool")
        info["e_st"].vars["is_stopped"] = st1
        elm = w.new_str(it, "elm")
        it.assign(st.target, elm, env)
        raised = None
        try:
            it.exec_block(st.body, env)
        except PyExc as e:
            raised = e.value
        self.stopped_obligations(it, ctx, uid + "/group-element", info, elm, st1, raised)
        raise PathEnd()

    def stopped_obligations(self, it, ctx, uid, info, elm, before, raised):
        rs = info["raise_stopped"]
        after = info["e_st"].vars["is_stopped"]
        at = it.truth_term(after)
        at = z3.BoolVal(at) if isinstance(at, bool) else at
        terminal = elm.attrs["skind"] in ("|", "#")
        if raised is not None:
            okv = isinstance(raised, Obj) and raised.cls.name == "ValueError"
            self.rec(ctx, uid + "/raises-ValueError-only-for-a-marble-after-a-terminal-one-when-asked", z3.And(z3.BoolVal(okv and rs), before.t))
            return False
        if rs:
            self.rec(ctx, uid + "/a-marble-after-a-terminal-one-is-rejected", z3.Not(before.t))
            self.rec(ctx, uid + "/a-terminal-marble-latches-is_stopped", at == z3.Or(before.t, z3.BoolVal(terminal)))
        else:
            self.rec(ctx, uid + "/without-raise_stopped-nothing-is-latched", at == before.t)
        return True

    def expected_value(self, it, ctx, elm, info):
        """the value the property wants for an ordinary element"""
        p = elm.attrs.get("parsed")
        if p == "int":
            v = SV(z3.Function("int_of_text", smt.Val, z3.IntSort())(elm.attrs["term"]), "int")
        elif p == "float":
            v = SV(z3.Function("float_of_text", smt.Val, smt.Val)(elm.attrs["term"]), "val")
        else:
            v = elm
        vt = it.to_val(v)
        if info["lookup"] is None:
            return v, vt
        has = z3.Function("lookup_has", smt.Val, z3.BoolSort())(vt)
        val = z3.Function("lookup_val", smt.Val, smt.Val)(vt)
        return None, z3.If(has, val, vt)

    def check_message(self, it, ctx, uid, info, msg, elm):
        ts = info["iframe0"].t * info["timespan"].t + info["shift"].t
        ok = isinstance(msg, tuple) and len(msg) == 2 and isinstance(msg[1], Obj)
        self.rec(ctx, uid + "/message-is-(time, notification)", ok)
        if not ok:
            return
        self.rec(ctx, uid + "/time-of-the-character-that-starts-the-token", it.to_int(msg[0]) == ts, detail=f"stamped {msg[0]!r}")
        n = msg[1]
        k = elm.attrs["skind"]
        if k == "|":
            self.rec(ctx, uid + "/bar-is-OnCompleted", n.cls.name == "OnCompleted")
        elif k == "#":
            okc = n.cls.name == "OnError"
            self.rec(ctx, uid + "/hash-is-OnError", okc)
            if okc:
                ex = n.fields.get("exception")
                if info["error"] is not None:
                    self.rec(ctx, uid + "/with-the-given-error", ex is info["error"])
                else:
                    self.rec(ctx, uid + "/with-Exception('error')", isinstance(ex, Obj) and ex.cls.name == "Exception")
        else:
            okc = n.cls.name == "OnNext"
            self.rec(ctx, uid + "/ordinary-text-is-OnNext", okc)
            if okc:
                v, want = self.expected_value(it, ctx, elm, info)
                got = n.fields.get("value")
                if v is not None and not isinstance(got, SV):
                    self.rec(ctx, uid + "/value-is-int-else-float-else-the-text", got is v)
                else:
                    self.rec(ctx, uid + "/value-is-int-else-float-else-the-text-then-looked-up-iff-it-is-a-key", it.to_val(got) == want,
                             detail="the looked-up value replaces the element exactly when the element is a key - whatever that value is")

    def after_round(self, it, ctx, uid, info, raised):
        w = self.w
        kind, tok, msgs = info["kind"], info["tok"], info["msgs"]
        iframe1 = info["e_if"].vars["iframe"]
        uidk = uid + f"/token[{kind}]"
        if kind == "comma":
            self.rec(ctx, uidk + "/a-comma-outside-a-group-raises-ValueError", isinstance(raised, Obj) and raised.cls.name == "ValueError")
            self.rec(ctx, uidk + "/nothing-emitted", not msgs.items)
            return
        if kind == "ticks":
            self.rec(ctx, uidk + "/no-exception", raised is None)
            self.rec(ctx, uidk + "/emits-nothing", not msgs.items)
            self.rec(ctx, uidk + "/advances-by-the-number-of-dashes", it.to_int(iframe1) == info["iframe0"].t + it.to_int(tok["ticks"].attrs["length"]))
            self.rec(ctx, uidk + "/latch-unchanged", same(info["e_st"].vars["is_stopped"], info["st0"]))
            return
        if kind == "element":
            elm = tok["element"]
            if not self.stopped_obligations(it, ctx, uidk, info, elm, info["st0"], raised):
                self.rec(ctx, uidk + "/rejected-before-anything-is-emitted", not msgs.items)
                return
            ok = len(msgs.items) == 1
            self.rec(ctx, uidk + "/exactly-one-message", ok)
            if ok:
                self.check_message(it, ctx, uidk, info, msgs.items[0], elm)
            self.rec(ctx, uidk + "/advances-by-the-length-of-the-text", it.to_int(iframe1) == info["iframe0"].t + it.to_int(elm.attrs["length"]))
            return
        # group: the elements loop ended (path "done"); the comprehension saw ONE arbitrary element
        if raised is not None:
            self.rec(ctx, uidk + "/no-exception-after-the-elements-were-accepted", False, detail=f"{raised!r}")
            return
        its = [e for e in w.log if e[0] == "iterate"]
        self.rec(ctx, uidk + "/elements-come-from-splitting-the-text-between-the-parentheses", len(its) >= 1)
        if its:
            elm = its[-1][2]
            if elm.attrs["skind"] == "":
                self.rec(ctx, uidk + "/an-empty-element-gives-no-message", not msgs.items)
            else:
                ok = len(msgs.items) == 1
                self.rec(ctx, uidk + "/one-message-per-non-empty-element", ok)
                if ok:
                    self.check_message(it, ctx, uidk, info, msgs.items[0], elm)
        self.rec(ctx, uidk + "/advances-by-the-length-of-the-group-with-its-parentheses", it.to_int(iframe1) == info["iframe0"].t + it.to_int(tok["group"].attrs["length"]))

    def structural(self, ctx):
        """the group's messages are built by ONE list comprehension of map_element(timestamp, elm) over the split elements,
        filtered only by `elm != ""`, and appended with extend: one message per non-empty element, in order"""
        fn = self.loader.find(MFILE, "parse")
        ok = False
        for n in ast.walk(fn):
            if isinstance(n, ast.ListComp) and isinstance(n.elt, ast.Call) and getattr(n.elt.func, "id", "") == "map_element" and len(n.generators) == 1:
                g = n.generators[0]
                conds = [ast.unparse(c) for c in g.ifs]
                if ast.unparse(g.iter) == "elements" and conds in (["elm != ''"], ['elm != ""']) and [ast.unparse(a) for a in n.elt.args] == ["timestamp", "elm"]:
                    ok = True
        self.rec(ctx, f"{MFILE}::parse/token[group]/structural/one-message-per-non-empty-element-in-order", ok)
        ext = any(isinstance(n, ast.Call) and isinstance(n.func, ast.Attribute) and n.func.attr == "extend" and ast.unparse(n.func.value) == "messages" for n in ast.walk(fn))
        self.rec(ctx, f"{MFILE}::parse/token[group]/structural/appended-in-that-order", ext)

    # -- from_marbles / hot -------------------------------------------------------------------------------------------
    def run_sources(self, ctx):
        it, w = self.setup(ctx)
        which = ("from_marbles", "hot")[ctx.choose(2, "source")]
        uid = f"{MFILE}::{which}"
        t1, t2 = ctx.fresh("t1", "int"), ctx.fresh("t2", "int")
        onext = it.module_get("reactivex.notification", "OnNext")
        ocomp = it.module_get("reactivex.notification", "OnCompleted")
        n1 = it.call(onext, [ctx.fresh("v", "val")], {})
        n2 = it.call(ocomp, [], {})
        parsed = []

        def hook(it_, f, args, kwargs):
            fn = f.func if isinstance(f, BoundMethod) else f
            q = getattr(fn, "qualname", None) if isinstance(fn, Closure) else None
            if q == "parse":
                parsed.append((list(args), dict(kwargs)))
                return ListObj([(t1, n1), (t2, n2)])
            return NOTSET
        it.call_hook = hook
        sched = Opaque("scheduler", "scheduler")
        string = Opaque("str", "string", skind="other", length=ctx.fresh("len", "int"), term=ctx.fresh("string", "val").t)
        ts, due = ctx.fresh("timespan", "int"), ctx.fresh("duetime", "int")
        f = it.module_get("reactivex.observable.marbles", which + ("" if which == "hot" else ""))
        it.externals["threading.RLock"] = Native("RLock", lambda it_, a, k: Opaque("lock", "lock"))
        if which == "from_marbles":
            obs = it.call(f, [string], {"timespan": ts, "scheduler": sched})
            ok = len(parsed) == 1 and parsed[0][1].get("timespan") is ts and parsed[0][1].get("raise_stopped") is True
            self.rec(ctx, uid + "/parses-the-string-once-with-the-timespan-rejecting-marbles-after-the-end", ok)
            self.rec(ctx, uid + "/schedules-nothing-before-subscription", not [e for e in w.log if e[0] == "schedule"])
            observer = Opaque("observer", "observer")
            res = it.call(obs.fields["_subscribe"], [observer, None], {})
            sc = [e for e in w.log if e[0] == "schedule"]
            ok = len(sc) == 2 and all(e[1] == "schedule_relative" for e in sc)
            self.rec(ctx, uid + "/subscribe/one-schedule_relative-per-message", ok)
            if not ok:
                return
            self.rec(ctx, uid + "/subscribe/at-the-parsed-times", z3.And(it.to_int(sc[0][2][0]) == t1.t, it.to_int(sc[1][2][0]) == t2.t))
            for i, (e, n) in enumerate(zip(sc, (n1, n2))):
                n0 = len(w.log)
                it.call(e[2][1], [sched, None], {})
                ds = [x for x in w.log[n0:] if x[0] == "down"]
                want = ("on_next", [n1.fields["value"]]) if i == 0 else ("on_completed", [])
                self.rec(ctx, uid + f"/action#{i}/delivers-exactly-its-notification-to-the-subscriber",
                         len(ds) == 1 and ds[0][1] is observer and ds[0][2] == want[0] and all(same(a, b) for a, b in zip(ds[0][3], want[1])))
            # disposal cancels what is still scheduled
            n0 = len(w.log)
            if isinstance(res, Obj):
                it.call(it.get_attr(res, "dispose"), [], {})
            self.rec(ctx, uid + "/dispose/cancels-every-scheduled-message", {e[1] for e in w.log[n0:] if e[0] == "dispose"} >= {sc[0][4], sc[1][4]})
            return
        absolute = ctx.choose(2, "the due time is absolute (a datetime)") == 1
        if absolute:
            due = Opaque("abs_time", "duetime")
        obs = it.call(f, [string], {"timespan": ts, "duetime": due, "scheduler": sched})
        if absolute:
            shift = parsed[0][1].get("time_shift") if len(parsed) == 1 else None
            nows = [e[1] for e in w.log if e[0] == "now"]
            ok = (isinstance(shift, Opaque) and shift.kind == "rel_time" and shift.attrs["minuend"] is due and len(nows) == 1
                  and shift.attrs["subtrahend"] is nows[0] and parsed[0][1].get("timespan") is ts and parsed[0][1].get("raise_stopped") is True)
            self.rec(ctx, uid + "/an-absolute-due-time-shifts-by-its-whole-distance-from-the-scheduler's-clock", ok,
                     detail=f"time_shift handed to parse: {shift!r} (must be the timedelta duetime - scheduler.now itself, read once; parse converts it with "
                            f"total_seconds - a component such as .seconds drops days and fractions)")
        else:
            ok = len(parsed) == 1 and parsed[0][1].get("timespan") is ts and parsed[0][1].get("time_shift") is due and parsed[0][1].get("raise_stopped") is True
            self.rec(ctx, uid + "/parses-once-with-the-timespan-shifted-by-the-due-time", ok)
        sc = [e for e in w.log if e[0] == "schedule"]
        ok = len(sc) == 2 and all(e[1] == "schedule_relative" for e in sc)
        self.rec(ctx, uid + "/one-schedule_relative-per-message-at-creation", ok)
        if not ok:
            return
        self.rec(ctx, uid + "/at-the-parsed-times", z3.And(it.to_int(sc[0][2][0]) == t1.t, it.to_int(sc[1][2][0]) == t2.t))
        o1, o2 = Opaque("observer", "observer1"), Opaque("observer", "observer2")
        it.call(obs.fields["_subscribe"], [o1, None], {})
        d2 = it.call(obs.fields["_subscribe"], [o2, None], {})
        n0 = len(w.log)
        it.call(sc[0][2][1], [sched, None], {})
        ds = [x for x in w.log[n0:] if x[0] == "down"]
        self.rec(ctx, uid + "/action/delivers-to-every-current-subscriber-in-order", [(x[1], x[2]) for x in ds] == [(o1, "on_next"), (o2, "on_next")])
        evs = [x[0] for x in w.log[n0:]]
        self.rec(ctx, uid + "/action/under-the-lock", evs and evs[0] == "acquire" and evs[-1] == "release")
        if isinstance(d2, Obj):
            it.call(it.get_attr(d2, "dispose"), [], {})
        n0 = len(w.log)
        it.call(sc[1][2][1], [sched, None], {})
        ds = [x for x in w.log[n0:] if x[0] == "down"]
        self.rec(ctx, uid + "/action/an-unsubscribed-observer-gets-nothing-more", [(x[1], x[2]) for x in ds] == [(o1, "on_completed")])
        o3 = Opaque("observer", "observer3")
        it.call(obs.fields["_subscribe"], [o3, None], {})
        n0 = len(w.log)
        it.call(sc[1][2][1], [sched, None], {})
        ds = [x for x in w.log[n0:] if x[0] == "down"]
        self.rec(ctx, uid + "/after-the-terminal-marble-new-subscribers-are-not-added", o3 not in [x[1] for x in ds])

    def run(self):
        t0 = time.time()
        try:
            for q in ("parse", "from_marbles", "hot"):
                self.functions[f"{MFILE}::{q}"] = self.loader.sha(MFILE, q)
            for p in explore(self.run_parse):
                self.results.extend(p.results)
            for p in explore(self.run_sources):
                self.results.extend(p.results)
            from .interp import Ctx
            ctx = Ctx()
            self.structural(ctx)
            self.results.extend(ctx.results)
        except Unsupported as e:
            self.unsupported = str(e)
        except PyExc as e:
            self.unsupported = f"interpreter-level exception: {e.value!r} {getattr(e.value, 'fields', '')}"
        self.seconds = time.time() - t0
        return self


MUTANTS = [
    (MFILE, "            value = lookup_.get(value, value)", "            value = lookup_.get(value) or value", "a falsy looked-up value is dropped"),
    (MFILE, "            iframe += len(group)", "            iframe += len(elements)", "a group advances by its number of elements"),
    (MFILE, "        timestamp = iframe * timespan + time_shift", "        timestamp = iframe * timespan", "the shift is forgotten"),
    (MFILE, "            if element in (\"#\", \"|\"):\n                is_stopped = True", "            if element in (\"|\",):\n                is_stopped = True", "an error marble does not latch"),
    (MFILE, "            iframe += len(element)", "            iframe += 1", "a multi-character value advances by one"),
    (MFILE, "            disp.add(_scheduler.schedule_relative(duetime, action))", "            _scheduler.schedule_relative(duetime, action)", "scheduled messages are not kept for disposal"),
]


def must_fail():
    res = {"mutants": 0, "killed": 0, "survivors": []}
    base = Loader()
    for rel, old, new, what in MUTANTS:
        src = base.load_file(rel).src
        if old not in src:
            continue
        ld = Loader()
        ld.overrides = {rel: src.replace(old, new, 1)}
        h = MarbleHarness(ld).run()
        res["mutants"] += 1
        if h.unsupported or any(r.verdict != "proved" for r in h.results):
            res["killed"] += 1
        else:
            res["survivors"].append(what)
    return res


def run_unit(desc):
    import json
    import os
    from .report import REPLAY_DIR, VERIF, native
    prop = desc.get("prop", "C38")
    h = MarbleHarness().run()
    rep = {"unit": f"{MFILE}::parse+from_marbles+hot", "kind": "loop contracts (one arbitrary round) against the tokeniser's contract",
           "functions": h.functions, "results": [r.as_dict() for r in h.results], "unsupported": h.unsupported,
           "spec_validation": [], "bounded": [], "seconds": h.seconds, "replayable": {"runner": "marblerun.py", "module": "-", "name": prop}}
    tier = desc.get("tier", "quick")
    if tier == "thorough" and not h.unsupported:
        mf = must_fail()
        rep["must_fail"] = dict(mf, unit=rep["unit"])
        if mf["mutants"] and mf["killed"] < mf["mutants"]:
            rep["crash"] = f"vacuity: mutants not refuted: {mf['survivors']}"
    # the tokeniser's contract is an assumption: it is cross-checked on every run (bounded), deeper in the thorough tier
    res, err = native([os.path.join(VERIF, "rxvc", "marblerun.py"), "replay", "-", prop,
                       json.dumps({"max_len": 4 if tier == "quick" else 5, "replay_path": os.path.join(REPLAY_DIR, f"{prop}-standin-marbles.py"), "prop": prop,
                                   "oid": rep["unit"] + "/bounded-standin"})], timeout=900)
    st = res if res is not None else {"found": [], "error": err, "cases": 0}
    rep["standin"] = st
    rep["bounded"].append({"function": rep["unit"], "bound": f"marblerun.py: every marble string of the documented syntax up to {4 if tier == 'quick' else 5} characters over "
                           "{-, a, b, 1, ., |, #, (, ), ',', space} against a scanner written from the documentation (times, values, groups, rejection), "
                           "and cold / hot / testing marbles delivering the parsed notifications at the parsed times on a TestScheduler",
                           "cases": st.get("cases", 0), "mismatches": len(st.get("found", [])),
                           "role": "stand-in (out of subset)" if h.unsupported else "cross-check of the tokeniser contract and of the loop contracts against CPython"})
    if not h.unsupported and st.get("found") and all(r.verdict == "proved" for r in h.results):
        rep["crash"] = f"cross-check failed: contracts proved but the native run found {json.dumps(st['found'][0], default=repr)[:500]}"
    return rep
