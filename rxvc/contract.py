"""Contract records (no solver imports: also loaded by the native replay runner)."""
from __future__ import annotations


class OpContract:
    """sidecar contract of one operator factory (K1)."""

    def __init__(self, name, props, file, func, call, params, spec, cells=None, inv="True", requires=None,
                 raises=(), loops=None, sources=("source",), notes="", witness=None, spec_args=None,
                 scheduler=None, known=None, elem="val", families=None, exclusive=None, stage_args=None, live=None, timed=False,
                 timers=None, inv_done=None):
        #: K1-T: the operator reads the scheduler clock / sets timers.  Each step happens at one instant `now` (>= the spec's
        #: `clock`, the instant of the previous step); timers: name -> dict(created_in="subscribe" | "<source>.on_next" | ...,
        #: spec=<spec method run when it fires>, inv=<extra invariant over the action's closure scope and `due`>, index=<k-th
        #: timer set in the creating step>)
        self.timed = timed or bool(timers)
        #: the operator creates subjects of its own (windows, groups) and hands their observable faces downstream; calls on
        #: them are events of their own channels, compared with the spec's in order (set per contract)
        self.subjects = False
        #: re-entrancy discipline: the coupling invariant must also hold at every element handed downstream (set per contract)
        self.reentrant = True
        #: the source is only subscribed later (by a timer), not by subscribe itself
        self.late_subscribe = False
        #: invariant of the TERMINATED state: steps taken after the end must keep it and be invisible outside the operator
        self.inv_done = inv_done
        self.timers = timers or {}
        #: multi-source operators: expression over the spec state and the source index `i` saying that source i has not
        #: terminated yet - assumed when a handler of source i runs (a source emits nothing after its terminal)
        self.live = live
        #: overrides of the state kinds of callee stages in THIS composition: {stage index: {field: kind}}
        #: (e.g. the accumulation of a scan stage is known to be an AverageValue record here)
        self.stage_args = stage_args or {}
        #: K7: per-source guard expressions of which at most one can hold (admits downstream calls outside the lock)
        self.exclusive = exclusive
        #: handler families created per element (inner subscriptions of merge/switch/...):
        #: name -> dict(spec=(next, error, completed method names), inv=<extra invariant over the member's
        #: closure locals and the ghost id `k`>, id=<spec expression giving the member's id right after creation>)
        self.families = families or {}
        self.name = name
        self.props = props
        self.file = file
        self.func = func
        self.call = call
        self.params = params
        self.spec = spec
        self.cells = cells or {}
        self.inv = inv
        self.requires = requires
        self.raises = list(raises)
        self.loops = loops or {}
        self.sources = sources
        self.notes = notes
        self.witness = witness
        self.spec_args = spec_args
        self.scheduler = scheduler
        self.known = known
        self.elem = elem

    @property
    def uid(self):
        return f"{self.file}::{self.func}"


class ClassContract:
    """sidecar contract of one class (K2): the real methods refine a spec machine under a coupling
    invariant over the object's fields; call-outs are compared event by event and the invariant must
    already hold at every call-out (re-entrant calls assume it).

    fields:  name -> kind (bool | int | val | optval | seq | reflist:<role> | lock | const:<py> | callback)
    methods: name -> dict(call=<python expr over self and the args>, args={name: kind}, spec=<spec method>)
             argument kinds: val | exc | ref:<role> | int
    """

    def __init__(self, name, props, file, cls, fields, spec, spec_fields, inv, methods, requires=None, witness=None,
                 notes="", imports=None, loops=None, also=(), shared=None, runner=None, init=None):
        #: constructor contract: dict(args={name: kind}, spec={spec field: python literal | "arg:<name>"}) - the real __init__ called with
        #: arbitrary arguments establishes the coupling invariant with THAT initial spec state, and calls nothing
        self.init = init
        self.spec_fields = spec_fields
        self.shared = shared or {}
        self.runner = runner
        self.also = list(also)
        self.name = name
        self.props = props
        self.file = file
        self.cls = cls
        self.fields = fields
        self.spec = spec
        self.inv = inv
        self.methods = methods
        self.requires = requires
        self.witness = witness
        self.notes = notes
        self.imports = imports or {}
        self.loops = loops or {}

    @property
    def uid(self):
        return f"{self.file}::{self.cls}"


class MonitorContract:
    """sidecar contract of one lock-protected class (K3): monitor invariant, rely/guarantee, tokens.

    fields: name -> kind  (bool | int | nat | optref | ref | reflist | lock | callback:<token> |
                           effectref:<token> | scheduler | const:<py>)
    inv:    monitor invariant over the field names (holds whenever the lock is free)
    rely:   relation over `old`/`new` that every critical section of every method guarantees
    held:   field -> 'slot' | 'list'   (where the container keeps the items it owns)
    methods: name -> list of argument kinds ('item' = a disposable handed over with its token)
    mint:   [(token, condition over old/new)]  a critical section that makes it true claims the token
    ensures: method -> stable postcondition (checked after interference at exit)
    stable_requires: method -> thread-local stable fact the caller guarantees (by tokens it holds)
    may_raise: method -> exception class names that are part of the contract (a rejected call
               returns the argument tokens to the caller)
    """

    def __init__(self, name, props, file, cls, fields, inv="True", rely=None, held=None, methods=None,
                 mint=(), ensures=None, stable_requires=None, may_raise=None, lock_reentrant=True,
                 private=(), witness=None, notes=""):
        self.name = name
        self.props = props
        self.file = file
        self.cls = cls
        self.fields = fields
        self.inv = inv
        self.rely = rely
        self.held = held or {}
        self.methods = methods or {}
        self.mint = list(mint)
        self.ensures = ensures or {}
        self.stable_requires = stable_requires or {}
        self.may_raise = may_raise or {}
        self.lock_reentrant = lock_reentrant
        self.private = set(private)
        self.witness = witness
        self.notes = notes

    @property
    def uid(self):
        return f"{self.file}::{self.cls}"
