"""Contract records (no solver imports: also loaded by the native replay runner)."""
from __future__ import annotations


class OpContract:
    """sidecar contract of one operator factory (K1)."""

    def __init__(self, name, props, file, func, call, params, spec, cells=None, inv="True", requires=None,
                 raises=(), loops=None, sources=("source",), notes="", witness=None, spec_args=None,
                 scheduler=None, known=None, elem="val"):
        self.name = name
        self.props = props
        self.file = file
        self.func = func
        self.call = call
        self.params = params
        self.spec = spec
        self.cells = cells or {}
        self.inv = inv
        self.requires = requires
        self.raises = list(raises)
        self.loops = loops or {}
        self.sources = sources
        self.notes = notes
        self.witness = witness
        self.spec_args = spec_args
        self.scheduler = scheduler
        self.known = known
        self.elem = elem

    @property
    def uid(self):
        return f"{self.file}::{self.func}"
