"""Native interleaving explorer for ScheduledObserver / observe_on (replay of C32 violations; bounded).

Runs under /venv/bin/python on the real classes with the cooperative-thread controller of threadrun.py (every source line
of scheduledobserver.py / observeonobserver.py and every acquisition of the observer's lock is a yield point; all schedules
with at most PREEMPTIONS preemptions are explored by re-execution).  Scenario: an ObserveOnObserver over a manual
scheduler (scheduled runs go to a list); one notification is already queued with its run pending; thread T1 (producer)
delivers further notifications, thread T2 (the scheduler's thread) executes pending runs; afterwards the idle scheduler
executes whatever is still pending.  Oracle = the property: every notification received is delivered exactly once, in
order, never two deliveries at once, nothing is left in the queue with no run pending (unless a delivery raised, after
which nothing more is delivered).  BOUNDED.

usage: obsrun.py replay - C32 '<json opts>'
       obsrun.py case '<json case>'
"""
from __future__ import annotations

import json
import os
import sys
import threading

VERIF = os.path.dirname(os.path.dirname(os.path.abspath(__file__)))
if VERIF not in sys.path:
    sys.path.insert(0, VERIF)
REPO = os.environ.get("RXVC_REPO", "/repo")
if REPO not in sys.path:
    sys.path.insert(0, REPO)

from rxvc import threadrun  # noqa: E402

PREEMPTIONS = 2
MAX_SCHEDULES = 3000


def files():
    import reactivex.observer as ob
    base = os.path.dirname(ob.__file__)
    return {os.path.join(base, "scheduledobserver.py"), os.path.join(base, "observeonobserver.py")}


def build(scn):
    """-> (observer under test, thread bodies, check)"""
    from reactivex.disposable import Disposable
    from reactivex.observer.observeonobserver import ObserveOnObserver
    from reactivex.scheduler.scheduler import Scheduler
    import datetime
    pending = []

    class Manual(Scheduler):
        @property
        def now(self):
            return datetime.datetime.fromtimestamp(0, datetime.timezone.utc)

        def schedule(self, action, state=None):
            pending.append((action, state))
            return Disposable()

        def schedule_relative(self, duetime, action, state=None):
            return self.schedule(action, state)

        def schedule_absolute(self, duetime, action, state=None):
            return self.schedule(action, state)
    sched = Manual()
    delivered = []
    inside = [0]
    overlaps = []

    class Down:
        def on_next(self, v):
            inside[0] += 1
            if inside[0] > 1:
                overlaps.append(v)
            delivered.append(("N", v))
            if scn.get("raise_on") == v:
                inside[0] -= 1
                raise RuntimeError("delivery failed")
            inside[0] -= 1

        def on_error(self, e):
            delivered.append(("E",))

        def on_completed(self):
            delivered.append(("C",))
    oo = ObserveOnObserver(sched, Down())
    sent = []

    def send(kind, v=None):
        sent.append((kind,) + ((v,) if kind == "N" else ()))
        if kind == "N":
            oo.on_next(v)
        elif kind == "C":
            oo.on_completed()
        elif kind == "E":
            oo.on_error(ValueError("source failed"))
    for v in scn.get("before", [0]):
        send("N", v)

    def producer():
        for ev in scn.get("produce", [["N", 1]]):
            send(*ev)

    def runner():
        for _ in range(scn.get("runs", 4)):
            if pending:
                action, state = pending.pop(0)
                action(sched, state)
    runner_error = []

    def safe_runner():
        try:
            runner()
        except RuntimeError as e:
            runner_error.append(str(e))

    def check():
        # the scheduler is idle now: it runs whatever is pending
        try:
            guard = 0
            while pending and guard < 50:
                guard += 1
                action, state = pending.pop(0)
                action(sched, state)
        except RuntimeError as e:
            runner_error.append(str(e))
        if overlaps:
            return f"two deliveries at once: {overlaps}"
        if runner_error:
            # after a delivery raised nothing further is delivered
            k = next(i for i, d in enumerate(delivered) if d == ("N", scn.get("raise_on")))
            if len(delivered) != k + 1:
                return f"delivered {delivered[k + 1:]} after a delivery had raised"
            if delivered != sent[:k + 1]:
                return f"delivered {delivered}, sent {sent}"
            return None
        if delivered != sent:
            left = len(oo.queue)
            return (f"sent {sent} but delivered {delivered}; {left} notification(s) sit in the queue with no run pending "
                    f"(is_acquired={oo.is_acquired}, has_faulted={oo.has_faulted}): lost wake-up" if left else
                    f"sent {sent} but delivered {delivered}")
        return None
    return oo, [producer, safe_runner], check


def run_schedule(scn, schedule):
    oo, bodies, check = build(scn)
    ctl = threadrun.Controller(files(), schedule)
    oo.lock = ctl.make_lock()
    hung = ctl.run(bodies)
    if hung:
        return ctl, "deadlock / thread did not finish"
    for name, e in ctl.errors.items():
        if e == "deadlock":
            return ctl, "deadlock"
        if isinstance(e, Exception):
            return ctl, f"{name} raised {e!r}"
    return ctl, check()


def explore(scn):
    work = [[]]
    seen = 0
    while work and seen < MAX_SCHEDULES:
        prefix = work.pop()
        ctl, verdict = run_schedule(scn, prefix)
        seen += 1
        sched = [c for c, _, _ in ctl.trace]
        if verdict:
            return seen, sched, verdict
        pre = 0
        for i, (choice, runnable, prev) in enumerate(ctl.trace):
            if prev in runnable and choice != prev:
                pre += 1
            if i < len(prefix):
                continue
            for alt in runnable:
                if alt == choice:
                    continue
                cost = pre + (1 if (prev in runnable and alt != prev and choice == prev) else 0)
                if cost <= PREEMPTIONS:
                    work.append(sched[:i] + [alt])
    return seen, None, None


SCENARIOS = [
    {"before": [0], "produce": [["N", 1]], "runs": 4},
    {"before": [0], "produce": [["N", 1], ["N", 2]], "runs": 5},
    {"before": [], "produce": [["N", 1], ["N", 2]], "runs": 4},
    {"before": [0], "produce": [["N", 1], ["C"]], "runs": 5},
    {"before": [0, 1], "produce": [["N", 2]], "runs": 5, "raise_on": 1},
    {"before": [0, 1], "produce": [["E"]], "runs": 5},
]

REPLAY_TEMPLATE = '''#!/venv/bin/python
"""Replay of a violation of property {prop} (ScheduledObserver / observe_on).
obligation: {oid}
scenario: {scn}
thread schedule (T1 = producer, T2 = scheduler thread): {schedule}
{what}
Exit 1 when it reproduces on the tree under RXVC_REPO (default /repo)."""
import subprocess, sys
r = subprocess.run(["/venv/bin/python", "{verif}/rxvc/obsrun.py", "case", {case!r}])
sys.exit(r.returncode)
'''


def main(argv):
    if argv[0] == "case":
        c = json.loads(argv[1])
        ctl, verdict = run_schedule(c["scenario"], c["schedule"])
        print(json.dumps({"violation": verdict}))
        sys.exit(1 if verdict else 0)
    opts = json.loads(argv[3]) if len(argv) > 3 else {}
    n, found = 0, None
    for scn in SCENARIOS:
        seen, sched, verdict = explore(scn)
        n += seen
        if verdict:
            found = {"case": {"scenario": scn, "schedule": sched}, "disagreement": verdict}
            break
    res = {"cases": n, "found": [found] if found else []}
    if found and "replay_path" in opts:
        os.makedirs(os.path.dirname(opts["replay_path"]), exist_ok=True)
        with open(opts["replay_path"], "w") as f:
            f.write(REPLAY_TEMPLATE.format(prop=opts.get("prop", "C32"), oid=opts.get("oid", "?"), verif=VERIF, scn=json.dumps(found["case"]["scenario"]),
                                           schedule=found["case"]["schedule"], what=found["disagreement"], case=json.dumps(found["case"])))
        res["replay"] = opts["replay_path"]
    print(json.dumps(res, default=repr))
    _ = threading


if __name__ == "__main__":
    main(sys.argv[1:])
