"""C27 (also used by C19 / C18, whose groups and windows share the subscription through it) - RefCountDisposable: FUNCTIONAL
contracts of the real methods, from an arbitrary object state satisfying the monitor invariant
        count >= 0  and  is_disposed == (is_primary_disposed and count == 0)
(the invariant, its preservation by every critical section under interference and the exactly-once token of the underlying
resource are the K3 monitor unit's; here: what each call does to the count - the link between `count` and "the dependents
handed out and not yet disposed" that the property speaks about).

  .disposable      resource not released yet (also when the primary was already disposed but dependents are alive):
                   count' = count + 1 and the result is a NEW dependent attached to this object; flags unchanged; nothing disposed.
                   resource released: count unchanged, the result is inert (disposing it changes nothing, disposes nothing).
  dependent.dispose()   first call: exactly one release() of the parent it was attached to; any further call: nothing.
  release()        (called through a live dependent: count >= 1)  count' = count - 1; the resource is disposed - exactly once -
                   iff the primary was disposed and count' == 0, and then is_disposed; otherwise nothing is disposed.
  dispose()        first call: is_primary_disposed; the resource is disposed iff count == 0 (then is_disposed); later calls: nothing.
"""
from __future__ import annotations

import time

import z3

from . import smt
from .interp import Interp, World, explore
from .loader import Loader, all_functions
from .refine import Result
from .values import BoundMethod, Native, Obj, Opaque, PyExc, Unsupported

FILE = "reactivex/disposable/refcountdisposable.py"


class RCWorld(World):
    def __init__(self):
        super().__init__()
        self.log = []

    def call(self, it, o, method, args, kwargs):
        if o.kind == "resource" and method == "dispose":
            self.log.append(("dispose", o))
            return None
        if o.kind in ("lock", "logger"):
            return None
        return super().call(it, o, method, args, kwargs)


class RefCountHarness:
    def __init__(self, loader=None):
        self.loader = loader or Loader()
        self.results = []
        self.unsupported = None
        self.functions = {}

    def rec(self, ctx, oid, goal, detail=""):
        t0 = time.time()
        if isinstance(goal, bool):
            goal = z3.BoolVal(goal)
        v, m, b = smt.prove(ctx.pc, goal)
        ctx.results.append(Result(oid, v, b, smt.model_to_dict(m), list(ctx.branch_log), detail, time.time() - t0, "post"))

    def setup(self, ctx):
        w = self.w = RCWorld()
        it = Interp(self.loader, ctx, w)
        it.externals["threading.RLock"] = Native("RLock", lambda it_, a, k: Opaque("lock", "lock", reentrant=True))
        cls = it.module_get("reactivex.disposable.refcountdisposable", "RefCountDisposable")
        o = Obj(cls)
        self.res = Opaque("resource", "underlying")
        prim, disp, cnt = ctx.fresh("is_primary_disposed", "bool"), ctx.fresh("is_disposed", "bool"), ctx.fresh("count", "int")
        o.fields.update({"underlying_disposable": self.res, "is_primary_disposed": prim, "is_disposed": disp, "count": cnt,
                         "lock": Opaque("lock", "self.lock", reentrant=True)})
        ctx.assume(z3.And(cnt.t >= 0, disp.t == z3.And(prim.t, cnt.t == 0)))
        return it, o, prim.t, disp.t, cnt.t

    @staticmethod
    def b(it, v):
        t = it.truth_term(v)
        return z3.BoolVal(t) if isinstance(t, bool) else t

    def state(self, it, o):
        return self.b(it, o.fields["is_primary_disposed"]), self.b(it, o.fields["is_disposed"]), it.to_int(o.fields["count"])

    def disposed(self):
        return [e for e in self.w.log if e[0] == "dispose"]

    def run_getter(self, ctx):
        uid = f"{FILE}::RefCountDisposable.disposable"
        it, o, p0, d0, c0 = self.setup(ctx)
        try:
            r = it.get_attr(o, "disposable")
        except PyExc as e:
            self.rec(ctx, uid + "/no-exception", False, detail=repr(e.value))
            return
        p1, d1, c1 = self.state(it, o)
        inner = isinstance(r, Obj) and r.cls.name == "InnerDisposable"
        attached = inner and r.fields.get("parent") is o
        self.rec(ctx, uid + "/flags-unchanged-and-nothing-disposed", z3.And(p1 == p0, d1 == d0, z3.BoolVal(not self.disposed())))
        self.rec(ctx, uid + "/a-dependent-requested-before-the-resource-was-released-is-counted",
                 z3.Implies(z3.Not(d0), z3.And(c1 == c0 + 1, z3.BoolVal(bool(attached)))),
                 detail=f"result: {r}; the resource is released only when is_disposed - a primary that was disposed while dependents are alive "
                        f"still hands out counted dependents")
        self.rec(ctx, uid + "/a-dependent-requested-after-the-resource-was-released-is-inert", z3.Implies(d0, z3.And(c1 == c0, z3.BoolVal(not attached))),
                 detail=f"result: {r}")
        # what the result does when it is disposed, twice
        for k in (1, 2):
            self.w.log.clear()
            before = self.state(it, o)
            try:
                it.call(it.get_attr(r, "dispose"), [], {})
            except PyExc as e:
                self.rec(ctx, uid + f"/result.dispose#{k}/no-exception", False, detail=repr(e.value))
                return
            p2, d2, c2 = self.state(it, o)
            nd = len(self.disposed())
            if k == 1:
                self.rec(ctx, uid + "/result.dispose#1/a-counted-dependent-gives-back-exactly-its-own-unit",
                         z3.Implies(z3.Not(d0), z3.And(c2 == before[2] - 1, p2 == before[0], d2 == z3.And(before[0], c2 == 0),
                                                      z3.BoolVal(nd <= 1), z3.BoolVal(nd == 1) == z3.And(before[0], c2 == 0))),
                         detail=f"resource disposed {nd} time(s)")
                self.rec(ctx, uid + "/result.dispose#1/an-inert-dependent-changes-nothing", z3.Implies(d0, z3.And(c2 == before[2], p2 == before[0], d2 == before[1], z3.BoolVal(nd == 0))))
            else:
                self.rec(ctx, uid + "/result.dispose#2/disposing-a-dependent-twice-releases-it-once",
                         z3.And(c2 == before[2], p2 == before[0], d2 == before[1], z3.BoolVal(nd == 0)), detail=f"resource disposed {nd} time(s) by the second call")

    def run_release(self, ctx):
        uid = f"{FILE}::RefCountDisposable.release"
        it, o, p0, d0, c0 = self.setup(ctx)
        ctx.assume(c0 >= 1)  # reachable only through a live dependent (InnerDisposable: once each)
        try:
            it.call(it.get_attr(o, "release"), [], {})
        except PyExc as e:
            self.rec(ctx, uid + "/no-exception", False, detail=repr(e.value))
            return
        p1, d1, c1 = self.state(it, o)
        nd = len(self.disposed())
        self.rec(ctx, uid + "/gives-back-exactly-one-unit", z3.And(c1 == c0 - 1, p1 == p0))
        self.rec(ctx, uid + "/the-resource-is-disposed-exactly-when-the-primary-is-disposed-and-no-dependent-is-left",
                 z3.And(d1 == z3.And(p0, c1 == 0), z3.BoolVal(nd == 1) == z3.And(p0, c1 == 0), z3.BoolVal(nd <= 1),
                        z3.BoolVal(all(e[1] is self.res for e in self.disposed()))), detail=f"resource disposed {nd} time(s)")

    def run_dispose(self, ctx):
        uid = f"{FILE}::RefCountDisposable.dispose"
        it, o, p0, d0, c0 = self.setup(ctx)
        try:
            it.call(it.get_attr(o, "dispose"), [], {})
        except PyExc as e:
            self.rec(ctx, uid + "/no-exception", False, detail=repr(e.value))
            return
        p1, d1, c1 = self.state(it, o)
        nd = len(self.disposed())
        self.rec(ctx, uid + "/marks-the-primary-disposed-and-keeps-the-count", z3.And(p1, c1 == c0))
        self.rec(ctx, uid + "/the-resource-is-disposed-exactly-when-this-is-the-first-dispose-and-no-dependent-is-alive",
                 z3.And(d1 == z3.Or(d0, z3.And(z3.Not(p0), c0 == 0)), z3.BoolVal(nd == 1) == z3.And(z3.Not(p0), c0 == 0), z3.BoolVal(nd <= 1),
                        z3.BoolVal(all(e[1] is self.res for e in self.disposed()))), detail=f"resource disposed {nd} time(s)")

    def run_init(self, ctx):
        uid = f"{FILE}::RefCountDisposable.__init__"
        w = self.w = RCWorld()
        it = Interp(self.loader, ctx, w)
        it.externals["threading.RLock"] = Native("RLock", lambda it_, a, k: Opaque("lock", "lock", reentrant=True))
        cls = it.module_get("reactivex.disposable.refcountdisposable", "RefCountDisposable")
        res = Opaque("resource", "underlying")
        o = it.call(cls, [res], {})
        ok = (isinstance(o, Obj) and o.fields.get("underlying_disposable") is res and o.fields.get("is_primary_disposed") is False
              and o.fields.get("is_disposed") is False and o.fields.get("count") == 0 and not w.log)
        self.rec(ctx, uid + "/starts-live-with-no-dependents", ok, detail=f"{getattr(o, 'fields', None)}")

    def run(self):
        t0 = time.time()
        try:
            node = self.loader.find(FILE, "RefCountDisposable")
            for q, n in all_functions(node, "RefCountDisposable"):
                self.functions[f"{FILE}::{q}"] = self.loader.sha(FILE, q)
            for f in (self.run_init, self.run_getter, self.run_release, self.run_dispose):
                for p in explore(f):
                    self.results.extend(p.results)
        except Unsupported as e:
            self.unsupported = str(e)
        except PyExc as e:
            self.unsupported = f"interpreter-level exception: {e.value!r} {getattr(e.value, 'fields', '')}"
        self.seconds = time.time() - t0
        return self


MUTANTS = {
    "dependents refused once the primary is disposed": ("            if self.is_disposed:\n                return Disposable()", "            if self.is_primary_disposed:\n                return Disposable()"),
    "getter does not count": ("            self.count += 1\n", ""),
    "release ignores the primary": ("            if not self.count and self.is_primary_disposed:", "            if not self.count:"),
    "dispose ignores the dependents": ("                if not self.count:\n                    self.is_disposed = True", "                if True:\n                    self.is_disposed = True"),
    "dependent releases every time": ("                self.parent = None\n", ""),
}


def must_fail():
    out = {"mutants": 0, "killed": 0, "survivors": []}
    src = Loader().load_file(FILE).src
    for name, (a, b) in MUTANTS.items():
        if a not in src:
            continue
        ld = Loader()
        ld.overrides = {FILE: src.replace(a, b, 1)}
        h = RefCountHarness(ld).run()
        out["mutants"] += 1
        if h.unsupported or any(r.verdict == "refuted" for r in h.results):
            out["killed"] += 1
        else:
            out["survivors"].append(name)
    return out


def run_unit(desc):
    h = RefCountHarness().run()
    rep = {"unit": f"{FILE}::RefCountDisposable[functional]", "kind": "function contracts (what each call does to the count of live dependents)",
           "functions": h.functions, "results": [r.as_dict() for r in h.results], "unsupported": h.unsupported, "spec_validation": [], "bounded": [],
           "replayable": {"runner": "threadrun.py", "module": "contracts.c26", "name": "RefCountDisposable"}}
    if desc.get("tier") == "thorough" and not h.unsupported:
        mf = must_fail()
        rep["must_fail"] = dict(mf, unit=rep["unit"])
        if mf["mutants"] and mf["killed"] < mf["mutants"]:
            rep["crash"] = f"vacuity: must-fail mutants survived: {mf['survivors']}"
    return rep


_ = BoundMethod
