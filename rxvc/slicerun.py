"""Native replay for C07: source[start:stop:step], ops.slice(start, stop, step) and source[i] against
Python list slicing on small inputs (bounded search seeded with the verifier's counter-model).

usage: slicerun.py replay - slice '<json opts>'
"""
from __future__ import annotations

import itertools
import json
import os
import sys

VERIF = os.path.dirname(os.path.dirname(os.path.abspath(__file__)))
if VERIF not in sys.path:
    sys.path.insert(0, VERIF)
REPO = os.environ.get("RXVC_REPO", "/repo")  # the tree under test (the checks run on /repo; scratch copies are used by my own side runs only)
if REPO not in sys.path:
    sys.path.insert(0, REPO)


def run_case(n, start, stop, step, form):
    import reactivex as rx
    from reactivex import operators as ops

    xs = list(range(100, 100 + n))
    out = []
    try:
        if form == "getitem":
            o = rx.from_iterable(xs)[start:stop:step]
        elif form == "ops":
            o = rx.from_iterable(xs).pipe(ops.slice(start, stop, step))
        else:
            o = rx.from_iterable(xs)[start]
        o.subscribe(out.append, lambda e: out.append(("E", type(e).__name__)), lambda: out.append("C"))
    except Exception as e:
        out.append(("RAISED", type(e).__name__))
    if form == "index":
        exp = [xs[start], "C"] if -n <= start < n else None
    else:
        exp = xs[start:stop:step] + ["C"]
    return out, exp


REPLAY = '''#!/venv/bin/python
"""Replay of a counter-example found for property {prop}.
obligation: {oid}
Slicing the observable differs from slicing the list."""
import sys
sys.path.insert(0, {verif!r})
from rxvc import slicerun
out, exp = slicerun.run_case({n}, {start}, {stop}, {step}, {form!r})
print("input: list(range(100, {top})), form={form}, start={start} stop={stop} step={step}")
print("observable:", out)
print("list      :", exp)
sys.exit(0 if (exp is None or out == exp) else 1)
'''


def main(argv):
    opts = json.loads(argv[3]) if len(argv) > 3 else {}
    cases = 0
    rng = [None] + list(range(-6, 7))
    for n in range(0, 6):
        for form in ("getitem", "ops", "index"):
            for start, stop, step in itertools.product(rng, rng, [None, 1, 2, 3, 6]):
                if form == "index" and (start is None or stop is not None or step is not None):
                    continue
                cases += 1
                out, exp = run_case(n, start, stop, step, form)
                if exp is not None and out != exp:
                    res = {"cases": cases, "found": [{"n": n, "start": start, "stop": stop, "step": step, "form": form,
                                                      "observable": repr(out), "list": repr(exp)}]}
                    if "replay_path" in opts:
                        os.makedirs(os.path.dirname(opts["replay_path"]), exist_ok=True)
                        with open(opts["replay_path"], "w") as f:
                            f.write(REPLAY.format(prop=opts.get("prop", "?"), oid=opts.get("oid", "?"), verif=VERIF, n=n, start=start,
                                                  stop=stop, step=step, form=form, top=100 + n))
                        res["replay"] = opts["replay_path"]
                    print(json.dumps(res))
                    return
    print(json.dumps({"cases": cases, "found": []}))


if __name__ == "__main__":
    main(sys.argv[1:])
