"""Native work-budget runner for C14 (early termination cancels synchronous never-ending sources; BOUNDED).

Runs under /venv/bin/python.  A pipeline = a never-ending synchronous source, optionally a pass-through stage, and an
early terminator.  Every step of the source is metered; exceeding the budget raises a BaseException that unwinds out of
subscribe() (the library only catches Exception).  Oracle, from the property: subscribe() returns, the subscriber got
exactly the expected elements and the completion, and the source did only a bounded amount of work (<= LIMIT steps).

Scheduler configurations: default (none given), the current-thread singleton given explicitly, a FRESH
CurrentThreadScheduler() instance given explicitly, an ImmediateScheduler given explicitly.

usage: c14run.py replay - <'all' or a configuration> '<json opts>'
       c14run.py case '<json case>'        (exit 1 when the oracle is violated)
       c14run.py list                      (all case ids, one json per line with the verdict)
"""
from __future__ import annotations

import json
import os
import signal
import sys

VERIF = os.path.dirname(os.path.dirname(os.path.abspath(__file__)))
REPO = os.environ.get("RXVC_REPO", "/repo")
if REPO not in sys.path:
    sys.path.insert(0, REPO)

BUDGET = 3000
LIMIT = 60


class BudgetExceeded(BaseException):
    pass


class Meter:
    def __init__(self):
        self.n = 0

    def tick(self, *_):
        self.n += 1
        if self.n > BUDGET:
            raise BudgetExceeded()


def sources():
    import reactivex as rx
    from reactivex import operators as ops

    def counting(m):
        i = 0
        while True:
            m.tick()
            i += 1
            yield i

    def step(m, x):
        m.tick()
        return x + 1
    return {
        "from_iterable": lambda m: rx.from_iterable(counting(m)),
        "range": lambda m: rx.range(1, 10 ** 15).pipe(ops.do_action(m.tick)),
        "repeat_value": lambda m: rx.repeat_value(1).pipe(ops.do_action(m.tick), ops.scan(lambda a, x: a + x, 0)),
        "generate": lambda m: rx.generate(1, lambda x: True, lambda x: step(m, x)),
        "repeat": lambda m: rx.of(1).pipe(ops.repeat(), ops.do_action(m.tick), ops.scan(lambda a, x: a + x, 0)),
    }


def throughs():
    import reactivex as rx
    from reactivex import operators as ops
    return {
        "-": lambda o: o,
        "map_filter": lambda o: o.pipe(ops.map(lambda x: x), ops.filter(lambda x: True)),
        "merge": lambda o: rx.merge(o, rx.never()),
        "flat_map": lambda o: o.pipe(ops.flat_map(lambda x: rx.of(x))),
        "concat": lambda o: rx.concat(rx.empty(), o),
        "switch_map": lambda o: rx.of(0).pipe(ops.concat(rx.never()), ops.switch_map(lambda _: o)),
        "share": lambda o: o.pipe(ops.share()),
        "amb": lambda o: o.pipe(ops.amb(rx.never())),
        "with_latest_from": lambda o: o.pipe(ops.with_latest_from(rx.of(0)), ops.map(lambda t: t[0])),
        "combine_latest": lambda o: rx.of(0).pipe(ops.concat(rx.never()), ops.combine_latest(o), ops.map(lambda t: t[1])),
        # the never-ending source is cancelled BEFORE its first step (between its subscription and the moment its scheduled work would start):
        # it loses a merge against a finite sequence that ends the pipeline, it is the loser of amb, it is replaced by switch_map before it ran
        "merge_loser": lambda o: rx.merge(rx.of(1, 2, 3), o),
        "amb_loser": lambda o: rx.of(1, 2, 3).pipe(ops.concat(rx.never()), ops.amb(o)),
        "switch_map_replaced": lambda o: rx.of(0, 1, 2).pipe(ops.concat(rx.never()), ops.switch_map(lambda _: o)),
    }


def terminators():
    from reactivex import operators as ops
    return {
        "take": (lambda o: o.pipe(ops.take(3)), [1, 2, 3]),
        "first": (lambda o: o.pipe(ops.first()), [1]),
        "take_while": (lambda o: o.pipe(ops.take_while(lambda x: x < 3)), [1, 2]),
        "element_at": (lambda o: o.pipe(ops.element_at(2)), [3]),
        "take_until": (lambda o: o.pipe(ops.publish(lambda s: s.pipe(ops.take_until(s.pipe(ops.filter(lambda x: x == 3)))))), [1, 2, 3]),
    }


def schedulers():
    from reactivex.scheduler import CurrentThreadScheduler, ImmediateScheduler
    return {"default": lambda: None, "singleton": CurrentThreadScheduler.singleton,
            "fresh_current_thread": CurrentThreadScheduler, "immediate": ImmediateScheduler}


def run_case(c):
    m = Meter()
    got, done, errs = [], [], []
    build, expected = terminators()[c["terminator"]]
    o = build(throughs()[c["through"]](sources()[c["source"]](m)))

    def on_alarm(*_):
        raise BudgetExceeded()
    signal.signal(signal.SIGALRM, on_alarm)
    signal.alarm(10)
    try:
        o.subscribe(got.append, errs.append, lambda: done.append(True), scheduler=schedulers()[c["scheduler"]]())
    except BudgetExceeded:
        return {"what": f"subscribe() did not return within the work budget ({BUDGET} source steps): the source kept producing after "
                        f"the early-terminating operator had completed (delivered {got[:6]}, completed={bool(done)})", "steps": m.n}
    except RecursionError:
        return {"what": f"subscribe() ended in RecursionError after {m.n} source steps (delivered {got[:6]}, completed={bool(done)})", "steps": m.n}
    finally:
        signal.alarm(0)
    if errs and isinstance(errs[0], RecursionError):
        return {"what": f"the pipeline ran into the recursion limit after {m.n} source steps", "steps": m.n}
    if errs or got != expected or not done:
        return {"what": f"unexpected outcome: got {got[:8]}, expected {expected}, completed={bool(done)}, errors={[repr(e) for e in errs][:2]}", "steps": m.n}
    if m.n > LIMIT:
        return {"what": f"the source did {m.n} steps for {len(got)} elements: it went on producing after the terminator had completed", "steps": m.n}
    return None


def cases(scheds=None):
    for s in (scheds or list(schedulers())):
        for src in sources():
            for th in throughs():
                for t in terminators():
                    if th != "-" and t not in ("take", "first"):
                        continue
                    yield {"source": src, "through": th, "terminator": t, "scheduler": s}


def case_id(c):
    return f"{c['source']}|{c['through']}|{c['terminator']}[{c['scheduler']}]"


REPLAY_TEMPLATE = '''#!/venv/bin/python
"""Replay of a violation of property {prop} (early termination must cancel a synchronous never-ending source).
obligation: {oid}
pipeline: source {source}, through {through}, terminator {terminator}; scheduler configuration: {scheduler}
outcome: {what}
Exit 1 when it reproduces on the tree under RXVC_REPO (default /repo)."""
import subprocess, sys
r = subprocess.run(["/venv/bin/python", "{verif}/rxvc/c14run.py", "case", {case!r}])
sys.exit(r.returncode)
'''


def one(c):
    """each case in its own process: a hang or a corrupted trampoline must not leak into the next case"""
    import subprocess
    try:
        r = subprocess.run([sys.executable, os.path.abspath(__file__), "case", json.dumps(c)], capture_output=True, text=True, timeout=30)
        return json.loads(r.stdout.strip().splitlines()[-1])["violation"]
    except subprocess.TimeoutExpired:
        return {"what": "the case did not end within 30 s"}
    except Exception as e:  # noqa: BLE001
        return {"what": f"runner error: {e!r}"}


def main(argv):
    if argv[0] == "case":
        c = json.loads(argv[1])
        try:
            r = run_case(c)
        except Exception as e:  # noqa: BLE001
            r = {"what": f"the pipeline raised {e!r}"}
        print(json.dumps({"violation": r}, default=repr))
        sys.exit(1 if r else 0)
    if argv[0] == "list":
        # in-process per scheduler configuration group, one subprocess per case only for those that fail in-process
        from concurrent.futures import ThreadPoolExecutor
        cs = list(cases(json.loads(argv[1]) if len(argv) > 1 else None))
        with ThreadPoolExecutor(max_workers=14) as ex:
            rs = list(ex.map(one, cs))
        for c, r in zip(cs, rs):
            print(json.dumps({"id": case_id(c), "case": c, "violation": r}, default=repr))
        return
    opts = json.loads(argv[3]) if len(argv) > 3 else {}
    target = opts.get("case_id") or (argv[2] if len(argv) > 2 else "all")
    n, found = 0, None
    for c in cases():
        if target not in ("all", "-") and case_id(c) != target:
            continue
        n += 1
        r = one(c)
        if r:
            found = {"case": c, "disagreement": r}
            break
    res = {"cases": n, "found": [found] if found else []}
    if found and "replay_path" in opts:
        os.makedirs(os.path.dirname(opts["replay_path"]), exist_ok=True)
        c = found["case"]
        with open(opts["replay_path"], "w") as f:
            f.write(REPLAY_TEMPLATE.format(prop=opts.get("prop", "C14"), oid=opts.get("oid", "?"), verif=VERIF, what=found["disagreement"]["what"],
                                           case=json.dumps(c), **c))
        res["replay"] = opts["replay_path"]
    print(json.dumps(res, default=repr))


if __name__ == "__main__":
    main(sys.argv[1:])
