"""Native scenario runner for the trampoline schedulers (replay of C30 violations; bounded).

Runs under /venv/bin/python against TrampolineScheduler and CurrentThreadScheduler.  A scenario is a tree of
actions; each action logs itself, then schedules its children (schedule = due now, or schedule_absolute at an
offset in the past so that due times differ without any waiting) and cancels the items it is told to cancel.
Oracle = the property: one action at a time, never nested (an action scheduled by a running action starts only
after it returned), in (due time, scheduling order) order among everything pending at each step, a cancelled
action never runs, all on the scheduling thread; two threads using the CurrentThreadScheduler run independently.
BOUNDED: trees of <= 4 actions / depth 2, offsets in {-3,-2,-1,0} s, one cancellation.

usage: tramprun.py replay - C30 '<json opts>'
       tramprun.py case '<json scenario>'
"""
from __future__ import annotations

import itertools
import json
import os
import sys
import threading

VERIF = os.path.dirname(os.path.dirname(os.path.abspath(__file__)))
REPO = os.environ.get("RXVC_REPO", "/repo")
if REPO not in sys.path:
    sys.path.insert(0, REPO)


def run_real(kind, roots):
    """-> (events, problems) events: ('start'|'end', id, thread)"""
    from datetime import timedelta
    from reactivex import scheduler as sch
    s = {"trampoline": sch.TrampolineScheduler, "current_thread": sch.CurrentThreadScheduler}[kind]()
    base = s.now
    events = []
    handles = {}
    depth = [0]
    problems = []

    def plant(on, node):
        ident = node["id"]

        def action(scheduler, state=None):
            depth[0] += 1
            if depth[0] > 1:
                problems.append(f"{ident} started while another action was still running (nested)")
            events.append(("start", ident, threading.current_thread().name))
            for ch in node.get("children", []):
                plant(scheduler, ch)
            for c in node.get("cancels", []):
                if c in handles:
                    handles[c].dispose()
            events.append(("end", ident, threading.current_thread().name))
            depth[0] -= 1
        off = node.get("offset")
        if off is None:
            handles[ident] = on.schedule(action)
        else:
            handles[ident] = on.schedule_absolute(base + timedelta(seconds=off), action)

    def outer(scheduler, state=None):
        for r in roots:
            plant(scheduler, r)
    s.schedule(outer)
    return events, problems


def expected_order(roots):
    """reference trampoline: pending set ordered by (due offset, scheduling stamp); run the least, which may add more"""
    pending = []
    stamp = itertools.count()
    now_off = 0.0  # `schedule` = due now = offset 0 relative to base (the run takes no time at this resolution)
    cancelled = set()
    order = []

    def add(node):
        off = node.get("offset")
        pending.append((now_off if off is None else off, next(stamp), node))
    for r in roots:
        add(r)
    while pending:
        pending.sort(key=lambda t: (t[0], t[1]))
        _d, _s, node = pending.pop(0)
        if node["id"] in cancelled:
            continue
        order.append(node["id"])
        for ch in node.get("children", []):
            add(ch)
        for c in node.get("cancels", []):
            cancelled.add(c)
    return order


def check(kind, roots):
    events, problems = run_real(kind, roots)
    me = threading.current_thread().name
    if problems:
        return {"what": problems[0]}
    for (k, i, th) in events:
        if th != me:
            return {"what": f"{i} ran on thread {th}, scheduled from {me}"}
    got = [i for (k, i, _t) in events if k == "start"]
    want = expected_order(roots)
    if got != want:
        return {"what": "actions ran in a different order than (due time, scheduling order) among the pending ones, or a cancelled one ran",
                "got": got, "expected": want}
    return None


def two_threads():
    """each thread's CurrentThreadScheduler trampoline is independent: both threads run their own actions themselves"""
    from reactivex.scheduler import CurrentThreadScheduler
    s = CurrentThreadScheduler()
    seen = {}
    gate = threading.Barrier(2, timeout=5)

    def worker(name):
        def inner(scheduler, state=None):
            seen.setdefault(name, []).append(threading.current_thread().name)

        def outer(scheduler, state=None):
            gate.wait()  # both threads are inside an action of "the same" scheduler at once
            scheduler.schedule(inner)
        s.schedule(outer)
    ts = [threading.Thread(target=worker, args=(n,), name=n) for n in ("T1", "T2")]
    for t in ts:
        t.start()
    for t in ts:
        t.join(10)
    for n in ("T1", "T2"):
        if seen.get(n) != [n]:
            return {"what": f"actions scheduled by thread {n} on the CurrentThreadScheduler ran on {seen.get(n)}"}
    return None


def shared_handover(extra):
    """a TrampolineScheduler shared by two threads: thread B schedules b1 in the gap between A's run loop ending and A's run()
    returning (a pre-emption point: `_run` is wrapped so that thread A pauses right after the real `_run` returned).  b1 then schedules
    c1 (extra = True).  Oracle: b1 and c1 run exactly once each, c1 only after b1 returned (never nested), nothing is lost."""
    from reactivex.scheduler import TrampolineScheduler
    from reactivex.scheduler.trampoline import Trampoline
    a_left, b_done = threading.Event(), threading.Event()
    orig = Trampoline._run

    def paused(self):
        orig(self)
        if threading.current_thread().name == "A" and not a_left.is_set():
            a_left.set()
            b_done.wait(10)
    Trampoline._run = paused
    try:
        s = TrampolineScheduler()
        log = []

        def b1(sc, st=None):
            log.append("b1 start")
            b_done.set()           # A's epilogue runs now, while b1 is (possibly) still running
            if extra:
                import time as _t
                t0 = _t.time()
                while ta.is_alive() and _t.time() - t0 < 5:
                    _t.sleep(0.001)
                sc.schedule(lambda sc2, st2=None: log.append("c1"))
            log.append("b1 end")

        def B():
            a_left.wait(10)
            s.schedule(b1)
            b_done.set()
        tb = threading.Thread(target=B, name="B")
        ta = threading.Thread(target=lambda: s.schedule(lambda sc, st=None: log.append("a1")), name="A")
        tb.start()
        ta.start()
        ta.join(20)
        tb.join(20)
        if ta.is_alive() or tb.is_alive():
            return {"what": "the threads did not finish", "log": log}
        # anything left in the queue of an idle trampoline is lost
        want = ["a1", "b1 start", "b1 end"] + (["c1"] if extra else [])
        if log != want:
            return {"what": "an action scheduled from another thread between the run loop's end and run()'s return was lost, ran twice or ran nested",
                    "got": log, "expected": want}
        return None
    finally:
        Trampoline._run = orig


def scenarios():
    offs = [None, -3, -2, -1]
    ids = ["A", "B", "C", "D"]
    # two roots with offsets; first root has one or two children with offsets; optional cancellation
    for oa, ob in itertools.product(offs, repeat=2):
        for oc in offs:
            yield [{"id": "A", "offset": oa, "children": [{"id": "C", "offset": oc}]}, {"id": "B", "offset": ob}]
            yield [{"id": "A", "offset": oa, "children": [{"id": "C", "offset": oc}], "cancels": ["B"]}, {"id": "B", "offset": ob}]
            for od in offs[:3]:
                yield [{"id": "A", "offset": oa, "children": [{"id": "C", "offset": oc, "cancels": ["B"]}, {"id": "D", "offset": od}]},
                       {"id": "B", "offset": ob}]
    for oa, ob, oc in itertools.product(offs, repeat=3):
        yield [{"id": "A", "offset": oa, "cancels": ["C"]}, {"id": "B", "offset": ob}, {"id": "C", "offset": oc}]
    _ = ids


REPLAY_TEMPLATE = '''#!/venv/bin/python
"""Replay of a violation of property {prop} (trampoline scheduling).
obligation: {oid}
scheduler: {kind}; scenario (offsets in seconds relative to the start, None = schedule()): {scenario}
{what}
Exit 1 when it reproduces on the tree under RXVC_REPO (default /repo)."""
import subprocess, sys
r = subprocess.run(["/venv/bin/python", "{verif}/rxvc/tramprun.py", "case", {case!r}])
sys.exit(r.returncode)
'''


def main(argv):
    if argv[0] == "case":
        c = json.loads(argv[1])
        r = (two_threads() if c.get("two_threads") else shared_handover(c.get("extra", False)) if c.get("shared_handover")
             else check(c["kind"], c["roots"]))
        print(json.dumps({"violation": r}, default=repr))
        sys.exit(1 if r else 0)
    opts = json.loads(argv[3]) if len(argv) > 3 else {}
    cases, found = 0, None
    for kind in ("trampoline", "current_thread"):
        for roots in scenarios():
            cases += 1
            r = check(kind, roots)
            if r:
                found = {"case": {"kind": kind, "roots": roots}, "disagreement": r}
                break
        if found:
            break
    if not found:
        cases += 1
        r = two_threads()
        if r:
            found = {"case": {"two_threads": True, "kind": "current_thread", "roots": []}, "disagreement": r}
    for extra in (False, True):
        if not found:
            cases += 1
            r = shared_handover(extra)
            if r:
                found = {"case": {"shared_handover": True, "extra": extra, "kind": "trampoline (shared by two threads)", "roots": []}, "disagreement": r}
    res = {"cases": cases, "found": [found] if found else []}
    if found and "replay_path" in opts:
        os.makedirs(os.path.dirname(opts["replay_path"]), exist_ok=True)
        with open(opts["replay_path"], "w") as f:
            f.write(REPLAY_TEMPLATE.format(prop=opts.get("prop", "C30"), oid=opts.get("oid", "?"), verif=VERIF, kind=found["case"]["kind"],
                                           scenario=json.dumps(found["case"]["roots"]), what=json.dumps(found["disagreement"], default=repr),
                                           case=json.dumps(found["case"])))
        res["replay"] = opts["replay_path"]
    print(json.dumps(res, default=repr))


if __name__ == "__main__":
    main(sys.argv[1:])
