"""Native replay for K6 (C39): find concrete arguments for which `source.m(args)` and
`source.pipe(ops.m(args))` behave differently on the real library.  Bounded search over a small
argument domain and two synchronous sources; runs under /venv/bin/python.

usage: fwdrun.py replay <mixin file> <class> '<json opts with oid>'
"""
from __future__ import annotations

import itertools
import json
import os
import re
import sys

VERIF = os.path.dirname(os.path.dirname(os.path.abspath(__file__)))
if VERIF not in sys.path:
    sys.path.insert(0, VERIF)
REPO = os.environ.get("RXVC_REPO", "/repo")  # the tree under test (the checks run on /repo; scratch copies are used by my own side runs only)
if REPO not in sys.path:
    sys.path.insert(0, REPO)


def _f_none(*a, **k):
    return None


def _f_true(*a, **k):
    return True


def _f_first(*a, **k):
    return a[0] if a else None


def _f_pair(*a, **k):
    return tuple(a)


DOMAIN = {"None": None, "0": 0, "1": 1, "f_none": _f_none, "f_true": _f_true, "f_first": _f_first, "f_pair": _f_pair}


def outcome(build):
    import reactivex  # noqa: F401

    out = []
    try:
        obs = build()
        obs.subscribe(lambda v: out.append(("N", repr(v))), lambda e: out.append(("E", type(e).__name__)),
                      lambda: out.append(("C",)))
    except Exception as e:
        out.append(("RAISED", type(e).__name__))
    return out


def run_case(mname, shape_k, kw_names, values, src_items):
    import reactivex
    from reactivex import operators as ops

    args = [DOMAIN[v] for v in values[:shape_k]]
    kwargs = {n: DOMAIN[v] for n, v in zip(kw_names, values[shape_k:])}
    fluent = outcome(lambda: getattr(reactivex.of(*src_items), mname)(*args, **kwargs))
    piped = outcome(lambda: reactivex.of(*src_items).pipe(getattr(ops, mname)(*args, **kwargs)))
    return fluent, piped


REPLAY_TEMPLATE = '''#!/venv/bin/python
"""Replay of a counter-example found for property {prop}.
obligation: {oid}
`source.{m}(...)` and `source.pipe(ops.{m}(...))` called with the same arguments behave differently."""
import sys
sys.path.insert(0, {verif!r})
from rxvc import fwdrun
fluent, piped = fwdrun.run_case({m!r}, {k}, {kws}, {values}, {src})
print("method    : {m}   positional={k} keywords={kws} argument values={values} source=of{src}")
print("fluent    :", fluent)
print("piped     :", piped)
sys.exit(1 if fluent != piped else 0)
'''


def main(argv):
    mode, file, cls = argv[:3]
    opts = json.loads(argv[3]) if len(argv) > 3 else {}
    oid = opts.get("oid", "")
    m = re.search(r"\.(\w+)/shape\[(\d+)\+([^\]]*)\]", oid)
    res = {"cases": 0, "found": []}
    if not m:
        print(json.dumps(res))
        return
    mname, k, kws = m.group(1), int(m.group(2)), [x for x in m.group(3).split(",") if x]
    n = k + len(kws)
    for values in itertools.product(list(DOMAIN), repeat=n):
        for src in ((), (1, 2, 3)):
            res["cases"] += 1
            fluent, piped = run_case(mname, k, kws, list(values), src)
            if fluent != piped:
                res["found"].append({"method": mname, "values": list(values), "source": list(src), "fluent": fluent, "piped": piped})
                if "replay_path" in opts:
                    os.makedirs(os.path.dirname(opts["replay_path"]), exist_ok=True)
                    with open(opts["replay_path"], "w") as f:
                        f.write(REPLAY_TEMPLATE.format(prop=opts.get("prop", "?"), oid=oid, verif=VERIF, m=mname, k=k,
                                                       kws=kws, values=list(values), src=tuple(src)))
                    res["replay"] = opts["replay_path"]
                print(json.dumps(res, default=repr))
                return
    print(json.dumps(res, default=repr))


if __name__ == "__main__":
    main(sys.argv[1:])
