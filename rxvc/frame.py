"""K4 frame / allocation-scope conditions (C04 cold re-subscription, C44 operator reuse).

For every operator/factory function the scopes are read off the real AST:
  factory      ops.x(args)            (only when the function returns an inner `op(source)` function)
  application  op(source)             (the function that builds `Observable(subscribe)`)
  subscription subscribe(observer,..) (the function handed to Observable(...), a `defer` factory, `_subscribe_core`)
  event        everything nested in the subscription scope (handlers, scheduled actions, disposers)
Obligations (frame conditions, decided on the AST - no solver needed):
  C04  modifies(subscription ∪ event) ⊆ names bound at subscription/event scope, where *consuming* an
       iterator (next, for, handing a one-shot iterator to a callee's Iterable parameter) counts as a
       write; a one-shot iterator created at application scope must not be consumed per subscription.
  C44  modifies(application ∪ subscription ∪ event) ∩ names bound at factory scope = ∅, and no mutable
       object allocated at factory scope (subject, list, dict, iterator) is referenced from the
       application function.
Admitted, each narrowly: (i) idempotent normalisation `v = sched.to_timedelta(v)` (same value every
time); (ii) draining `infinite()` whose items are discarded; (iii) the multicasting operators are
exempt from C04 only, as the property says.
"""
from __future__ import annotations

import ast
import time

from .loader import Loader, repo_py_files

MUTATORS = {"append", "appendleft", "pop", "popleft", "clear", "extend", "insert", "remove", "add", "discard",
            "update", "setdefault", "sort", "reverse", "popitem", "move_to_end", "on_next", "on_error", "on_completed"}
SUBJECT_CTORS = {"Subject", "ReplaySubject", "BehaviorSubject", "AsyncSubject"}
ONE_SHOT_CALLS = {"iter", "infinite", "map", "filter", "zip", "enumerate", "reversed"}
ONE_SHOT_ATTR = {"takewhile", "dropwhile", "chain", "islice", "count", "cycle", "repeat", "accumulate", "starmap"}
IDEMPOTENT_NORMALISERS = {"to_timedelta", "to_datetime", "to_seconds"}
#: multicasting operators: exempt from the C04 clause only (the property excludes them)
MULTICAST_FILES = {"reactivex/operators/_publish.py", "reactivex/operators/_multicast.py", "reactivex/operators/_replay.py",
                   "reactivex/operators/_publishvalue.py", "reactivex/operators/connectable/_refcount.py",
                   "reactivex/observable/connectableobservable.py"}
#: hot-by-design sources, outside "cold observable"
HOT_FUNCS = {"hot", "to_async_", "start_", "start_async_", "from_future_"}


class Scope:
    def __init__(self, node, parent, name):
        self.node = node
        self.parent = parent
        self.name = name
        self.bound = {}  # name -> allocation kind: 'param' | 'value' | 'mutable' | 'oneshot' | 'subject' | 'def' | 'infinite'
        self.nonlocals = set()
        self.children = []
        self.level = None  # factory | app | sub | event | other
        self.exprs = {}

    def qual(self):
        parts = []
        s = self
        while s is not None and s.name:
            parts.append(s.name)
            s = s.parent
        return ".".join(reversed(parts))

    def resolve(self, name):
        s = self
        first = True
        while s is not None:
            if name in s.bound and not (first and name in s.nonlocals):
                return s
            first = False
            s = s.parent
        return None


SHARING_OPS = {"share", "publish", "publish_value", "replay", "ref_count", "multicast", "auto_connect"}

#: module context of the function under analysis: local name -> itertools function it was imported as (`from itertools import repeat as r`),
#: and the local names of the itertools module itself (`import itertools as it`)
_ITERTOOLS_FUNCS: dict = {}
_ITERTOOLS_MODS: set = {"itertools"}


def set_module_context(tree):
    _ITERTOOLS_FUNCS.clear()
    _ITERTOOLS_MODS.clear()
    _ITERTOOLS_MODS.add("itertools")
    for n in ast.walk(tree):
        if isinstance(n, ast.ImportFrom) and n.module == "itertools":
            for a in n.names:
                _ITERTOOLS_FUNCS[a.asname or a.name] = a.name
        elif isinstance(n, ast.Import):
            for a in n.names:
                if a.name == "itertools":
                    _ITERTOOLS_MODS.add(a.asname or a.name)


def alloc_kind(v):
    if isinstance(v, ast.IfExp):
        # `list(x) if cond else None`: allocated on one branch is allocated
        for k in (alloc_kind(v.body), alloc_kind(v.orelse)):
            if k != "value":
                return k
        return "value"
    if isinstance(v, ast.BoolOp):
        for x in v.values:
            k = alloc_kind(x)
            if k != "value":
                return k
        return "value"
    if isinstance(v, (ast.List, ast.Dict, ast.Set, ast.ListComp, ast.DictComp, ast.SetComp)):
        return "mutable"
    if isinstance(v, ast.GeneratorExp):
        return "oneshot"
    if isinstance(v, ast.Call):
        f = v.func
        n = f.id if isinstance(f, ast.Name) else (f.attr if isinstance(f, ast.Attribute) else None)
        if n == "infinite":
            return "infinite"
        if n in SUBJECT_CTORS:
            return "subject"
        # an observable made HOT here - x.pipe(share()) / publish() / replay() / ref_count() / multicast(..): one subject and one subscriber count
        # behind it, i.e. shared state exactly like a subject allocated at this scope
        if any(isinstance(c, ast.Call) and (getattr(c.func, "id", None) or getattr(c.func, "attr", None)) in SHARING_OPS for c in ast.walk(v)):
            return "subject"
        if isinstance(f, ast.Name) and n in ONE_SHOT_CALLS:
            return "oneshot"
        if isinstance(f, ast.Attribute) and n in ONE_SHOT_ATTR and isinstance(f.value, ast.Name) and f.value.id in _ITERTOOLS_MODS:
            return "oneshot"
        if isinstance(f, ast.Name) and _ITERTOOLS_FUNCS.get(n) in ONE_SHOT_ATTR:
            return "oneshot"
        if n in ("list", "dict", "set", "deque", "OrderedDict", "defaultdict"):
            return "mutable"
    return "value"


def is_nested_mutable(v):
    """a container literal / comprehension / constructor call whose elements are themselves freshly allocated mutable containers"""
    if v is None:
        return False

    def mut(e):
        return isinstance(e, (ast.List, ast.Dict, ast.Set, ast.ListComp, ast.DictComp, ast.SetComp)) or (
            isinstance(e, ast.Call) and (getattr(e.func, "id", None) or getattr(e.func, "attr", None)) in ("list", "dict", "set", "deque", "OrderedDict", "defaultdict"))
    if isinstance(v, (ast.List, ast.Set, ast.Tuple)):
        return any(mut(e) for e in v.elts)
    if isinstance(v, ast.Dict):
        return any(mut(e) for e in v.values if e is not None)
    if isinstance(v, (ast.ListComp, ast.SetComp)):
        return mut(v.elt)
    if isinstance(v, ast.DictComp):
        return mut(v.value)
    if isinstance(v, ast.BinOp) and isinstance(v.op, ast.Mult):
        return (isinstance(v.left, ast.List) and any(mut(e) for e in v.left.elts)) or (isinstance(v.right, ast.List) and any(mut(e) for e in v.right.elts))
    return False


def own_nodes(fn):
    """nodes of fn's body that are not inside a nested def/lambda/class"""
    stack = list(ast.iter_child_nodes(fn))
    while stack:
        n = stack.pop()
        yield n
        if isinstance(n, (ast.FunctionDef, ast.AsyncFunctionDef, ast.Lambda, ast.ClassDef)):
            continue
        stack.extend(ast.iter_child_nodes(n))


def build_scope(node, parent, name):
    sc = Scope(node, parent, name)
    a = node.args
    for p in a.posonlyargs + a.args + a.kwonlyargs:
        sc.bound[p.arg] = "param"
    if a.vararg:
        sc.bound[a.vararg.arg] = "param"
    if a.kwarg:
        sc.bound[a.kwarg.arg] = "param"
    body_nodes = list(own_nodes(node)) if not isinstance(node, ast.Lambda) else list(ast.walk(node.body))
    for n in body_nodes:
        if isinstance(n, ast.Nonlocal):
            sc.nonlocals.update(n.names)
    for n in body_nodes:
        if isinstance(n, ast.Assign):
            for t in n.targets:
                for nm in ast.walk(t):
                    if isinstance(nm, ast.Name) and isinstance(nm.ctx, ast.Store) and nm.id not in sc.nonlocals:
                        k = alloc_kind(n.value) if isinstance(t, ast.Name) else "value"
                        # several assignments: the most dangerous kind wins
                        rank = ["value", "param", "def", "infinite", "mutable", "oneshot", "subject"]
                        if nm.id not in sc.bound or rank.index(k) > rank.index(sc.bound[nm.id]):
                            sc.bound[nm.id] = k
                            sc.exprs[nm.id] = n.value
        elif isinstance(n, ast.AnnAssign) and isinstance(n.target, ast.Name) and n.target.id not in sc.nonlocals:
            sc.bound[n.target.id] = alloc_kind(n.value) if n.value is not None else "value"
            sc.exprs[n.target.id] = n.value
        elif isinstance(n, (ast.For, ast.comprehension)):
            for nm in ast.walk(n.target):
                if isinstance(nm, ast.Name) and nm.id not in sc.nonlocals:
                    sc.bound.setdefault(nm.id, "value")
        elif isinstance(n, ast.With):
            for it in n.items:
                if it.optional_vars is not None:
                    for nm in ast.walk(it.optional_vars):
                        if isinstance(nm, ast.Name):
                            sc.bound.setdefault(nm.id, "value")
        elif isinstance(n, ast.ExceptHandler) and n.name:
            sc.bound.setdefault(n.name, "value")
        elif isinstance(n, (ast.FunctionDef, ast.AsyncFunctionDef)) and n is not node:
            sc.bound[n.name] = "def"
        elif isinstance(n, (ast.Import, ast.ImportFrom)):
            for al in n.names:
                sc.bound[(al.asname or al.name).split(".")[0]] = "value"
    # children
    for n in body_nodes:
        if isinstance(n, (ast.FunctionDef, ast.AsyncFunctionDef)) and n is not node:
            sc.children.append(build_scope(n, sc, n.name))
        elif isinstance(n, ast.Lambda):
            sc.children.append(build_scope(n, sc, f"<lambda@{n.lineno}>"))
    return sc


def all_scopes(sc):
    yield sc
    for c in sc.children:
        yield from all_scopes(c)


def mark_levels(root):
    """find subscription scopes and derive app/factory/event levels"""
    subs = []
    for sc in all_scopes(root):
        nodes = list(own_nodes(sc.node)) if not isinstance(sc.node, ast.Lambda) else list(ast.walk(sc.node.body))
        for n in nodes:
            if isinstance(n, ast.Call):
                f = n.func
                fname = f.id if isinstance(f, ast.Name) else (f.attr if isinstance(f, ast.Attribute) else None)
                if fname in ("Observable", "defer", "create", "ConnectableObservable") and n.args:
                    a0 = n.args[0]
                    if isinstance(a0, ast.Name):
                        for c in sc.children:
                            if c.name == a0.id:
                                subs.append(c)
                    elif isinstance(a0, ast.Lambda):
                        for c in sc.children:
                            if c.node is a0:
                                subs.append(c)
    for sc in all_scopes(root):
        if sc.name in ("subscribe", "_subscribe_core") and sc not in subs and sc.parent is not None:
            subs.append(sc)
    for s in subs:
        s.level = "sub"
        for d in all_scopes(s):
            if d is not s:
                d.level = "event"
    apps = set()
    for s in subs:
        p = s.parent
        while p is not None and p.level in ("sub", "event"):
            p = p.parent
        if p is not None:
            apps.add(p)
    for a in apps:
        if a.level is None:
            a.level = "app"
    for a in apps:
        p = a.parent
        while p is not None:
            if p.level is None:
                p.level = "factory"
            p = p.parent
    return subs


LEVEL_RANK = {"factory": 0, "app": 1, "sub": 2, "event": 3}


def level_rank_of(sc):
    s = sc
    while s is not None and s.level is None:
        s = s.parent
    return LEVEL_RANK.get(s.level) if s is not None else None


class Finding:
    def __init__(self, prop, func, label, detail, line):
        self.prop, self.func, self.label, self.detail, self.line = prop, func, label, detail, line


def analyse_function(relpath, fn, loader, iterable_params):
    try:
        set_module_context(loader.load_file(relpath).tree)
    except Exception:  # noqa: BLE001
        pass
    root = build_scope(fn, None, fn.name)
    curried = any(isinstance(d, ast.Name) and d.id == "curry_flip" for d in fn.decorator_list)
    subs = mark_levels(root)
    findings = []
    if not subs:
        # composition-only operator: application scope is the function (curried) or its inner function
        if curried:
            root.level = "app"
        else:
            inner = [c for c in root.children if not isinstance(c.node, ast.Lambda) and c.bound and
                     any(p in ("source", "sources", "xs") for p in c.bound)]
            if inner:
                root.level = "factory"
                for c in inner:
                    c.level = "app"
            else:
                root.level = "app"
    if curried and root.level == "factory":
        root.level = "app"
    # a nested function or lambda that is HANDED ON as an argument (the projection given to ops.map, an accumulator given to scan, a
    # predicate given to filter) is run by the operator it is given to once per element: event level - whatever it writes or consumes
    # outside itself is state that must be allocated per subscription
    passed = set()
    for n in ast.walk(fn):
        if isinstance(n, ast.Call):
            fname_ = n.func.id if isinstance(n.func, ast.Name) else (n.func.attr if isinstance(n.func, ast.Attribute) else None)
            if fname_ in ("Observable", "defer", "create", "ConnectableObservable", "curry_flip", "synchronized", "subscribe", "subscribe_",
                          "schedule", "schedule_relative", "schedule_absolute", "schedule_periodic", "add_done_callback", "Disposable"):
                continue  # (handlers of a subscription / scheduled actions the function sets up itself: levelled by mark_levels)
            for a in list(n.args) + [k.value for k in n.keywords]:
                if isinstance(a, ast.Name):
                    passed.add(a.id)
                elif isinstance(a, ast.Lambda):
                    passed.add(id(a))
    for sc in all_scopes(root):
        if sc is root or sc.level is not None:
            continue
        if (isinstance(sc.node, ast.FunctionDef) and sc.node.name in passed) or id(sc.node) in passed:
            if sc.parent is not None and level_rank_of(sc.parent) is not None and level_rank_of(sc.parent) < LEVEL_RANK["sub"]:
                sc.level = "event"
    multicast = relpath in MULTICAST_FILES
    hot = fn.name in HOT_FUNCS

    def level_of(sc):
        s = sc
        while s is not None and s.level is None:
            s = s.parent
        return s.level if s is not None else None

    for sc in all_scopes(root):
        lvl = level_of(sc)
        if lvl is None:
            continue
        nodes = list(own_nodes(sc.node)) if not isinstance(sc.node, ast.Lambda) else list(ast.walk(sc.node.body))
        writes = []  # (name, why, node)
        for n in nodes:
            if isinstance(n, (ast.Assign, ast.AugAssign, ast.AnnAssign)):
                targets = n.targets if isinstance(n, ast.Assign) else [n.target]
                for t in targets:
                    if isinstance(t, ast.Name) and t.id in sc.nonlocals:
                        # idempotent normalisation v = sched.to_timedelta(v)
                        v = getattr(n, "value", None)
                        if (isinstance(n, ast.Assign) and isinstance(v, ast.Call) and isinstance(v.func, ast.Attribute)
                                and v.func.attr in IDEMPOTENT_NORMALISERS and len(v.args) == 1
                                and isinstance(v.args[0], ast.Name) and v.args[0].id == t.id):
                            continue
                        writes.append((t.id, "assigned (nonlocal)", n))
                    elif isinstance(t, ast.Subscript) and isinstance(t.value, ast.Name):
                        writes.append((t.value.id, "item assignment", n))
            elif isinstance(n, ast.Delete):
                for t in n.targets:
                    if isinstance(t, ast.Subscript) and isinstance(t.value, ast.Name):
                        writes.append((t.value.id, "item deletion", n))
            elif isinstance(n, ast.Call):
                f = n.func
                if isinstance(f, ast.Attribute) and isinstance(f.value, ast.Name) and f.attr in MUTATORS:
                    tgt = sc.resolve(f.value.id)
                    if tgt is not None and tgt.bound.get(f.value.id) in ("mutable", "subject"):
                        writes.append((f.value.id, f"mutated by .{f.attr}()", n))
                if isinstance(f, ast.Name) and f.id == "next" and n.args and isinstance(n.args[0], ast.Name):
                    writes.append((n.args[0].id, "consumed by next()", n))
                # handing a one-shot iterator to an Iterable parameter of an observable factory
                fname = f.id if isinstance(f, ast.Name) else (f.attr if isinstance(f, ast.Attribute) else None)
                if fname in iterable_params:
                    for idx, a in enumerate(n.args):
                        if idx in iterable_params[fname] or "*" in iterable_params[fname]:
                            kind = alloc_kind(a)
                            if isinstance(a, ast.Name):
                                tg = sc.resolve(a.id)
                                kind = tg.bound.get(a.id) if tg is not None else "value"
                                owner_lvl = level_of(tg) if tg is not None else None
                            else:
                                owner_lvl = lvl
                            # (wherever the call sits: at application scope the callee consumes it once per subscription; inside the
                            # subscription - a defer factory, a subscribe function - this code does, on the SAME object every time)
                            if kind == "oneshot" and owner_lvl in ("app", "factory") and not multicast and not hot:
                                findings.append(Finding("C04", fn.name, f"one-shot-iterator-to-{fname}",
                                                        f"a one-shot iterator built at {owner_lvl} scope is handed to {fname}(...), whose "
                                                        f"Iterable parameter is consumed once per subscription (requires reiterable)", n.lineno))
            elif isinstance(n, (ast.For, ast.comprehension)) and isinstance(n.iter, ast.Name):
                tg = sc.resolve(n.iter.id)
                if tg is not None and tg.bound.get(n.iter.id) in ("oneshot",):
                    writes.append((n.iter.id, "consumed by iteration", n))
        for name, why, n in writes:
            tg = sc.resolve(name)
            if tg is None:
                continue
            tl = level_of(tg)
            if tl is None or tl not in LEVEL_RANK:
                continue
            line = getattr(n, "lineno", 0)
            if LEVEL_RANK[lvl] >= LEVEL_RANK["sub"] and LEVEL_RANK[tl] < LEVEL_RANK["sub"]:
                if tg.bound.get(name) == "param" and why.startswith("assigned"):
                    pass_ = False
                else:
                    pass_ = False
                if not multicast and not hot and not pass_:
                    findings.append(Finding("C04", fn.name, f"subscription-writes-outer/{name}",
                                            f"`{name}` ({tg.bound.get(name)}, bound at {tl} scope in {tg.qual()}) is {why} at {lvl} "
                                            f"scope in {sc.qual()}: state survives from one subscription to the next", line))
            if LEVEL_RANK[lvl] >= LEVEL_RANK["app"] and tl == "factory":
                findings.append(Finding("C44", fn.name, f"application-writes-factory/{name}",
                                        f"`{name}` (bound at factory scope in {tg.qual()}) is {why} at {lvl} scope in {sc.qual()}: "
                                        f"state leaks between applications of one operator object", line))
        # reads, from subscription-level code, of a NESTED mutable container allocated before the subscription ([[], []], [[] for ..], a dict
        # of lists, ...): even an honest per-subscription `x.copy()` / `list(x)` / slice of it is shallow - the inner objects are the same
        # for every subscription, and what one subscription appends to them the next one finds (C04)
        if LEVEL_RANK.get(lvl, -1) >= LEVEL_RANK["sub"] and not multicast and not hot:
            seen_nested = set()
            for n in nodes:
                if isinstance(n, ast.Name) and isinstance(n.ctx, ast.Load) and n.id not in seen_nested:
                    tg = sc.resolve(n.id)
                    tl = level_of(tg) if tg is not None else None
                    if tg is not None and tl in LEVEL_RANK and LEVEL_RANK[tl] < LEVEL_RANK["sub"] and is_nested_mutable(tg.exprs.get(n.id)):
                        seen_nested.add(n.id)
                        findings.append(Finding("C04", fn.name, f"subscription-shares-nested-outer-object/{n.id}",
                                                f"`{n.id}` (a container of mutable containers allocated at {tl} scope in {tg.qual()}) is used at {lvl} scope in "
                                                f"{sc.qual()}: a per-subscription copy of it is shallow, the inner containers are shared by all subscriptions", n.lineno))
        # reads of factory-scope mutable allocations from the application function (C44)
        if LEVEL_RANK.get(lvl, -1) >= LEVEL_RANK["app"]:
            for n in nodes:
                if isinstance(n, ast.Name) and isinstance(n.ctx, ast.Load):
                    tg = sc.resolve(n.id)
                    if tg is not None and level_of(tg) == "factory" and tg.bound.get(n.id) in ("mutable", "subject", "oneshot"):
                        findings.append(Finding("C44", fn.name, f"application-shares-factory-object/{n.id}",
                                                f"`{n.id}` ({tg.bound.get(n.id)} allocated at factory scope) is used by the application "
                                                f"function: every application of this operator object shares it", n.lineno))
    # factory-scope mutable objects flowing into the returned operator (no application function of its own)
    if root.level in ("factory", "app") and not curried and relpath.startswith("reactivex/operators/"):
        nodes = list(own_nodes(root.node))
        has_inner_app = any(c.level == "app" for c in root.children)
        if not has_inner_app and root.level != "app":
            pass
        for n in nodes:
            if isinstance(n, ast.Return) and n.value is not None and not curried and takes_no_source(fn):
                # e.g. `rs = ReplaySubject(...); return ops.multicast(subject=rs)` - in ANY return statement of the factory (one branch may build
                # the operator from other operators while another defines an application function of its own)
                for m in ast.walk(n.value):
                    if isinstance(m, ast.Name) and root.bound.get(m.id) in ("subject", "mutable", "oneshot"):
                        findings.append(Finding("C44", fn.name, f"factory-object-in-operator/{m.id}",
                                                f"`{m.id}` ({root.bound.get(m.id)}) is created once per call of {fn.name}(...) and captured by the "
                                                f"returned operator: every application of that operator object shares it", n.lineno))
                # ... or allocated inline in the returned expression: `return ops.multicast(subject=Subject())`
                stack = [n.value]
                while stack:
                    m = stack.pop()
                    if isinstance(m, (ast.Lambda, ast.FunctionDef, ast.AsyncFunctionDef)):
                        continue  # what a lambda allocates is allocated when IT runs
                    if isinstance(m, ast.Call) and alloc_kind(m) == "subject" and (getattr(m.func, "id", None) or getattr(m.func, "attr", None)) in SUBJECT_CTORS:
                        findings.append(Finding("C44", fn.name, f"factory-object-in-operator/{(getattr(m.func, 'id', None) or getattr(m.func, 'attr', None))}()",
                                                f"a subject is created once per call of {fn.name}(...) inside the expression that builds the returned operator: "
                                                f"every application of that operator object shares it", n.lineno))
                    stack.extend(ast.iter_child_nodes(m))
    # a factory without a source parameter (ops.x(args) returns the operator): a closure it defines and hands on (a subject factory,
    # a mapper wrapper, ...) runs once per application / subscription - if it assigns a variable of the factory, every application
    # of the operator object and every subscription shares that state (C44)
    if takes_no_source(fn) and not curried and relpath.startswith("reactivex/operators/"):
        for sc in all_scopes(root):
            if sc is root or sc.level in ("sub", "event"):
                continue
            nodes = list(own_nodes(sc.node)) if not isinstance(sc.node, ast.Lambda) else list(ast.walk(sc.node.body))
            for n in nodes:
                if isinstance(n, (ast.Assign, ast.AugAssign, ast.AnnAssign)):
                    targets = n.targets if isinstance(n, ast.Assign) else [n.target]
                    for t in targets:
                        if isinstance(t, ast.Name) and t.id in sc.nonlocals:
                            tg = sc.resolve(t.id)
                            if tg is root:
                                findings.append(Finding("C44", fn.name, f"closure-writes-factory/{t.id}",
                                                        f"`{t.id}` (bound in {fn.name}(...), i.e. once per operator object) is assigned by the closure "
                                                        f"{sc.qual()} that the operator runs later: state leaks between applications / subscriptions", n.lineno))
                elif isinstance(n, ast.Name) and isinstance(n.ctx, ast.Load):
                    # ... or if it hands out a mutable object / subject the factory allocated (a subject factory returning one subject)
                    tg = sc.resolve(n.id)
                    if tg is root and root.bound.get(n.id) in ("subject", "mutable", "oneshot"):
                        findings.append(Finding("C44", fn.name, f"closure-shares-factory-object/{n.id}",
                                                f"`{n.id}` ({root.bound.get(n.id)}, allocated once per call of {fn.name}(...)) is used by the closure "
                                                f"{sc.qual()} that the operator runs once per application / subscription: all of them share it", n.lineno))
    # a function of an operator module that MUTATES an object it is handed (an accumulator updating its `prev` in place, a mapper
    # appending to its argument): the object may be a seed / default allocated once per application or per operator value and
    # handed to every subscription (scan(accumulator, seed)) - state then survives from one subscription to the next although no
    # variable is assigned.  Functions of these modules never do so on the unchanged tree.
    handed_on = set()  # functions / lambdas that are passed to someone as an argument (callbacks of other operators)
    for n in ast.walk(fn):
        if isinstance(n, ast.Call):
            for a in list(n.args) + [k.value for k in n.keywords]:
                if isinstance(a, ast.Name):
                    handed_on.add(a.id)
                elif isinstance(a, ast.Lambda):
                    handed_on.add(id(a))
    for sc in all_scopes(root):
        node = sc.node
        if not isinstance(node, (ast.FunctionDef, ast.Lambda)):
            continue
        if not ((isinstance(node, ast.FunctionDef) and node.name in handed_on) or id(node) in handed_on):
            continue  # a helper the module calls itself with its own (per-subscription) objects is not a callback of another operator
        ps = {a.arg for a in node.args.posonlyargs + node.args.args + node.args.kwonlyargs} - {"self", "cls"}
        nodes = list(own_nodes(node)) if not isinstance(node, ast.Lambda) else list(ast.walk(node.body))
        for n in nodes:
            tg = n.targets if isinstance(n, ast.Assign) else ([n.target] if isinstance(n, (ast.AugAssign, ast.AnnAssign)) else [])
            for t in tg:
                if isinstance(t, (ast.Attribute, ast.Subscript)) and isinstance(t.value, ast.Name) and t.value.id in ps:
                    findings.append(Finding("C04", fn.name, f"mutates-its-argument/{t.value.id}",
                                            f"{sc.qual()} assigns into its parameter `{t.value.id}` ({ast.unparse(n)[:60]}): an object shared by "
                                            f"several subscriptions (a seed, a default) is changed by each of them", n.lineno))
            if (isinstance(n, ast.Call) and isinstance(n.func, ast.Attribute) and n.func.attr in MUTATORS - {"on_next", "on_error", "on_completed"}
                    and isinstance(n.func.value, ast.Name) and n.func.value.id in ps):
                findings.append(Finding("C04", fn.name, f"mutates-its-argument/{n.func.value.id}",
                                        f"{sc.qual()} mutates its parameter `{n.func.value.id}` by .{n.func.attr}(): an object shared by several "
                                        f"subscriptions is changed by each of them", n.lineno))
    uniq = {}
    for f in findings:
        uniq.setdefault((f.prop, f.label), f)
    return list(uniq.values()), root


def takes_no_source(fn):
    a = fn.args
    names = [p.arg for p in a.posonlyargs + a.args]
    return not names or names[0] not in ("source", "sources", "self")


def iterable_param_table(loader):
    """function name -> indexes of parameters annotated Iterable[...] ('*' for *args of Iterable)"""
    table = {}
    for rel in ["reactivex/__init__.py", "reactivex/operators/__init__.py"] + repo_py_files(loader.repo, "reactivex/observable"):
        if "/mixins/" in rel:
            continue
        m = loader.load_file(rel)
        for st in m.tree.body:
            if isinstance(st, ast.FunctionDef):
                idxs = set()
                for i, p in enumerate(st.args.posonlyargs + st.args.args):
                    if p.annotation is not None and "Iterable[" in ast.unparse(p.annotation):
                        idxs.add(i)
                if idxs:
                    table.setdefault(st.name, set()).update(idxs)
    return table


def target_files(loader):
    out = []
    for rel in repo_py_files(loader.repo, "reactivex/operators") + repo_py_files(loader.repo, "reactivex/observable"):
        base = rel.rsplit("/", 1)[-1]
        if base == "__init__.py" or "/mixins/" in rel:
            continue
        out.append(rel)
    # the factory functions of the package itself (for_in, concat, catch, ... build their iterables there)
    out.append("reactivex/__init__.py")
    return out


def witness_contract(func):
    """an operator contract (module, name) with a native witness for this function, for replays"""
    import importlib

    from . import registry

    for m in registry.OP_MODULES:
        for c in getattr(importlib.import_module(m), "CONTRACTS", []):
            if c.func == func and c.witness:
                return m, c.name
    return None


def reiterable_contract(loader, prop):
    """`infinite()` is treated as a RE-ITERABLE by the frame conditions (map_indexed & co. build one at application time and iterate it
    once per subscription).  Contract of the helper behind it (reactivex/internal/utils.py): infinite() returns a new instance of a
    class whose __iter__ yields a NEW iterator every time with state of its own - a generator function that assigns no attribute of
    self, on a class that is not its own iterator (no __next__)."""
    rel = "reactivex/internal/utils.py"
    tree = loader.load_file(rel).tree
    out = []

    def rec(name, ok, detail=""):
        out.append({"id": f"{rel}::infinite/frame-{prop}/{name}", "verdict": "proved" if ok else "refuted", "backend": "frame-analysis", "model": {},
                    "path": [], "detail": detail, "seconds": 0.0, "kind": "frame"})
    fn = next((n for n in tree.body if isinstance(n, ast.FunctionDef) and n.name == "infinite"), None)
    cls = None
    if fn is not None:
        rets = [r for r in ast.walk(fn) if isinstance(r, ast.Return)]
        if len(rets) == 1 and isinstance(rets[0].value, ast.Call) and isinstance(rets[0].value.func, ast.Name):
            cls = next((n for n in tree.body if isinstance(n, ast.ClassDef) and n.name == rets[0].value.func.id), None)
    rec("returns-a-new-instance-of-its-helper-class", cls is not None)
    if cls is None:
        return out
    methods = {n.name: n for n in cls.body if isinstance(n, ast.FunctionDef)}
    it_ = methods.get("__iter__")
    is_gen = it_ is not None and any(isinstance(n, (ast.Yield, ast.YieldFrom)) for n in ast.walk(it_))
    writes_self = it_ is not None and any(isinstance(n, (ast.Assign, ast.AugAssign, ast.AnnAssign)) and any(
        isinstance(t, ast.Attribute) and isinstance(t.value, ast.Name) and t.value.id == "self"
        for t in (n.targets if isinstance(n, ast.Assign) else [n.target])) for n in ast.walk(it_))
    rec("every-iteration-gets-an-iterator-with-state-of-its-own", is_gen and not writes_self and "__next__" not in methods,
        f"__iter__ is a generator function: {is_gen}; assigns attributes of self: {writes_self}; the class is its own iterator (__next__): "
        f"{'__next__' in methods} - overlapping subscriptions would share one position")
    return out


#: component reads of a timedelta that are meant: (file, attribute) -> why
SPAN_COMPONENT_EXEMPT = {
    ("reactivex/testing/marbles.py", "microseconds"): "messages_to_records: the non-number branch is dead (parse() returns float seconds)",
}

#: subscribe calls that name no scheduler on purpose
SCHEDULER_EXEMPT = [
    ("reactivex/observable/connectableobservable.py", "source.subscribe(observer)", "auto_connect subscribes the observer to the connectable (a subject: nothing is scheduled)"),
    ("reactivex/observable/defer.py", "throw(ex).subscribe(observer)", "the factory failed: the error is delivered by throw() on the current-thread scheduler"),
]
TIMED_OPS = ("delay", "delay_subscription", "time_interval", "debounce", "throttle_first", "sample", "take_with_time", "skip_with_time",
             "take_until_with_time", "skip_until_with_time", "take_last_with_time", "skip_last_with_time", "timeout", "throttle_with_mapper",
             "timeout_with_mapper", "delay_with_mapper")


def run_local(desc):
    """The K1 / function proofs of a property are about ONE subscription of ONE application of the operator, started from the
    state its subscribe function allocates.  That they speak for every subscription and every application is this frame
    condition, checked for the property's own functions: handlers write only state allocated by their own subscription
    (C04's condition) and applications neither write nor share factory-scope objects (C44's)."""
    t0 = time.time()
    loader = Loader()
    prop = desc["prop"]
    table = iterable_param_table(loader)
    results = []
    functions = {}
    for rel in desc.get("files", []):
        if rel.endswith("__init__.py") or not rel.endswith(".py"):
            continue
        try:
            m = loader.load_file(rel)
        except (OSError, SyntaxError):
            continue
        # a time span counts WHOLE: it is converted by the scheduler (to_seconds / to_timedelta / to_datetime, C36) or by total_seconds() - never
        # through a component of a timedelta (.seconds / .microseconds / .days drop the days, the fraction or the sign)
        comp = [n for n in ast.walk(m.tree) if isinstance(n, ast.Attribute) and isinstance(n.ctx, ast.Load) and n.attr in ("seconds", "microseconds", "days")
                and (rel, n.attr) not in SPAN_COMPONENT_EXEMPT]
        results.append({"id": f"{rel}::time-spans-are-converted-whole", "verdict": "proved" if not comp else "refuted", "backend": "frame-analysis", "model": {}, "path": [],
                        "seconds": 0.0, "kind": "frame",
                        "detail": "" if not comp else "; ".join(f"line {n.lineno}: `{ast.unparse(n)}`" for n in comp[:4]) + " - a component of a timedelta, not the span: "
                        "days, fractions of a second or the sign are lost (timer(timedelta(days=1)) would fire at once)"})
        if not (rel.startswith("reactivex/operators/") or rel.startswith("reactivex/observable/")) or "/mixins/" in rel:
            continue
        for st in m.tree.body:
            if not isinstance(st, ast.FunctionDef):
                continue
            try:
                fs, root = analyse_function(rel, st, loader, table)
            except RecursionError:
                continue
            functions[f"{rel}::{st.name}"] = loader.sha(rel, st.name)
            oid = f"{rel}::{st.name}/state-is-allocated-per-subscription-and-per-application"
            if not fs:
                results.append({"id": oid, "verdict": "proved", "backend": "frame-analysis", "model": {}, "path": [],
                                "detail": "", "seconds": 0.0, "kind": "frame"})
            for f in fs:
                r = {"id": f"{oid}/{f.label}", "verdict": "refuted", "backend": "frame-analysis", "model": {},
                     "path": [], "detail": f"{f.detail} (line {f.line})", "seconds": 0.0, "kind": "frame"}
                wc = witness_contract(st.name)
                if wc:
                    r["replay_info"] = {"runner": "diffrun.py", "module": wc[0], "name": wc[1],
                                        "mode": "resub" if f.prop == "C04" else "reuse"}
                elif f.prop == "C04" and st.name.rstrip("_") in TIMED_OPS:
                    # timed operators: the same observable subscribed twice on a TestScheduler (timedrun.py resub)
                    r["replay_info"] = {"runner": "timedrun.py", "module": "-", "name": st.name.rstrip("_"), "mode": "resub"}
                results.append(r)
        # the scheduler a subscription was made with travels with it: every `.subscribe(...)` the file's functions issue names a
        # scheduler (the one they were subscribed with, or the operator's own) - a source without a scheduler of its own
        # (timer(d), interval(p), of(...)) otherwise runs on another clock than the rest of the pipeline
        for n in ast.walk(m.tree):
            if isinstance(n, ast.Call) and isinstance(n.func, ast.Attribute) and n.func.attr == "subscribe":
                named = any(k.arg == "scheduler" for k in n.keywords) or len(n.args) >= 4 or any(k.arg is None for k in n.keywords)
                text = ast.unparse(n)
                why = next((w for (f_, frag, w) in SCHEDULER_EXEMPT if f_ == rel and frag in text), None)
                results.append({"id": f"{rel}::subscribe-call@{text[:40]}/hands-a-scheduler-on", "verdict": "proved" if (named or why) else "refuted",
                                "backend": "frame-analysis", "model": {}, "path": [], "seconds": 0.0, "kind": "frame",
                                "detail": (why or "") if (named or why) else f"line {n.lineno}: `{text[:100]}` passes no scheduler: the source is subscribed "
                                          f"without the scheduler this subscription was made with"})
    return {"unit": f"state-allocation/{prop}", "kind": "K4 frame / allocation-scope conditions of the functions under contract",
            "functions": functions, "results": results, "unsupported": None, "spec_validation": [], "bounded": [],
            "seconds": time.time() - t0}


#: class attributes that ARE meant to be shared by all instances: the per-thread / per-class singleton registries
SHARED_CLASS_STATE = {
    ("reactivex/scheduler/currentthreadscheduler.py", "CurrentThreadScheduler", "_global"): "registry of the per-thread singletons (singleton())",
    ("reactivex/scheduler/currentthreadscheduler.py", "CurrentThreadSchedulerSingleton", "_local"): "thread-local trampoline of the singleton",
    ("reactivex/scheduler/immediatescheduler.py", "ImmediateScheduler", "_global"): "registry of the singleton (__new__)",
    ("reactivex/scheduler/timeoutscheduler.py", "TimeoutScheduler", "_global"): "registry of the singleton (__new__)",
}
_CONTAINER_CTORS = {"dict", "list", "set", "defaultdict", "OrderedDict", "deque", "Counter", "WeakKeyDictionary", "WeakValueDictionary", "WeakSet", "bytearray"}
_MUTATING = {"append", "add", "update", "setdefault", "pop", "popitem", "remove", "discard", "clear", "extend", "insert", "appendleft", "popleft", "__setitem__"}


def run_class_state(desc):
    """The class contracts (monitors, refinements, function contracts of the schedulers) are about ONE object, from an arbitrary state of
    its own fields.  That they speak for every object of the class is this frame condition: no method keeps state in a mutable container
    that is a CLASS attribute (shared by all instances: one scheduler's work would see another's) - except the singleton registries."""
    t0 = time.time()
    loader = Loader()
    results, functions = [], {}
    for rel in desc.get("files", []):
        try:
            m = loader.load_file(rel)
        except (OSError, SyntaxError, Exception):  # noqa: BLE001
            continue
        for c in [n for n in ast.walk(m.tree) if isinstance(n, ast.ClassDef)]:
            shared = {}
            for st in c.body:
                tgt = val = None
                if isinstance(st, ast.Assign) and len(st.targets) == 1 and isinstance(st.targets[0], ast.Name):
                    tgt, val = st.targets[0].id, st.value
                elif isinstance(st, ast.AnnAssign) and isinstance(st.target, ast.Name) and st.value is not None:
                    tgt, val = st.target.id, st.value
                if tgt is None:
                    continue
                is_container = isinstance(val, (ast.Dict, ast.List, ast.Set, ast.ListComp, ast.DictComp, ast.SetComp)) or (
                    isinstance(val, ast.Call) and (getattr(val.func, "id", None) or getattr(val.func, "attr", None)) in _CONTAINER_CTORS)
                if is_container:
                    shared[tgt] = st.lineno
            try:
                functions[f"{rel}::{c.name}"] = loader.sha(rel, c.name)
            except Exception:  # noqa: BLE001
                pass
            oid = f"{rel}::{c.name}/instances-share-no-mutable-class-level-state"
            bad = []
            for attr, line in shared.items():
                if (rel, c.name, attr) in SHARED_CLASS_STATE:
                    continue
                # written through self / cls / the class name / type(self) by some method?
                for n in ast.walk(c):
                    a = None
                    if isinstance(n, (ast.Subscript,)) and isinstance(n.ctx, (ast.Store, ast.Del)) and isinstance(n.value, ast.Attribute) and n.value.attr == attr:
                        a = n.value
                    elif isinstance(n, ast.Call) and isinstance(n.func, ast.Attribute) and n.func.attr in _MUTATING and isinstance(n.func.value, ast.Attribute) \
                            and n.func.value.attr == attr:
                        a = n.func.value
                    elif isinstance(n, ast.AugAssign) and isinstance(n.target, ast.Attribute) and n.target.attr == attr:
                        a = n.target
                    if a is not None:
                        bad.append((attr, line, n.lineno))
                        break
            if not bad:
                results.append({"id": oid, "verdict": "proved", "backend": "frame-analysis", "model": {}, "path": [], "seconds": 0.0, "kind": "frame",
                                "detail": "; ".join(f"{a}: {SHARED_CLASS_STATE[(rel, c.name, a)]}" for a in shared if (rel, c.name, a) in SHARED_CLASS_STATE)})
            for (attr, line, use) in bad:
                results.append({"id": f"{oid}/{attr}", "verdict": "refuted", "backend": "frame-analysis", "model": {}, "path": [], "seconds": 0.0, "kind": "frame",
                                "detail": f"`{attr}` is a mutable container created once in the class body (line {line}) and written by a method (line {use}): "
                                          f"every {c.name} object shares it - state kept for one object is seen by all the others"})
    return {"unit": f"instance-state/{desc['prop']}", "kind": "K4 frame condition of the class contracts (state is per object)",
            "functions": functions, "results": results, "unsupported": None, "spec_validation": [], "bounded": [], "seconds": time.time() - t0}


def run_unit(desc):
    if desc.get("mode") == "local":
        return run_local(desc)
    if desc.get("mode") == "classes":
        return run_class_state(desc)
    t0 = time.time()
    loader = Loader()
    prop = desc["prop"]
    table = iterable_param_table(loader)
    results = []
    functions = {}
    results.extend(reiterable_contract(loader, prop))
    for rel in target_files(loader):
        m = loader.load_file(rel)
        for st in m.tree.body:
            if not isinstance(st, ast.FunctionDef):
                continue
            try:
                fs, root = analyse_function(rel, st, loader, table)
            except RecursionError:
                continue
            functions[f"{rel}::{st.name}"] = loader.sha(rel, st.name)
            mine = [f for f in fs if f.prop == prop]
            oid = f"{rel}::{st.name}/frame-{prop}"
            if not mine:
                results.append({"id": oid, "verdict": "proved", "backend": "frame-analysis", "model": {}, "path": [],
                                "detail": "", "seconds": 0.0, "kind": "frame"})
            for f in mine:
                r = {"id": f"{oid}/{f.label}", "verdict": "refuted", "backend": "frame-analysis", "model": {},
                     "path": [], "detail": f"{f.detail} (line {f.line})", "seconds": 0.0, "kind": "frame"}
                wc = witness_contract(st.name)
                if wc:
                    r["replay_info"] = {"runner": "diffrun.py", "module": wc[0], "name": wc[1],
                                        "mode": "resub" if prop == "C04" else "reuse"}
                results.append(r)
    return {
        "unit": f"frame-conditions/{prop}",
        "kind": "K4 frame / allocation-scope conditions",
        "functions": functions,
        "results": results,
        "unsupported": None,
        "spec_validation": [],
        "bounded": [],
        "seconds": time.time() - t0,
    }
